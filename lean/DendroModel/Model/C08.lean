import DendroModel.Basic.Tree
import DendroModel.Model.TreeOps
import DendroModel.Gen.C08Kernels
/-! C08 — executable model of pruning / retaining / extracting (Mathlib-free; `drv_c08` runs these definitions).

* `restrict` is the SPEC: the subtree induced by the leaves a predicate keeps, by structural recursion.
* the mechanisms are modelled as the code runs them:
  - `strike`   : the post-order removal pass at the head of `Tree.prune_taxa`
  - `dropPass` / `dropLoop` : the `while True` loop of `prune_leaves_without_taxa` / `filter_leaf_nodes`
                 (collect the current leaves the filter rejects, remove them, repeat while something was removed)
  - `T.sup`    : `Tree.suppress_unifurcations` (shared, Model/TreeOps.lean)
  - `exStep` / `extractTree` : `Node.extract_subtree`, a fold over the post-order node sequence with a memo
                 (source node ↦ clone) and on-the-fly merging of nodes left with one cloned child
  - `cut`      : `Tree.prune_subtree`.
A node predicate (filter function) is a function of the node's id and taxon (`Acc`). -/
namespace DendroModel.C08
open DendroModel

/-- what a filter function may look at: the node's identity and its taxon bit -/
abbrev Acc := Nat → Option Nat → Bool

/-! ## the specification: induced subtree -/
mutual
/-- the tree induced by the leaves that `keep` accepts. `none`: no leaf survives.  With `sup` a node left with
    one surviving child is replaced by that child, whose length absorbs the node's (`addLen`); without, it stays. -/
def restrict (keep : Acc) (sup : Bool) : T → Option T
  | .node i x l s [] => if keep i x then some (.node i x l s []) else none
  | .node i x l s (c :: cs) =>
    match restrictL keep sup (c :: cs) with
    | [] => none
    | [k] => if sup then some (k.withLen (addLen k.len l)) else some (.node i x l s [k])
    | ks => some (.node i x l s ks)
def restrictL (keep : Acc) (sup : Bool) : List T → List T
  | [] => []
  | c :: cs => match restrict keep sup c with
    | some r => r :: restrictL keep sup cs
    | none => restrictL keep sup cs
end

mutual
/-- the specification of recursive leaf filtering with an ARBITRARY filter (`filter_leaf_nodes(recursive=True)` by its
    docstring): leaves the filter rejects go; a node all of whose children went has become a leaf and is asked as well.
    `none`: the seed itself goes.  (Suppression is applied afterwards by `T.sup`.) -/
def restrictA (acc : Acc) : T → Option T
  | .node i x l s [] => if acc i x then some (.node i x l s []) else none
  | .node i x l s (c :: cs) =>
    match restrictAL acc (c :: cs) with
    | [] => if acc i x then some (.node i x l s []) else none
    | ks => some (.node i x l s ks)
def restrictAL (acc : Acc) : List T → List T
  | [] => []
  | c :: cs => match restrictA acc c with
    | some r => r :: restrictAL acc cs
    | none => restrictAL acc cs
end

/-! ## leaf-removal loop (`filter_leaf_nodes`, `prune_leaves_without_taxa`) -/
def rejected (acc : Acc) (t : T) : Bool := t.isLeaf && !acc t.id t.taxon

mutual
/-- ids of the current leaves the filter rejects, in `leaf_node_iter` order -/
def rejLeaves (acc : Acc) : T → List Nat
  | .node i x _ _ [] => if acc i x then [] else [i]
  | .node _ _ _ _ (c :: cs) => rejLeavesL acc (c :: cs)
def rejLeavesL (acc : Acc) : List T → List Nat
  | [] => []
  | c :: cs => rejLeaves acc c ++ rejLeavesL acc cs
end

mutual
/-- one pass: every *current* leaf below the root that the filter rejects is removed from its parent
    (a node that becomes childless in this pass is looked at in the next pass only) -/
def dropPass (acc : Acc) : T → T
  | .node i x l s cs => .node i x l s (dropPassL acc cs)
def dropPassL (acc : Acc) : List T → List T
  | [] => []
  | c :: cs => if rejected acc c then dropPassL acc cs else dropPass acc c :: dropPassL acc cs
end

/-- the `while True` loop.  `none`: the seed itself is a rejected leaf (`SeedNodeDeletionException` in
    `filter_leaf_nodes`, an `AttributeError` on `tail_node` in `prune_leaves_without_taxa`).
    Fuel `t.size` suffices (theorem `dropLoop_fuel`): every continuing pass removes a node. -/
def dropLoop (acc : Acc) (recursive : Bool) : Nat → T → List Nat → Option (T × List Nat)
  | 0, t, rem => some (t, rem)
  | f + 1, t, rem =>
    let bad := rejLeaves acc t
    if bad.isEmpty then some (t, rem)
    else if t.isLeaf then none
    else if recursive then dropLoop acc recursive f (dropPass acc t) (rem ++ bad)
    else some (dropPass acc t, rem ++ bad)

def supIf (sup : Bool) (t : T) : T := if sup then t.sup else t

/-- `Tree.filter_leaf_nodes(filter_fn, recursive, suppress_unifurcations)`: (tree, ids of the nodes returned as removed) -/
def filterLeaves (acc : Acc) (recursive sup : Bool) (t : T) : Option (T × List Nat) :=
  (dropLoop acc recursive t.size t []).map (fun r => (supIf sup r.1, r.2))

def hasTaxon : Acc := fun _ x => x.isSome

/-- `Tree.prune_leaves_without_taxa(recursive, suppress_unifurcations)` -/
def pruneLeavesWithoutTaxa (recursive sup : Bool) (t : T) : Option (T × List Nat) :=
  filterLeaves hasTaxon recursive sup t

/-! ## `prune_taxa` -/
def inP (P : Nat → Bool) : Option Nat → Bool
  | some k => P k
  | none => false

mutual
/-- the post-order pass of `prune_taxa`: a node is visited after its children; it is removed when it carries a taxon in
    `P` and the flag for its *current* kind (leaf / internal, after its children were processed) is on. `none` = removed. -/
def strike (P : Nat → Bool) (fl fi : Bool) : T → Option T
  | .node i x l s cs =>
    let cs' := strikeL P fl fi cs
    if (if cs'.isEmpty then fl else fi) && inP P x then none else some (.node i x l s cs')
def strikeL (P : Nat → Bool) (fl fi : Bool) : List T → List T
  | [] => []
  | c :: cs => match strike P fl fi c with
    | some r => r :: strikeL P fl fi cs
    | none => strikeL P fl fi cs
end

/-- `Tree.prune_taxa(taxa, suppress_unifurcations, is_apply_filter_to_leaf_nodes, is_apply_filter_to_internal_nodes)`;
    `none` = the seed would have to be removed (the code raises) -/
def pruneTaxa (P : Nat → Bool) (fl fi sup : Bool) (t : T) : Option T :=
  match strike P fl fi t with
  | none => none
  | some t1 => (pruneLeavesWithoutTaxa true sup t1).map (·.1)

/-- `Tree.retain_taxa(taxa)`: prune the namespace members that are not listed -/
def retainTaxa (ns : List Nat) (K : Nat → Bool) (sup : Bool) (t : T) : Option T :=
  pruneTaxa (fun k => ns.contains k && !K k) true false sup t

/-! ## `prune_subtree` -/
mutual
/-- detach the subtree rooted at the non-seed node `id`; an ancestor left without children goes with it -/
def cut (id : Nat) : T → T
  | .node i x l s cs => .node i x l s (cutL id cs)
def cutL (id : Nat) : List T → List T
  | [] => []
  | c :: cs =>
    if c.id == id then cs
    else
      let c' := cut id c
      if c'.cs.isEmpty && !c.cs.isEmpty then cutL id cs else c' :: cutL id cs
end

def pruneSubtree (id : Nat) (sup : Bool) (t : T) : T := supIf sup (cut id t)

/-! ## specification of extraction with both filter flags -/
mutual
/-- `extract_tree` by its docstring, for any setting of `is_apply_filter_to_leaf_nodes` (`fl`) and
    `is_apply_filter_to_internal_nodes` (`fi`): a node to which the filter applies and which it rejects is excluded together
    with everything below it; an internal node none of whose children made it is excluded; a node left with one child is
    merged into it when `sup`.  `none`: nothing of the tree is left. -/
def exSpec (acc : Acc) (fl fi sup : Bool) : T → Option T
  | .node i x l s [] => if fl && !acc i x then none else some (.node i x l s [])
  | .node i x l s (c :: cs) =>
    if fi && !acc i x then none else
    match exSpecL acc fl fi sup (c :: cs) with
    | [] => none
    | [k] => if sup then some (k.withLen (addLen k.len l)) else some (.node i x l s [k])
    | ks => some (.node i x l s ks)
def exSpecL (acc : Acc) (fl fi sup : Bool) : List T → List T
  | [] => []
  | c :: cs => match exSpec acc fl fi sup c with
    | some r => r :: exSpecL acc fl fi sup cs
    | none => exSpecL acc fl fi sup cs
end

/-! ## `Node.extract_subtree` / `Tree.extract_tree` -/
mutual
/-- the sequence `postorder_iter` yields -/
def post : T → List T
  | .node i x l s cs => postL cs ++ [.node i x l s cs]
def postL : List T → List T
  | [] => []
  | c :: cs => post c ++ postL cs
end

structure ExSt where
  /-- source node id ↦ clone standing for it (most recent first) -/
  memo : List (Nat × T) := []
  start : Option T := none
  seedDeleted : Bool := false

/-- clones of the children that made it into the memo, in child order -/
def kidsOf (memo : List (Nat × T)) : List T → List T
  | [] => []
  | c :: cs => match memo.lookup c.id with
    | some k => k :: kidsOf memo cs
    | none => kidsOf memo cs

/-- body of the `for nd0 in self.postorder_iter()` loop, called on the seed node (`rootId`).
    A clone carries the id of its source node: that is the `extraction_source` reference.
    The `break` and the `raise` both happen at the seed only, which is the last node of the sequence. -/
def exStep (acc : Acc) (fl fi sup : Bool) (rootId : Nat) (st : ExSt) : T → ExSt
  | .node i x l s cs =>
    if (if cs.isEmpty then fl else fi) && !acc i x then st
    else
      let kids := kidsOf st.memo cs
      if kids.isEmpty && !cs.isEmpty then
        if i == rootId then { st with seedDeleted := true } else st
      else match kids, sup with
        | [k], true =>
          let k' := k.withLen (addLen k.len l)
          if i == rootId then { st with start := some k' } else { st with memo := (i, k') :: st.memo }
        | _, _ =>
          let nd1 := T.node i x l s kids
          { st with memo := (i, nd1) :: st.memo, start := if i == rootId then some nd1 else st.start }

inductive ExRes where
  | ok (t : T)
  | seedDeletion
  | valueError

def extractTree (acc : Acc) (fl fi sup : Bool) (t : T) : ExRes :=
  let st := (post t).foldl (exStep acc fl fi sup t.id) {}
  if st.seedDeleted then .seedDeletion
  else match st.start with
    | some r => .ok r
    | none => .valueError

def ExRes.toOption : ExRes → Option T
  | .ok t => some t
  | _ => none

/-- `Node.extract_subtree` called on an arbitrary node `startId` of the tree (not only the seed).  A start node that has a
    parent never raises `SeedNodeDeletionException`; when nothing of it is left the call ends in `ValueError`.  A start node
    left with a single cloned child is merged into that child like any other node (the clone returned is that child, with the
    start node's edge length added) -/
def extractNode (acc : Acc) (fl fi sup : Bool) (t : T) (startId : Nat) : ExRes :=
  if startId == t.id then extractTree acc fl fi sup t else
  match t.find? startId with
  | none => .valueError
  | some sub =>
    match extractTree acc fl fi sup sub with
    | .ok r => .ok r
    | _ => .valueError

/-- the filter the four `extract_tree_with(out)_taxa(_labels)` wrappers build: taxon-less nodes pass -/
def taxonFilter (K : Nat → Bool) : Acc := fun _ x => match x with
  | none => true
  | some k => K k

/-- the induced-subtree predicate: a leaf survives iff it carries a taxon in `K` -/
def keepTaxa (K : Nat → Bool) : Acc := fun _ x => match x with
  | none => false
  | some k => K k

/-! ## an independent description of the `strike` pass (any tree, taxa on internal nodes included) -/
mutual
/-- every node at or below this one carries a taxon in `P` -/
def allIn (P : Nat → Bool) : T → Bool
  | .node _ x _ _ cs => inP P x && allInL P cs
def allInL (P : Nat → Bool) : List T → Bool
  | [] => true
  | c :: cs => allIn P c && allInL P cs
end

mutual
/-- remove every node that carries a taxon in `P`, with everything below it -/
def chop (P : Nat → Bool) : T → Option T
  | .node i x l s cs => if inP P x then none else some (.node i x l s (chopL P cs))
def chopL (P : Nat → Bool) : List T → List T
  | [] => []
  | c :: cs => match chop P c with
    | some r => r :: chopL P cs
    | none => chopL P cs
end

mutual
/-- default flags of `prune_taxa` (leaf flag on, internal flag off): a node goes exactly when ALL of its subtree, itself
    included, carries pruned taxa; decided top-down -/
def sweep (P : Nat → Bool) : T → Option T
  | .node i x l s cs => if inP P x && allInL P cs then none else some (.node i x l s (sweepL P cs))
def sweepL (P : Nat → Bool) : List T → List T
  | [] => []
  | c :: cs => match sweep P c with
    | some r => r :: sweepL P cs
    | none => sweepL P cs
end

mutual
/-- leaf flag off, internal flag on, decided without running the pass: a node goes exactly when it carries a pruned taxon AND at
    least one of its children stays (a node all of whose children go has become a leaf, and leaves are not filtered); an alternating
    recursion from the leaves up — leaves never go -/
def goneFI (P : Nat → Bool) : T → Bool
  | .node _ x _ _ cs => inP P x && someStaysFI P cs
def someStaysFI (P : Nat → Bool) : List T → Bool
  | [] => false
  | c :: cs => !goneFI P c || someStaysFI P cs
end

mutual
/-- remove, top-down, every node that `goneFI` condemns, with everything below it -/
def dropFI (P : Nat → Bool) : T → T
  | .node i x l s cs => .node i x l s (dropFIL P cs)
def dropFIL (P : Nat → Bool) : List T → List T
  | [] => []
  | c :: cs => if goneFI P c then dropFIL P cs else dropFI P c :: dropFIL P cs
end

/-- the specification of the first pass of `prune_taxa`, all four flag settings -/
def strikeSpec (P : Nat → Bool) (fl fi : Bool) (t : T) : Option (Option T) :=
  match fl, fi with
  | true, true => some (chop P t)
  | true, false => some (sweep P t)
  | false, false => some (some t)
  | false, true => some (if goneFI P t then none else some (dropFI P t))

/-! ## the by-label entry points: label → taxa resolution through the namespace -/
/-- a namespace as the by-label entry points see it: its members in namespace order, each with accession bit and label -/
abbrev Ns := List (Nat × String)

/-- `str.lower()` as far as the model knows it: code point by code point through the table REGENERATED from the source's choice of
    fold method and the running interpreter (`Gen/C08Kernels.lean`, code points 0..255 = ASCII + Latin-1; identity above, where the
    model does not claim anything: see `inFoldRange`) -/
def foldStr (s : String) : String := String.ofList (s.toList.flatMap (fun c => (C08Kernels.foldCp c.toNat).map Char.ofNat))
/-- the model's case folding is only claimed for labels made of code points below `foldLimit`; the driver answers `out-of-range`
    for a case-insensitive lookup with any other label instead of guessing -/
def inFoldRange (s : String) : Bool := s.toList.all (fun c => c.toNat < C08Kernels.foldLimit)
/-- the namespace's case rule: labels are compared as they are when it is case-sensitive, folded (both the given and the stored
    label, by the same method) otherwise -/
def foldCase (cs : Bool) (s : String) : String := if cs then s else foldStr s
def labelMatch (cs : Bool) (own given : String) : Bool := foldCase cs given == foldCase cs own

/-- `TaxonNamespace._lookup_label(label)` without `first_match_only`: every member whose label matches, in namespace order -/
def lookupLabel (cs : Bool) (ns : Ns) (g : String) : List Nat :=
  (ns.filter (fun m => labelMatch cs m.2 g)).map (·.1)

/-- the inner loop of `get_taxa`: `for t in tt: if t not in taxa: taxa.append(t)` -/
def addNew (acc : List Nat) (l : List Nat) : List Nat := l.foldl (fun a t => if a.contains t then a else a ++ [t]) acc

/-- `TaxonNamespace.get_taxa(labels)`: for each given label in turn, all matching members not collected yet -/
def getTaxa (cs : Bool) (ns : Ns) (labels : List String) : List Nat :=
  labels.foldl (fun acc g => addNew acc (lookupLabel cs ns g)) []

/-- `Tree.prune_taxa_with_labels(labels)` = `prune_taxa(get_taxa(labels))` -/
def pruneWithLabels (cs : Bool) (ns : Ns) (labels : List String) (sup : Bool) (t : T) : Option T :=
  pruneTaxa (fun k => (getTaxa cs ns labels).contains k) true false sup t
/-- `Tree.retain_taxa_with_labels(labels)` = `retain_taxa(get_taxa(labels))` -/
def retainWithLabels (cs : Bool) (ns : Ns) (labels : List String) (sup : Bool) (t : T) : Option T :=
  retainTaxa (ns.map (·.1)) (fun k => (getTaxa cs ns labels).contains k) sup t
/-- `Tree.extract_tree_with_taxa_labels(labels)`: filter "taxon-less or taxon in get_taxa(labels)" -/
def extractWithLabels (cs : Bool) (ns : Ns) (labels : List String) (sup : Bool) (t : T) : ExRes :=
  extractTree (taxonFilter (fun k => (getTaxa cs ns labels).contains k)) true false sup t
/-- `Tree.extract_tree_without_taxa_labels(labels)`: filter "taxon-less or taxon not in get_taxa(labels)" -/
def extractWithoutLabels (cs : Bool) (ns : Ns) (labels : List String) (sup : Bool) (t : T) : ExRes :=
  extractTree (taxonFilter (fun k => !(getTaxa cs ns labels).contains k)) true false sup t

/-- the taxon (bit) carries a label that one of the given labels names, under the namespace's case rule -/
def named (cs : Bool) (ns : Ns) (labels : List String) (k : Nat) : Bool :=
  ns.any (fun m => m.1 == k && labels.any (fun g => labelMatch cs m.2 g))

/-! ## measurement functions the clause theorems are stated with (the driver runs them: op `measure`) -/
mutual
def ids : T → List Nat
  | .node i _ _ _ cs => i :: idsL cs
def idsL : List T → List Nat
  | [] => []
  | c :: cs => ids c ++ idsL cs
end

mutual
/-- node records in pre-order: (id, taxon, length, label) -/
def heads : T → List (Nat × Option Nat × Option Frac × Option String)
  | .node i x l s cs => (i, x, l, s) :: headsL cs
def headsL : List T → List (Nat × Option Nat × Option Frac × Option String)
  | [] => []
  | c :: cs => heads c ++ headsL cs
end

mutual
def NoUnary : T → Prop
  | .node _ _ _ _ cs => cs.length ≠ 1 ∧ NoUnaryL cs
def NoUnaryL : List T → Prop
  | [] => True
  | c :: cs => NoUnary c ∧ NoUnaryL cs
end

mutual
/-- the lengths on the path from the first kept leaf up to (and including) this node's own edge, accumulated the way
    suppression does it (`child.length += parent.length`, `addLen`) -/
def pathAcc (keep : Acc) : T → Option (Option Frac)
  | .node i x l _ [] => if keep i x then some l else none
  | .node _ _ l _ (c :: cs) => (pathAccL keep (c :: cs)).map (fun a => addLen a l)
def pathAccL (keep : Acc) : List T → Option (Option Frac)
  | [] => none
  | c :: cs => match pathAcc keep c with
    | some a => some a
    | none => pathAccL keep cs
end

/-- what every driver op parses its tree with: `parseTree`, and additionally the tree must not name a node id twice
    (node identity in the code).  A line that fails the guard is answered `bad-op`. -/
def checkedTree (toks : List String) : Option (T × List String) :=
  match parseTree toks with
  | some (t, rest) => if (ids t).Nodup then some (t, rest) else none
  | none => none

/-- the record of a node -/
def head (t : T) : Nat × Option Nat × Option Frac × Option String := (t.id, t.taxon, t.len, t.label)

mutual
/-- some leaf at or below the node is kept -/
def alive (keep : Acc) : T → Bool
  | .node i x _ _ [] => keep i x
  | .node _ _ _ _ (c :: cs) => aliveL keep (c :: cs)
def aliveL (keep : Acc) : List T → Bool
  | [] => false
  | c :: cs => alive keep c || aliveL keep cs
end

mutual
/-- parent/child pairs in pre-order: (parent id, child subtree) -/
def pedges : T → List (Nat × T)
  | .node i _ _ _ cs => pedgesL i cs
def pedgesL (p : Nat) : List T → List (Nat × T)
  | [] => []
  | c :: cs => (p, c) :: (pedges c ++ pedgesL p cs)
end

mutual
/-- executable path length (exact fractions, `none` = no length) from node `t`, its own edge excluded, to the first `p`-leaf -/
def reachF (p : Acc) : T → Option (Option Frac)
  | .node i x _ _ [] => if p i x then some none else none
  | .node _ _ _ _ (c :: cs) => reachFL p (c :: cs)
def reachFL (p : Acc) : List T → Option (Option Frac)
  | [] => none
  | c :: cs => match reachF p c with
    | some d => some (addLen d c.len)
    | none => reachFL p cs
end

mutual
/-- executable path length between the first `p`-leaf and the first `q`-leaf (in different child subtrees of their junction) -/
def distF (p q : Acc) : T → Option (Option Frac)
  | .node _ _ _ _ cs => distFL p q cs
def distFL (p q : Acc) : List T → Option (Option Frac)
  | [] => none
  | c :: cs => match reachF p c, reachF q c with
    | some _, some _ => distF p q c
    | some x, none => (reachFL q cs).map (fun y => addLen (addLen x c.len) y)
    | none, some y => (reachFL p cs).map (fun x => addLen x (addLen y c.len))
    | none, none => distFL p q cs
end

/-- leaf-to-leaf path lengths for all pairs of leaves (by node id), in leaf order -/
def allDists (t : T) : List (Nat × Nat × Option Frac) :=
  let ls := t.leaves.map T.id
  ls.flatMap (fun a => (ls.filter (fun b => a < b)).filterMap (fun b =>
    (distF (fun i _ => i == a) (fun i _ => i == b) t).map (fun d => (a, b, d))))

end DendroModel.C08
