import DendroModel.Basic.Tree
import DendroModel.Gen.Tables
/-! C02 — executable model of the Newick / NEXUS label and tree-statement machinery (Mathlib-free).

* `escape`        : `nexusprocessing.escape_nexus_token`
* `next`          : one call of `tokenizer.Tokenizer.__next__` as configured by `NexusTokenizer`
                    (tables come from `Gen/Tables.lean`, regenerated from the source every run)
* `tokenize`      : the token stream a reader sees by calling `next` repeatedly
* `nodeTag`, `wrNode`, `writeTree` : `NewickWriter._render_node_tag`, the three `apply` callbacks, `_write_tree`
* `parseNode` / `parseChildren` / `parseTail` : `NewickReader._parse_tree_node_description`
* `assign`, `lookup` : label → node label / taxon (`NexusTaxonSymbolMapper.lookup_taxon_symbol`)
* `parseStmts`    : `NewickReader._parse_tree_statement` driven by `tree_iter`
* `rootingOf`     : `_process_tree_comments` + `_parse_tree_rooting_state`
* `treesBlockText`, `translateText`, `defaultTable`, `nexusBlock` (+ `nexusTranslate`, `nexusTreeStmts`, `nexusBlockLoop`) :
                    `NexusWriter._write_trees_block` / `_set_and_write_translate_block`, `NexusReader._parse_trees_block`
* `taxaBlockText`, `nexusDocText`, `nexusDoc` (+ `nexusDimensions`, `nexusTaxlabels`, `nexusTaxaLoop`, `nexusDocLoop`) :
                    `NexusWriter._write` / `_write_taxa_block`, `NexusReader._parse_nexus_stream` / `_parse_taxa_block` /
                    `_parse_dimensions_statement` / `_parse_taxlabels_statement` (the namespace's MEMBER order)
  NeXML (element structure) is in `Model/C02Nexml.lean`.

Where the unrepaired code contradicts the property the model follows the property: a quoted token is
always a label (`kind`), never punctuation. -/
namespace DendroModel.C02
open DendroModel.Tables

abbrev Str := List Char

def isUncap (c : Char) : Bool := tokUncaptured.contains c
def isCap (c : Char) : Bool := tokCaptured.contains c
def isQuote (c : Char) : Bool := tokQuote.contains c
def isCB (c : Char) : Bool := tokCommentBegin.contains c
def isCE (c : Char) : Bool := tokCommentEnd.contains c

/-! ### escape_nexus_token -/

def dbl (l : Str) : Str := l.flatMap (fun c => if c == '\'' then ['\'', '\''] else [c])

def spaceToUnderscore (c : Char) : Char := if c == ' ' || c == '\t' then '_' else c

def hasProt (protect : List Char) (l : Str) : Bool := l.any (fun c => protect.contains c)

/-- `escape_nexus_token(label, preserve_spaces=ps, quote_underscores=qu, protect_regex=[protect])` -/
def escape (ps qu : Bool) (protect : List Char) (l : Str) : Str :=
  if !ps && !l.contains '_' && !hasProt protect l then l.map spaceToUnderscore
  else if hasProt protect l || l.contains ' ' || (qu && l.contains '_') then '\'' :: (dbl l ++ ['\''])
  else l

/-! ### the tokenizer -/

/-- quoted token body; positioned just after the opening quote `q`. `none` = unterminated quote -/
def readQuoted (q : Char) : Str → Str → Option (Str × Str)
  | [], _ => none
  | c :: cs, acc =>
    if c == q then
      match cs with
      | c2 :: cs2 => if c2 == q then readQuoted q cs2 (acc ++ [q]) else some (acc, cs)
      | [] => some (acc, [])
    else readQuoted q cs (acc ++ [c])

/-- `_handle_comment` after its first step (the opening bracket already counted, nesting = `n`);
    returns (captured text, rest) -/
def readComment : Str → Nat → Str → Str × Str
  | [], _, acc => (acc, [])
  | c :: cs, n, acc =>
    if isCE c then (if n ≤ 1 then (acc, cs) else readComment cs (n - 1) acc)
    else if isCB c then readComment cs (n + 1) acc
    else readComment cs n (acc ++ [c])

theorem readComment_len : ∀ (l : Str) (n : Nat) (acc : Str), (readComment l n acc).2.length ≤ l.length
  | [], _, _ => by simp [readComment]
  | c :: cs, n, acc => by
    simp only [readComment]
    split
    · split
      · simp
      · have := readComment_len cs (n - 1) acc; simp; omega
    · split
      · have := readComment_len cs (n + 1) acc; simp; omega
      · have := readComment_len cs n (acc ++ [c]); simp; omega

def conv (pu : Bool) (c : Char) : Char := if c == '_' && !pu then ' ' else c

/-- the unquoted-token loop: (token, comments captured so far, rest) -/
def readPlain (pu : Bool) : Str → Str → List Str → Str × List Str × Str
  | [], acc, cm => (acc, cm, [])
  | c :: cs, acc, cm =>
    if isUncap c then (acc, cm, cs)
    else if isCap c then (acc, cm, c :: cs)
    else if isCB c then
      readPlain pu (readComment cs 1 []).2 acc (cm ++ [(readComment cs 1 []).1])
    else
      readPlain pu cs (acc ++ [conv pu c]) cm
termination_by l => l.length
decreasing_by
  · have := readComment_len cs 1 []
    simp; omega
  · simp

def skipWs : Str → Str
  | [] => []
  | c :: cs => if isUncap c then skipWs cs else c :: cs

inductive Res where
  | eof
  | err
  | fuel
  | tok (text : Str) (quoted : Bool) (cm : List Str) (rest : Str)

/-- one call of `Tokenizer.__next__` (the recursion on an empty token consumes fuel) -/
def next (pu : Bool) : Nat → Str → List Str → Res
  | 0, _, _ => .fuel
  | f + 1, inp, cm0 =>
    match skipWs inp with
    | [] => .eof
    | c :: cs =>
      if isCap c then .tok [c] false cm0 cs
      else if isQuote c then
        match readQuoted c cs [] with
        | none => .err
        | some (t, rest) => .tok t true cm0 rest
      else
        match readPlain pu (c :: cs) [] cm0 with
        | (t, cm, rest) =>
          if t.isEmpty then (if rest.isEmpty then .eof else next pu f rest cm) else .tok t false cm rest

def nextTok (pu : Bool) (inp : Str) : Res := next pu (inp.length + 1) inp []

structure TokE where
  text : Str
  quoted : Bool
  cm : List Str

structure Toks where
  toks : List TokE
  ok : Bool       -- no tokenizer error (unterminated quote)
  atEof : Bool    -- the last token ended exactly at the end of the input (`is_eof()` right after it)

/-- the whole token stream (fuel: one unit per token) -/
def tokenize (pu : Bool) : Nat → Str → Toks
  | 0, _ => ⟨[], false, false⟩
  | f + 1, inp =>
    match nextTok pu inp with
    | .eof => ⟨[], true, inp.isEmpty⟩
    | .err => ⟨[], false, false⟩
    | .fuel => ⟨[], false, false⟩
    | .tok t q cm rest =>
      let r := tokenize pu f rest
      ⟨⟨t, q, cm⟩ :: r.toks, r.ok, r.atEof⟩

def tokenizeAll (pu : Bool) (inp : Str) : Toks := tokenize pu (inp.length + 1) inp

/-! ### token kinds as the tree-statement parser sees them -/

inductive Tok where
  | lp | rp | comma | colon | semi
  | word (s : Str)
deriving DecidableEq, Repr

/-- a quoted token is a label whatever its text -/
def kind (t : TokE) : Tok :=
  if t.quoted then .word t.text
  else if t.text == ['('] then .lp
  else if t.text == [')'] then .rp
  else if t.text == [','] then .comma
  else if t.text == [':'] then .colon
  else if t.text == [';'] then .semi
  else .word t.text

/-! ### the writer -/

/-- model tree of C02: taxon label, node label, edge-length text (`repr`), children -/
inductive NT where
  | node (taxon : Option Str) (label : Option Str) (len : Option Str) (cs : List NT)
deriving Inhabited

structure WOpts where
  sltl : Bool := false   -- suppress_leaf_taxon_labels
  slnl : Bool := true    -- suppress_leaf_node_labels
  sitl : Bool := false   -- suppress_internal_taxon_labels
  sinl : Bool := false   -- suppress_internal_node_labels
  srt : Bool := false    -- suppress_rooting
  sel : Bool := false    -- suppress_edge_lengths
  uu : Bool := false     -- unquoted_underscores
  ps : Bool := false     -- preserve_spaces
  stw : Bool := false    -- store_tree_weights

def joinSp : List Str → Str
  | [] => []
  | [a] => a
  | a :: b :: r => a ++ ' ' :: joinSp (b :: r)

/-- the unescaped tag `_render_node_tag` composes (empty = no tag) -/
def rawTag (o : WOpts) (leaf : Bool) (tx lb : Option Str) : Str :=
  let p1 := match tx with
    | some t => if (if leaf then o.sltl else o.sitl) then [] else [t]
    | none => []
  let p2 := match lb with
    | some l => if l.isEmpty || (if leaf then o.slnl else o.sinl) then [] else [l]
    | none => []
  joinSp (p1 ++ p2)

/-- what the writer emits, one item per `out.write` -/
inductive WTok where
  | lp | rp | comma
  | tag (s : Str)     -- unescaped tag, non-empty
  | len (s : Str)
deriving Repr

def body (o : WOpts) (leaf : Bool) (tx lb ln : Option Str) : List WTok :=
  (if (rawTag o leaf tx lb).isEmpty then [] else [.tag (rawTag o leaf tx lb)]) ++
  (match ln with
   | some l => if o.sel then [] else [.len l]
   | none => [])

mutual
/-- the `apply` callbacks: `_write_node_open` / `_write_leaf` / `_write_node_close`;
    `first` = the node has no parent or is its parent's first child -/
def wrNode (o : WOpts) (first : Bool) : NT → List WTok
  | .node tx lb ln [] => (if first then [] else [.comma]) ++ body o true tx lb ln
  | .node tx lb ln (c :: cs) =>
    (if first then [.lp] else [.comma, .lp]) ++ wrKids o true (c :: cs) ++ [.rp] ++ body o false tx lb ln
def wrKids (o : WOpts) (first : Bool) : List NT → List WTok
  | [] => []
  | c :: cs => wrNode o first c ++ wrKids o false cs
end

def renderTok (o : WOpts) : WTok → Str
  | .lp => ['(']
  | .rp => [')']
  | .comma => [',']
  | .tag s => escape o.ps (!o.uu) protectNewick s
  | .len s => ':' :: s

def render (o : WOpts) : List WTok → Str
  | [] => []
  | t :: ts => renderTok o t ++ render o ts

/-- rooting: 0 undefined, 1 unrooted, 2 rooted -/
def rootingComment (o : WOpts) (rooting : Nat) : Str :=
  if rooting == 0 || o.srt then [] else if rooting == 2 then "[&R] ".toList else "[&U] ".toList

def weightComment (o : WOpts) (weight : Option Str) : Str :=
  match weight with
  | some w => if o.stw then "[&W ".toList ++ w ++ "] ".toList else []
  | none => []

/-- `NewickWriter._write_tree` -/
def writeTree (o : WOpts) (rooting : Nat) (weight : Option Str) (t : NT) : Str :=
  rootingComment o rooting ++ weightComment o weight ++ render o (wrNode o true t) ++ [';']

/-! ### the tree-statement parser (token level) -/

/-- raw parse tree: label token, length token, children -/
inductive RT where
  | node (label : Option Str) (len : Option Str) (cs : List RT)
deriving Inhabited

def blank : RT := .node none none []

/-- label / length loop at the end of `_parse_tree_node_description`; Bool = statement complete.
    A node may carry several `:length` parts: the reader converts each (so each must be a number) and keeps the
    last; the model keeps them all, NUL-separated, and the harness applies `float` to each. -/
def parseTail (cs : List RT) : Option Str → Option Str → List Tok → Option (RT × List Tok × Bool)
  | l, none, .colon :: .word w :: rest => parseTail cs l (some w) rest
  | l, some old, .colon :: .word w :: rest => parseTail cs l (some (old ++ '\x00' :: w)) rest  -- every length token is converted; the last one wins
  | _, _, .colon :: _ => none
  | l, e, .rp :: rest => some (.node l e cs, .rp :: rest, false)
  | l, e, .comma :: rest => some (.node l e cs, .comma :: rest, false)
  | l, e, .semi :: rest => some (.node l e cs, rest, true)
  | _, _, .lp :: _ => none
  | none, e, .word w :: rest => parseTail cs (some w) e rest
  | some _, _, .word _ :: _ => none
  | _, _, [] => none

def eatCommas : List Tok → List RT → List RT × List Tok
  | .comma :: rest, acc => eatCommas rest (acc ++ [blank])
  | toks, acc => (acc, toks)

mutual
def parseNode : Nat → List Tok → Option (RT × List Tok × Bool)
  | 0, _ => none
  | f + 1, .lp :: rest =>
    match parseChildren f rest [] false 0 with
    | none => none
    | some (cs, rest') => parseTail cs none none rest'
  | _ + 1, toks => parseTail [] none none toks
def parseChildren : Nat → List Tok → List RT → Bool → Nat → Option (List RT × List Tok)
  | 0, _, _, _, _ => none
  | f + 1, .comma :: rest, acc, created, count =>
    let acc1 := if created then acc else acc ++ [blank]
    let (acc2, rest2) := eatCommas rest acc1
    match rest2 with
    | .rp :: _ => parseChildren f rest2 (acc2 ++ [blank]) true (count + 1)   -- `(…,)`: trailing blank node
    | _ => parseChildren f rest2 acc2 created (count + 1)
  | _ + 1, .rp :: rest, acc, _, count => some (if count = 0 then acc ++ [blank] else acc, rest)
  | f + 1, toks, acc, _, count =>
    match parseNode f toks with
    | none => none
    | some (_, _, true) => none          -- ';' inside parentheses: nesting level ≠ 0
    | some (c, rest', false) => parseChildren f rest' (acc ++ [c]) true (count + 1)
end

/-! ### labels → node labels / taxa -/

structure Mapper where
  tokmap : List (Str × Str) := []   -- TRANSLATE token ↦ taxon label
  ns : List Str := []               -- namespace labels in order
  numbers : Bool := false           -- enable_lookup_by_taxon_number

/-- case folding of labels: the character map `cf` stands for Python's `str.lower` (a parameter: the theorems hold for
    every `cf`; the driver is handed, per call, the values of `str.lower` on the characters that occur) -/
def lowerWith (cf : Char → Char) (s : Str) : Str := s.map cf

def findNumber (w : Str) : List Str → Nat → Option Str
  | [], _ => none
  | l :: ls, i => if w == (toString (i + 1)).toList then some l else findNumber w ls (i + 1)

/-- `lookup_taxon_symbol`: TRANSLATE token, then label, then taxon number, else a new taxon -/
def lookup (cf : Char → Char) (m : Mapper) (w : Str) : Mapper × Str :=
  match m.tokmap.find? (fun p => lowerWith cf p.1 == lowerWith cf w) with
  | some p => (m, p.2)
  | none =>
    match m.ns.find? (fun l => lowerWith cf l == lowerWith cf w) with
    | some l => (m, l)
    | none =>
      match (if m.numbers then findNumber w m.ns 0 else none) with
      | some l => (m, l)
      | none => ({ m with ns := m.ns ++ [w] }, w)

structure ROpts where
  pu : Bool := false       -- preserve_underscores
  rooting : Nat := 0       -- 0 None, 1 force-unrooted, 2 force-rooted, 3 default-unrooted, 4 default-rooted
  sint : Bool := true      -- suppress_internal_node_taxa
  sleaf : Bool := false    -- suppress_leaf_node_taxa
  stw : Bool := false      -- store_tree_weights
  cf : Char → Char := Char.toLower   -- case folding used by the symbol mapper (see `lowerWith`)

structure AS where
  m : Mapper
  seen : List Str

mutual
/-- the label handling of `_parse_tree_node_description`, in the order the reader meets labels
    (children first, left to right). `none` = duplicate taxon in one tree -/
def assign (o : ROpts) : RT → AS → Option (NT × AS)
  | .node l e cs, s =>
    match assignL o cs s with
    | none => none
    | some (cs', s1) =>
      match l with
      | none => some (.node none none e cs', s1)
      | some w =>
        if (if cs.isEmpty then o.sleaf else o.sint) then some (.node none (some w) e cs', s1)
        else
          match lookup o.cf s1.m w with
          | (m', tx) =>
            if s1.seen.contains tx then none
            else some (.node (some tx) none e cs', ⟨m', tx :: s1.seen⟩)
def assignL (o : ROpts) : List RT → AS → Option (List NT × AS)
  | [], s => some ([], s)
  | c :: cs, s =>
    match assign o c s with
    | none => none
    | some (c', s1) =>
      match assignL o cs s1 with
      | none => none
      | some (cs', s2) => some (c' :: cs', s2)
end

/-! ### rooting and weight comments -/

def isSpace (c : Char) : Bool := c == ' ' || c == '\t' || c == '\n' || c == '\r' || c == '\x0b' || c == '\x0c'
def stripL : Str → Str
  | [] => []
  | c :: cs => if isSpace c then stripL cs else c :: cs
def strip (s : Str) : Str := (stripL (stripL s).reverse).reverse

/-- `_parse_tree_rooting_state`: result 0 None, 1 unrooted, 2 rooted -/
def rootingState (directive : Nat) (comment : Str) : Nat :=
  if directive == 1 then 1
  else if directive == 2 then 2
  else if comment == "&R".toList || comment == "&r".toList then 2
  else if comment == "&U".toList || comment == "&u".toList then 1
  else if directive == 4 then 2
  else if directive == 3 then 1
  else 0

def isRootingComment (s : Str) : Bool :=
  s == "&R".toList || s == "&r".toList || s == "&U".toList || s == "&u".toList

def isWeightComment (s : Str) : Bool :=
  match s with
  | '&' :: w :: ' ' :: _ => w == 'W' || w == 'w'
  | _ => false

/-- `_process_tree_comments`: (rooting, weight expression) -/
def treeComments (o : ROpts) : List Str → Option Nat → Option Str → Nat × Option Str
  | [], r, w => (match r with | some r => r | none => rootingState o.rooting [], w)
  | c :: cs, r, w =>
    if isRootingComment (strip c) then treeComments o cs (some (rootingState o.rooting (strip c))) w
    else if o.stw && isWeightComment (strip c) then treeComments o cs r (some ((strip c).drop 2))
    else treeComments o cs r w

structure PT where
  rooting : Nat
  weight : Option Str
  tree : NT

/-! ### `tree_iter` / `_parse_tree_statement` -/

/-- skip `;` tokens after a statement (`while current_token == ";" and not is_eof(): next_token()`) -/
def skipSemis (atEof : Bool) : List TokE → List TokE
  | [] => []
  | t :: r => if kind t == .semi && !(r.isEmpty && atEof) then skipSemis atEof r else t :: r

def stmtFuel (l : List TokE) : Nat := 6 * l.length + 8

/-- all tree statements of a token stream. `init`: the tokenizer has not been advanced yet.
    `none` = a reader error.  `k`: extra fuel for the statement parser (0 in `parseText`; the driver re-runs with a
    large `k` and reports `FUEL` if that changes the outcome, so that running out of fuel is never mistaken for a
    reader error) -/
def parseStmts (o : ROpts) (atEof : Bool) (k : Nat) : Nat → Bool → List TokE → Mapper → List PT → Option (List PT × Mapper)
  | 0, _, _, _, _ => none
  | f + 1, init, l, m, acc =>
    match l with
    | [] => if init then none else some (acc, m)   -- `require_next_token` on an exhausted stream / end of trees
    | t :: r =>
      if kind t == .semi && !(r.isEmpty && atEof) then
        (if r.isEmpty then none else parseStmts o atEof k f false r m acc)
      else if r.isEmpty && atEof then some (acc, m)  -- `if is_eof(): return None`
      else
        match parseNode (stmtFuel l + k) (l.map kind) with
        | none => none
        | some (_, _, false) => none
        | some (rt, rest, true) =>
          match assign o rt ⟨m, []⟩ with
          | none => none
          | some (nt, s) =>
            let (rooting, weight) := treeComments o t.cm none none
            parseStmts o atEof k f false (skipSemis atEof (l.drop (l.length - rest.length))) s.m
              (acc ++ [⟨rooting, weight, nt⟩])

/-- the reader with `k` units of extra fuel everywhere -/
def parseTextK (k : Nat) (o : ROpts) (m : Mapper) (text : Str) : Option (List PT × Mapper) :=
  let ts := tokenize o.pu (text.length + 1 + k) text
  if !ts.ok then none
  else parseStmts o ts.atEof k (ts.toks.length + 2 + k) true ts.toks m []

/-- `TreeList.get(data=text, schema="newick", …)` into a mapper (fresh namespace for plain Newick) -/
def parseText (o : ROpts) (m : Mapper) (text : Str) : Option (List PT × Mapper) := parseTextK 0 o m text

/-! ### NEXUS: the TAXLABELS list -/

def indent8 : Str := [' ', ' ', ' ', ' ', ' ', ' ', ' ', ' ']

/-- the body of the TAXLABELS command as `NexusWriter._write_taxa_block` writes it: one indented, escaped label per
    line (default protect class), then the terminating `;` -/
def taxlabelsText (ps uu : Bool) : List Str → Str
  | [] => [' ', ' ', ';', '\n']
  | l :: ns => indent8 ++ (escape ps (!uu) protectDefault l ++ '\n' :: taxlabelsText ps uu ns)


/-! ### NEXUS: the TREES block (writer text and reader) -/

/-- one written tree: rooting code, weight text, tree -/
abbrev WT := Nat × Option Str × NT

/-- `    TREE name = <statement>\n` (`NexusWriter._write_trees_block`; the name goes through `escape_nexus_token` with
    the default protect class, the statement is `NewickWriter._write_tree`) -/
def treeLine (o : WOpts) (x : Str × WT) : Str :=
  [' ', ' ', ' ', ' ', 'T', 'R', 'E', 'E', ' '] ++ (escape o.ps (!o.uu) protectDefault x.1 ++
    ([' ', '=', ' '] ++ (writeTree o x.2.1 x.2.2.1 x.2.2.2 ++ ['\n'])))

def treeLines (o : WOpts) : List (Str × WT) → Str
  | [] => []
  | x :: xs => treeLine o x ++ treeLines o xs

def beginTrees : Str := ['B', 'E', 'G', 'I', 'N', ' ', 'T', 'R', 'E', 'E', 'S', ';', '\n']
def endBlock : Str := ['E', 'N', 'D', ';', '\n', '\n']

/-- one entry line of the TRANSLATE statement: 13 blanks, the token as it is, a blank, the escaped label -/
def translateEntry (o : WOpts) (p : Str × Str) : Str :=
  indent8 ++ ([' ', ' ', ' ', ' ', ' '] ++ (p.1 ++ (' ' :: escape o.ps (!o.uu) protectDefault p.2)))

def translateEntries (o : WOpts) : List (Str × Str) → Str
  | [] => []
  | [p] => translateEntry o p ++ ['\n']
  | p :: q :: r => translateEntry o p ++ (',' :: '\n' :: translateEntries o (q :: r))

/-- the TRANSLATE statement (`_set_and_write_translate_block`); nothing for an empty table -/
def translateText (o : WOpts) (tm : List (Str × Str)) : Str :=
  if tm.isEmpty then [] else
  indent8 ++ (['T', 'r', 'a', 'n', 's', 'l', 'a', 't', 'e', '\n'] ++ (translateEntries o tm ++
    (indent8 ++ [' ', ' ', ' ', ' ', ' ', ';', '\n'])))

/-- the default TRANSLATE table (`translate_tree_taxa=True`): one entry per namespace member IN MEMBER ORDER, the token being
    the member's ACCESSION index + 1 (`str(taxon_namespace.accession_index(t)+1)`) — not its position: after `sort()`,
    `reverse()` or a removal the two differ.  `ns`: (label, accession index) in member order -/
def defaultTable (ns : List (Str × Nat)) : List (Str × Str) :=
  ns.map (fun p => ((toString (p.2 + 1)).toList, p.1))

/-- the TREES block of a single-namespace document -/
def treesBlockText (o : WOpts) (tm : List (Str × Str)) (trees : List (Str × WT)) : Str :=
  beginTrees ++ (translateText o tm ++ (treeLines o trees ++ endBlock))

def ucase (s : Str) : Str := s.map Char.toUpper

/-- `skip_to_semicolon`: drop tokens up to and including the first `;` (the code compares the text only) -/
def skipToSemi : List TokE → List TokE
  | [] => []
  | t :: r => if t.text == [';'] then r else skipToSemi r

/-- `_parse_translate_statement`, positioned after `TRANSLATE`: (table, remaining tokens). Each label must resolve in the
    namespace (`require_taxon` on the namespace the TAXA block fixed); the value stored is the namespace member -/
def nexusTranslate (cf : Char → Char) (ns : List Str) : Nat → List TokE → List (Str × Str) → Option (List (Str × Str) × List TokE)
  | 0, _, _ => none
  | f + 1, t :: l :: rest, acc =>
    if t.text == [';'] && !t.quoted then none else
    match ns.find? (fun x => lowerWith cf x == lowerWith cf l.text) with
    | none => none
    | some lab =>
      match rest with
      | [] => some (acc ++ [(t.text, lab)], [])
      | s :: rest' =>
        if s.text == [';'] then some (acc ++ [(t.text, lab)], rest')
        else if s.text == [','] then nexusTranslate cf ns f rest' (acc ++ [(t.text, lab)])
        else none
  | _ + 1, _, _ => none

/-- the Newick statement inside a TREE command (`NewickReader._parse_tree_statement` entered on the first token of the
    statement): (tree, remaining tokens after the statement and any further `;`, mapper) -/
def nexusOneTree (o : ROpts) (atEof : Bool) (l : List TokE) (m : Mapper) : Option (PT × List TokE × Mapper) :=
  match l with
  | [] => none
  | t :: r =>
    if kind t == .semi then none   -- an empty statement: not produced by any writer; refused rather than guessed
    else
      match parseNode (stmtFuel (t :: r)) ((t :: r).map kind) with
      | some (rt, rest, true) =>
        match assign o rt ⟨m, []⟩ with
        | none => none
        | some (nt, s) =>
          let (rooting, weight) := treeComments o t.cm none none
          some (⟨rooting, weight, nt⟩, skipSemis atEof ((t :: r).drop ((t :: r).length - rest.length)), s.m)
      | _ => none

/-- the `TREE` commands of a block, positioned after the first `TREE` keyword (`NexusReader._parse_tree_statement` in
    the `while True` loop of `_parse_trees_block`): named trees, the tokens left, the mapper -/
def nexusTreeStmts (o : ROpts) (atEof : Bool) : Nat → List TokE → Mapper → List (Str × PT) →
    Option (List (Str × PT) × List TokE × Mapper)
  | 0, _, _, _ => none
  | f + 1, l, m, acc =>
    let l' := match l with
      | st :: r => if st.text == ['*'] && !st.quoted then r else l   -- the default-tree marker; a quoted `'*'` is a name
      | [] => l
    match l' with
    | nm :: eq :: rest =>
      if eq.text == ['='] then
        match nexusOneTree o atEof rest m with
        | none => none
        | some (pt, rest', m') =>
          match rest' with
          | [] => some (acc ++ [(nm.text, pt)], [], m')
          | t :: r =>
            if ucase t.text == ['T', 'R', 'E', 'E'] then nexusTreeStmts o atEof f r m' (acc ++ [(nm.text, pt)])
            else some (acc ++ [(nm.text, pt)], t :: r, m')
      else none
    | _ => none

/-- the command loop of `_parse_trees_block`, positioned after `BEGIN TREES;` -/
def nexusBlockLoop (o : ROpts) (atEof : Bool) : Nat → List TokE → Mapper → List (Str × PT) → Option (List (Str × PT) × Mapper)
  | 0, _, _, _ => none
  | f + 1, l, m, acc =>
    match l with
    | [] => some (acc, m)
    | t :: r =>
      let u := ucase t.text
      if u == ['E', 'N', 'D'] || u == ['E', 'N', 'D', 'B', 'L', 'O', 'C', 'K'] then some (acc, m)
      else if u == ['T', 'R', 'A', 'N', 'S', 'L', 'A', 'T', 'E'] then
        match nexusTranslate o.cf m.ns (r.length + 1) r [] with
        | none => none
        | some (tm, r') => nexusBlockLoop o atEof f r' { m with tokmap := tm } acc
      else if u == ['T', 'R', 'E', 'E'] then
        match nexusTreeStmts o atEof (r.length + 1) r m acc with
        | none => none
        | some (acc', r', m') =>
          match r' with
          | [] => some (acc', m')
          | t' :: r'' =>
            -- `token = current_token` (not upper-cased), then the loop condition, then the next token is fetched
            if t'.text == ['E', 'N', 'D'] || t'.text == ['E', 'N', 'D', 'B', 'L', 'O', 'C', 'K'] then some (acc', m')
            else nexusBlockLoop o atEof f r'' m' acc'
      else if u == ['B', 'E', 'G', 'I', 'N'] || u == ['L', 'I', 'N', 'K'] || u == ['T', 'I', 'T', 'L', 'E'] then none
      else nexusBlockLoop o atEof f r m acc

/-- reading a TREES block (text from `BEGIN TREES;` on) over the namespace `ns` the TAXA block declared -/
def nexusBlock (o : ROpts) (ns : List Str) (text : Str) : Option (List (Str × PT) × Mapper) :=
  let ts := tokenizeAll o.pu text
  if !ts.ok then none else
  match ts.toks with
  | b :: tr :: rest =>
    if ucase b.text == ['B', 'E', 'G', 'I', 'N'] && ucase tr.text == ['T', 'R', 'E', 'E', 'S'] then
      nexusBlockLoop o ts.atEof (rest.length + 1) (skipToSemi rest) ⟨[], ns, true⟩ []
    else none
  | _ => none

/-! ### NEXUS: the whole document (`#NEXUS`, TAXA block, TREES block) -/

/-- `NexusWriter._write_taxa_block` for an untitled block (single namespace: no TITLE / LINK lines):
    `BEGIN TAXA;`, `DIMENSIONS NTAX=n;`, `TAXLABELS`, the label list, `END;` -/
def taxaBlockText (ps uu : Bool) (ns : List Str) : Str :=
  ['B', 'E', 'G', 'I', 'N', ' ', 'T', 'A', 'X', 'A', ';', '\n'] ++
  ([' ', ' ', ' ', ' ', 'D', 'I', 'M', 'E', 'N', 'S', 'I', 'O', 'N', 'S', ' ', 'N', 'T', 'A', 'X', '='] ++
  ((toString ns.length).toList ++ ([';', '\n'] ++
  ([' ', ' ', ' ', ' ', 'T', 'A', 'X', 'L', 'A', 'B', 'E', 'L', 'S', '\n'] ++ (taxlabelsText ps uu ns ++ endBlock)))))

/-- `NexusWriter._write` for one tree list over one namespace: the `#NEXUS` line, the TAXA block, the TREES block -/
def nexusDocText (o : WOpts) (ns : List Str) (tm : List (Str × Str)) (trees : List (Str × WT)) : Str :=
  ['#', 'N', 'E', 'X', 'U', 'S', '\n', '\n'] ++ (taxaBlockText o.ps o.uu ns ++ treesBlockText o tm trees)

/-- `str.isdigit` on ASCII text (a non-ASCII digit is refused: `int()` of it is outside the model) -/
def isDigits (s : Str) : Bool := !s.isEmpty && s.all Char.isDigit
/-- `int(token)` for a digit string -/
def natOf (s : Str) : Nat := Nat.ofDigitChars 10 s 0

/-- `_parse_dimensions_statement`, positioned after `DIMENSIONS`: the NTAX value (if given) and the tokens after the `;`.
    (NCHAR is checked like NTAX and ignored.) -/
def nexusDimensions : Nat → List TokE → Option Nat → Option (Option Nat × List TokE)
  | 0, _, _ => none
  | _ + 1, [], _ => none
  | f + 1, t :: r, ntax =>
    let u := ucase t.text
    if u == [';'] then some (ntax, r)
    else if u == ['N', 'T', 'A', 'X'] || u == ['N', 'C', 'H', 'A', 'R'] then
      match r with
      | e :: v :: r' =>
        if e.text == ['='] then
          (if isDigits (ucase v.text) then
            nexusDimensions f r' (if u == ['N', 'T', 'A', 'X'] then some (natOf v.text) else ntax)
           else none)
        else none
      | _ => none
    else if u == ['B', 'E', 'G', 'I', 'N'] then none
    else nexusDimensions f r ntax

/-- the "too many taxa" check: the file specified NTAX, the namespace already holds that many, no caller's namespace -/
def ntaxFull (ntax : Option Nat) (attached : Bool) (k : Nat) : Bool :=
  match ntax with
  | some n => decide (n ≤ k) && !attached
  | none => false

/-- `_parse_taxlabels_statement`, positioned after `TAXLABELS`: every token up to the unquoted `;` is a label; a label
    already in the namespace (up to the case folding) is that taxon, a new one is appended unless the file-specified NTAX
    is reached (`attached`: reading into a caller's namespace switches that check off) -/
def nexusTaxlabels (cf : Char → Char) (ntax : Option Nat) (attached : Bool) : List TokE → List Str → Option (List Str × List TokE)
  | [], _ => none
  | t :: r, ns =>
    if t.text == [';'] && !t.quoted then some (ns, r)
    else if ns.any (fun x => lowerWith cf x == lowerWith cf t.text) then nexusTaxlabels cf ntax attached r ns
    else if ntaxFull ntax attached ns.length then none
    else nexusTaxlabels cf ntax attached r (ns ++ [t.text])

/-- the command loop of `_parse_taxa_block`, positioned after `BEGIN TAXA;`: (namespace if a TAXLABELS command was seen,
    NTAX, tokens after the block's `END;`).  A TITLE command (several namespaces in one file) is outside the model: refused. -/
def nexusTaxaLoop (cf : Char → Char) (attached : Option (List Str)) : Nat → List TokE → Option (List Str) → Option Nat →
    Option (Option (List Str) × Option Nat × List TokE)
  | 0, _, _, _ => none
  | _ + 1, [], _, _ => none
  | f + 1, t :: r, ns, ntax =>
    let u := ucase t.text
    if u == ['E', 'N', 'D'] || u == ['E', 'N', 'D', 'B', 'L', 'O', 'C', 'K'] then some (ns, ntax, skipToSemi r)
    else if u == ['T', 'I', 'T', 'L', 'E'] then none
    else if u == ['D', 'I', 'M', 'E', 'N', 'S', 'I', 'O', 'N', 'S'] then
      match nexusDimensions (r.length + 1) r ntax with
      | none => none
      | some (ntax', r') => nexusTaxaLoop cf attached f r' ns ntax'
    else if u == ['T', 'A', 'X', 'L', 'A', 'B', 'E', 'L', 'S'] then
      match nexusTaxlabels cf ntax attached.isSome r (match ns with | some l => l | none => attached.getD []) with
      | none => none
      | some (ns', r') => nexusTaxaLoop cf attached f r' (some ns') ntax
    else nexusTaxaLoop cf attached f r ns ntax

/-- what a document yields: the namespace, and the named trees of its TREES block -/
structure Doc where
  ns : List Str
  tokmap : List (Str × Str)
  trees : List (Str × PT)

/-- the block loop of `_parse_nexus_stream`, positioned after `#NEXUS`: skip to `BEGIN`, dispatch on the block name.
    Modelled: one TAXA block (the namespace; `attached` = the caller's namespace when one is handed in) followed by one
    TREES block, which ends the reading (what a writer emits for one tree list).  Refused (`none`) rather than guessed:
    a second TAXA block, a TREES block before any TAXA block, any other block. -/
def nexusDocLoop (o : ROpts) (attached : Option (List Str)) (atEof : Bool) : Nat → List TokE → Option (List Str) → Option Doc
  | 0, _, _ => none
  | _ + 1, [], ns => (match ns with | some l => some ⟨l, [], []⟩ | none => none)
  | f + 1, t :: r, ns =>
    if ucase t.text != ['B', 'E', 'G', 'I', 'N'] then nexusDocLoop o attached atEof f r ns
    else
      match r with
      | [] => none
      | b :: r' =>
        let u := ucase b.text
        if u == ['T', 'A', 'X', 'A'] then
          (if ns.isSome then none else
            match nexusTaxaLoop o.cf attached (r'.length + 1) (skipToSemi r') none none with
            | some (some l, some _, rest) => nexusDocLoop o attached atEof f rest (some l)
            | _ => none)
        else if u == ['T', 'R', 'E', 'E', 'S'] then
          match ns with
          | none => none
          | some l =>
            match nexusBlockLoop o atEof (r'.length + 1) (skipToSemi r') ⟨[], l, true⟩ [] with
            | none => none
            | some (ts, m) => some ⟨m.ns, m.tokmap, ts⟩
        else none

/-- `TreeList.get(data=text, schema="nexus", …)` (`attached` = `taxon_namespace=` when given) -/
def nexusDoc (o : ROpts) (attached : Option (List Str)) (text : Str) : Option Doc :=
  let ts := tokenizeAll o.pu text
  if !ts.ok then none else
  match ts.toks with
  | h :: rest =>
    if ucase h.text == ['#', 'N', 'E', 'X', 'U', 'S'] then nexusDocLoop o attached ts.atEof (rest.length + 1) rest none
    else none
  | [] => none

/-! ### rendering for the protocol -/

def hexS (s : Str) : String := if s.isEmpty then "=" else String.ofList (hex6 s)
def hexO : Option Str → String
  | none => "-"
  | some s => hexS s

mutual
def renderNT : NT → String
  | .node tx lb ln cs => "(" ++ hexO tx ++ " " ++ hexO lb ++ " " ++ hexO ln ++ renderNTL cs ++ ")"
def renderNTL : List NT → String
  | [] => ""
  | c :: cs => " " ++ renderNT c ++ renderNTL cs
end

def renderPT (p : PT) : String :=
  (if p.rooting == 2 then "R" else if p.rooting == 1 then "U" else "N") ++ " " ++ hexO p.weight ++ " " ++ renderNT p.tree

def renderResult : Option (List PT × Mapper) → String
  | none => "ERR"
  | some (ts, m) => "ns " ++ ",".intercalate (m.ns.map hexS) ++ " trees " ++ toString ts.length ++
      String.join (ts.map (fun p => " | " ++ renderPT p))

def renderNexus : Option (List (Str × PT) × Mapper) → String
  | none => "ERR"
  | some (ts, m) => "ns " ++ ",".intercalate (m.ns.map hexS) ++ " trees " ++ toString ts.length ++
      String.join (ts.map (fun p => " | " ++ hexS p.1 ++ " " ++ renderPT p.2))

def renderDoc : Option Doc → String
  | none => "ERR"
  | some d => "ns " ++ ",".intercalate (d.ns.map hexS) ++ " trees " ++ toString d.trees.length ++
      String.join (d.trees.map (fun p => " | " ++ hexS p.1 ++ " " ++ renderPT p.2))

end DendroModel.C02
