import DendroModel.Basic.Tree
import DendroModel.Gen.Alphabets
import DendroModel.Gen.Tables
import DendroModel.Gen.C09Consts
/-! C09 — executable model of character-matrix I/O.

* state alphabets (`charstatemodel.StateAlphabet.__init__`, `full_symbol_state_map`, `match_state`) built from the
  *generated* symbol tables `Gen/Alphabets.lean`;
* NEXUS: `_compose_format_terms`, DIMENSIONS, row rendering (repaired: symbol-less multistate cells are written as
  `(AB)` / `{AB}`), `_parse_format_statement`, `_read_character_states`, sequential / interleaved matrix accumulation;
* PHYLIP: `_write_char_matrix` (strict / relaxed), `_parse_taxon_from_line`, `_parse_sequential`, `_parse_interleaved`;
* FASTA: `_write_char_matrix` (wrap at 70), `FastaReader._read`;
* NeXML at the abstract-document level: `<char>` ids (repaired: one per column index), `<cell char= state=>`, `set_at`;
* TITLE / LINK: `_link_blocks` (repaired), `_get_block_title`, `_get_taxon_namespace`.
Everything works on `List Char`; no Mathlib. -/
namespace DendroModel.C09
open DendroModel.Alphabets

abbrev Str := List Char

/-! ### state alphabets -/
inductive Kind | fund | ambig | poly
  deriving DecidableEq, Repr

structure St where
  sym : Option Char
  kind : Kind
  members : List Char
  syns : List Char
  deriving Repr

/-- implicit synonyms of a case-insensitive alphabet: `symbol.upper()`, `symbol.lower()` when different -/
def caseVar (caseSensitive : Bool) (c : Char) : List Char :=
  if caseSensitive then [] else [c.toUpper, c.toLower].filter (· != c)

def fundAll (s : Spec) : List Char := s.fund ++ s.gap.toList

def synsOf (s : Spec) (c : Char) : List Char :=
  caseVar s.caseSensitive c ++ (s.syn.filter (·.2 == c)).map (·.1)

/-- `StateAlphabet.__init__`: fundamental states, gap (a fundamental state), the no-data state (ambiguous, all
fundamental states), the ambiguous and polymorphic tables; nothing at all when there are no fundamental states -/
def mkStates (s : Spec) : List St :=
  if s.fund.isEmpty then [] else
  (fundAll s).map (fun c => ⟨some c, .fund, [c], synsOf s c⟩) ++
  s.missing.toList.map (fun c => ⟨some c, .ambig, fundAll s, synsOf s c⟩) ++
  s.ambig.map (fun p => ⟨some p.1, .ambig, p.2, synsOf s p.1⟩) ++
  s.poly.map (fun p => ⟨some p.1, .poly, p.2, synsOf s p.1⟩)

/-- `full_symbol_state_map[c]` -/
def lookupSt (al : List St) (c : Char) : Option St :=
  al.find? (fun st => st.sym == some c || st.syns.contains c)

/-- canonical symbol of the state a character denotes -/
def lookup (al : List St) (c : Char) : Option Char := (lookupSt al c).bind (·.sym)

def canonSyms (al : List St) : List Char := al.filterMap (·.sym)

def sameSet (a b : List Char) : Bool := a.all (b.contains ·) && b.all (a.contains ·)

/-- `get_fundamental_states_for_symbols` (none = KeyError) -/
def expand (al : List St) : List Char → Option (List Char)
  | [] => some []
  | c :: cs =>
    match lookupSt al c, expand al cs with
    | some st, some r => some (st.members ++ r)
    | _, _ => none

def insertC (c : Char) : List Char → List Char
  | [] => [c]
  | d :: ds => if c < d then c :: d :: ds else if c = d then d :: ds else d :: insertC c ds
def canonSet (l : List Char) : List Char := l.foldr insertC []

inductive Cell
  | sym (c : Char)
  | multi (poly : Bool) (ms : List Char)
  deriving DecidableEq, Repr

/-- `_get_state_for_multistate_tokens`: the first state of the denomination with the same member set, else a new
symbol-less state (members in canonical order: the model does not track creation order) -/
def resolveMulti (al : List St) (poly : Bool) (acc : List Char) : Option Cell :=
  match expand al acc with
  | none => none
  | some ms =>
    let k := if poly then Kind.poly else Kind.ambig
    match al.find? (fun st => st.kind == k && sameSet st.members ms) with
    | some st => match st.sym with
      | some c => some (.sym c)
      | none => some (.multi poly (canonSet ms))
    | none => some (.multi poly (canonSet ms))

/-! ### cell text (NEXUS rendering, repaired writer) -/
def renderCell : Cell → Str
  | .sym c => [c]
  | .multi true ms => '(' :: (ms ++ [')'])
  | .multi false ms => '{' :: (ms ++ ['}'])

def renderCells : List Cell → Str
  | [] => []
  | c :: cs => renderCell c ++ renderCells cs

def isWs (c : Char) : Bool := c == ' ' || c == '\t' || c == '\n' || c == '\r'

inductive Err | invalidSymbol | tooMany | badMulti | matchChar | blockTerminated | unterminated
  | insufficient | tooManyTaxa | format | header | label | dup | count | other
  deriving DecidableEq, Repr

/-- reader state of `_read_character_states` over the characters of one row -/
structure RS where
  out : List Cell
  grp : Option (Bool × List Char)
  err : Option Err

structure RCfg where
  al : List St
  matchChars : List Char
  first : Option (List Cell)
  nchar : Nat
  have_ : Nat

def pushCell (cfg : RCfg) (st : RS) (c : Cell) : RS :=
  if cfg.have_ + st.out.length ≥ cfg.nchar then { st with err := some .tooMany }
  else { st with out := st.out ++ [c], grp := none }

def stepChar (cfg : RCfg) (st : RS) (c : Char) : RS :=
  match st.err with
  | some _ => st
  | none =>
    match st.grp with
    | some (p, acc) =>
      if c == (if p then ')' else '}') then
        match resolveMulti cfg.al p acc with
        | some cell => pushCell cfg st cell
        | none => { st with err := some .badMulti }
      else if isWs c then st
      else { st with grp := some (p, acc ++ [c]) }
    | none =>
      if isWs c then st
      else if c == '{' then { st with grp := some (false, []) }
      else if c == '(' then { st with grp := some (true, []) }
      else if c == ';' then { st with err := some .blockTerminated }
      else if cfg.matchChars.contains c then
        match cfg.first with
        | none => { st with err := some .matchChar }
        | some f => match f[cfg.have_ + st.out.length]? with
          | some cell => pushCell cfg st cell
          | none => { st with err := some .matchChar }
      else match lookup cfg.al c with
        | some s => pushCell cfg st (.sym s)
        | none => { st with err := some .invalidSymbol }

def readStates (cfg : RCfg) (text : Str) : Except Err (List Cell) :=
  let st := text.foldl (stepChar cfg) ⟨[], none, none⟩
  match st.err, st.grp with
  | some e, _ => .error e
  | none, some _ => .error .unterminated
  | none, none => .ok st.out

/-! ### NEXUS FORMAT / DIMENSIONS -/
def captured : List Char := ['"', '(', ')', ',', ':', ';', '=', '\\', '{', '}']

/-- tokens of a statement without quotes or comments: whitespace separates, captured delimiters stand alone -/
def tokens : Str → List Str
  | [] => []
  | c :: cs =>
    let r := tokens cs
    if isWs c then [] :: r
    else if captured.contains c then [] :: [c] :: [] :: r
    else match r with
      | [] => [[c]]
      | t :: ts => (c :: t) :: ts

def toks (s : Str) : List Str := (tokens s).filter (fun t => !t.isEmpty)

def upper (s : Str) : Str := s.map Char.toUpper
def lower (s : Str) : Str := s.map Char.toLower

structure Fmt where
  dataType : Str
  symbols : Str
  gap : Str
  missing : Str
  matchChars : List Char
  interleave : Bool
  deriving Repr, DecidableEq

def Fmt.init : Fmt := ⟨"standard".toList, [], ['-'], ['?'], ['.'], false⟩

def dataTypeOf (t : Str) : Str :=
  if t == "DNA".toList || t == "NUCLEOTIDES".toList then "dna".toList
  else if t == "RNA".toList then "rna".toList
  else if t == "NUCLEOTIDE".toList then "nucleotide".toList
  else if t == "PROTEIN".toList then "protein".toList
  else if t == "CONTINUOUS".toList then "continuous".toList
  else "standard".toList

def isInfix (a b : Str) : Bool := (List.range (b.length + 1)).any (fun i => (b.drop i).take a.length == a)

/-- SYMBOLS list: tokens up to the closing quote; a token is appended unless it occurs in the string so far -/
def symbolsLoop (acc : Str) : List Str → Option (Str × List Str)
  | [] => none
  | t :: ts => if t == ['"'] then some (acc, ts) else symbolsLoop (if isInfix t acc then acc else acc ++ t) ts

/-- `_parse_format_statement` over upper-cased tokens, up to `;` (none = error / end of stream) -/
def parseFormat (fuel : Nat) (f : Fmt) (ts : List Str) : Option Fmt :=
  match fuel with
  | 0 => none
  | fuel + 1 =>
    match ts with
    | [] => none
    | t :: rest =>
      if t == [';'] then some f
      else if t == "DATATYPE".toList then
        match rest with
        | e :: v :: rest' =>
          if e == ['='] then
            let dt := dataTypeOf v
            parseFormat fuel { f with dataType := dt,
                                      symbols := if dt == "standard".toList then "0123456789".toList else f.symbols } rest'
          else none
        | _ => none
      else if t == "SYMBOLS".toList then
        match rest with
        | e :: q :: rest' =>
          if e == ['='] && q == ['"'] then
            match symbolsLoop [] rest' with
            | some (s, rest'') => parseFormat fuel { f with symbols := s } rest''
            | none => none
          else none
        | _ => none
      else if t == "GAP".toList then
        match rest with
        | e :: v :: rest' => if e == ['='] then parseFormat fuel { f with gap := v } rest' else none
        | _ => none
      else if t == "MISSING".toList then
        match rest with
        | e :: v :: rest' => if e == ['='] then parseFormat fuel { f with missing := v } rest' else none
        | _ => none
      else if t == "MATCHCHAR".toList then
        match rest with
        | e :: v :: rest' =>
          if e == ['='] then parseFormat fuel { f with matchChars := (v ++ lower v).eraseDups } rest' else none
        | _ => none
      else if t == "INTERLEAVE".toList then
        match rest with
        | e :: v :: rest' =>
          if e == ['='] then parseFormat fuel { f with interleave := !(v.head? == some 'N') } rest'
          else parseFormat fuel { f with interleave := true } rest
        | _ => parseFormat fuel { f with interleave := true } rest
      else if t == "BEGIN".toList then none
      else parseFormat fuel f rest

def parseFormatText (s : Str) : Option Fmt :=
  let ts := toks (upper s)
  parseFormat (ts.length + 1) Fmt.init ts

def specStd (symbols : Str) (gap missing : Option Char) : Spec :=
  { fund := symbols, ambig := [], poly := [], syn := [], gap := gap, missing := missing, caseSensitive := false }

def specOfName (n : Str) : Option Spec :=
  if n == "dna".toList then some dna
  else if n == "rna".toList then some rna
  else if n == "nucleotide".toList then some nucleotide
  else if n == "protein".toList then some protein
  else if n == "restriction".toList || n == "infinite".toList then some binary
  else if n == "standard".toList then some standardDefault
  else none

/-- `_build_state_alphabet` for standard data, the fixed alphabet otherwise -/
def alphabetOfFmt (f : Fmt) : Option (List St) :=
  if f.dataType == "standard".toList then
    match f.gap, f.missing with
    | [g], [m] => some (mkStates (specStd (f.symbols.filter (· != g)) (some g) (some m)))
    | _, _ => none
  else (specOfName f.dataType).map mkStates

/-- FORMAT terms of `_compose_format_terms` (standard alphabets: symbols sorted, only `?`/`-` multistate symbols) -/
def formatOf (dtName : Str) (s : Spec) : Str :=
  match formatTerms.find? (fun p => p.1.toList == dtName) with
  | some p => p.2.toList
  | none =>
    "DATATYPE=STANDARD SYMBOLS=\"".toList ++ canonSet (fundAll s) ++ ['"'] ++
      (if s.missing == some '?' then " MISSING=?".toList else []) ++
      (if s.missing == some '-' then " GAP=-".toList else [])

def natStr (n : Nat) : Str := (toString n).toList

def dimensionsOf (simple : Bool) (ntax nchar : Nat) : Str :=
  "DIMENSIONS".toList ++ (if simple then " NTAX=".toList ++ natStr ntax else []) ++ " NCHAR=".toList ++ natStr nchar

def maxLen : List (List α) → Nat
  | [] => 0
  | r :: rs => max r.length (maxLen rs)

abbrev Matrix := List (Str × List Cell)

/-! ### NEXUS matrix reading: rows are (label token, text); taxa in namespace order -/
abbrev Acc := List (Str × Option (List Cell))

def findRow {α : Type} (acc : List (Str × Option α)) (label : Str) : Option (Option α) :=
  (acc.find? (fun p => lower p.1 == lower label)).map (·.2)

def setRow {α : Type} (acc : List (Str × Option α)) (label : Str) (cells : α) : List (Str × Option α) :=
  match acc with
  | [] => [(label, some cells)]
  | p :: ps => if lower p.1 == lower label then (p.1, some cells) :: ps else p :: setRow ps label cells

def accRows {α : Type} (acc : List (Str × Option α)) : List (Str × α) := acc.filterMap (fun p => p.2.map (fun c => (p.1, c)))

structure NxCfg where
  al : List St
  matchChars : List Char
  nchar : Nat
  ntax : Nat
  interleave : Bool

def nxStep (cfg : NxCfg) (stt : Except Err (Acc × Option Str)) (row : Str × Str) : Except Err (Acc × Option Str) :=
  match stt with
  | .error e => .error e
  | .ok (acc, first) =>
    let known := findRow acc row.1
    if known.isNone && !(cfg.ntax == 0 || acc.length < cfg.ntax) then .error .tooManyTaxa else
    let cur := (known.getD none).getD []
    let firstCells := first.bind (fun l => (findRow acc l).bind id)
    match readStates ⟨cfg.al, cfg.matchChars, firstCells, cfg.nchar, cur.length⟩ row.2 with
    | .error e => .error e
    | .ok cells =>
      let all := cur ++ cells
      if !cfg.interleave && all.length < cfg.nchar then .error .insufficient
      else .ok (setRow acc row.1 all, some (first.getD row.1))

def nxRead (cfg : NxCfg) (taxa : List Str) (rows : List (Str × Str)) : Except Err Matrix :=
  match rows.foldl (nxStep cfg) (.ok (taxa.map (fun t => (t, none)), none)) with
  | .error e => .error e
  | .ok (acc, _) => .ok (accRows acc)

/-- rows of a CHARACTERS block as the (repaired) writer lays them out -/
def nxRows (m : Matrix) : List (Str × Str) := m.map (fun r => (r.1, renderCells r.2))

/-! ### PHYLIP -/
def ljust (n : Nat) (s : Str) : Str := s ++ List.replicate (n - s.length) ' '
def s2u (s : Str) : Str := s.map (fun c => if c == ' ' then '_' else c)
def u2s (s : Str) : Str := s.map (fun c => if c == '_' then ' ' else c)

/-- `PhylipWriter._write_char_matrix` for labels that stay distinct (rows: label, symbols) -/
def phWrite (strict spacesToUnderscores : Bool) (rows : List (Str × Str)) : List Str :=
  let lab := fun (l : Str) =>
    let l := if spacesToUnderscores then s2u l else l
    if strict then ljust 10 (l.take 10) else l
  let labs := rows.map (fun r => lab r.1)
  let ml := maxLen labs
  (natStr rows.length ++ [' '] ++ natStr (maxLen (rows.map (·.2)))) ::
    rows.map (fun r => ljust ml (lab r.1) ++ (if strict then [] else [' ', ' ']) ++ r.2)

def isBlank (c : Char) : Bool := c == ' ' || c == '\t'
def lstrip (s : Str) : Str := s.dropWhile isWs
def rstrip (s : Str) : Str := (s.reverse.dropWhile isWs).reverse
def strip (s : Str) : Str := rstrip (lstrip s)

/-- `re.split('[ \t]{k,}', line, maxsplit=1)` for k = 1 or 2: (before, after) or none when there is no such run -/
def splitRun (two : Bool) : Str → Option (Str × Str)
  | [] => none
  | c :: cs =>
    if isBlank c && (!two || (cs.head?.map isBlank).getD false) then some ([], cs.dropWhile isBlank)
    else (splitRun two cs).map (fun p => (c :: p.1, p.2))

structure PhCfg where
  al : List St
  strict : Bool
  interleaved : Bool
  multispace : Bool
  underscoresToSpaces : Bool

structure PhSt where
  rows : List (Str × Str)      -- namespace order (order of first appearance)
  processed : Nat
  ntax : Nat
  nchar : Nat

def phFind (rows : List (Str × Str)) (label : Str) : Option Str :=
  (rows.find? (fun p => lower p.1 == lower label)).map (·.2)

def phSet (rows : List (Str × Str)) (label : Str) (seq : Str) : List (Str × Str) :=
  match rows with
  | [] => [(label, seq)]
  | p :: ps => if lower p.1 == lower label then (p.1, seq) :: ps else p :: phSet ps label seq

/-- `_parse_taxon_from_line`: (state, canonical label, rest of line) -/
def phTaxon (cfg : PhCfg) (st : PhSt) (line : Str) : Except Err (PhSt × Str × Str) :=
  let (lab, rest) :=
    if cfg.strict then (strip (line.take 10), line.drop 10)
    else match splitRun cfg.multispace line with
      | some (a, b) => (a, b)
      | none => (line, [])
  let lab := strip lab
  if lab.isEmpty then .error .label else
  let lab := if cfg.underscoresToSpaces then u2s lab else lab
  match phFind st.rows lab with
  | none =>
    if st.processed + 1 > st.ntax then .error .count
    else .ok ({ st with rows := st.rows ++ [(lab, [])], processed := st.processed + 1 }, lab, rest)
  | some seq =>
    if seq.length ≥ st.nchar then .error .dup else .ok (st, lab, rest)

/-- `_parse_sequence_from_line` (discrete data) -/
def phSeq (al : List St) : Str → Except Err Str
  | [] => .ok []
  | c :: cs =>
    if isBlank c then phSeq al cs
    else match lookup al c, phSeq al cs with
      | some s, .ok r => .ok (s :: r)
      | none, _ => .error .invalidSymbol
      | _, .error e => .error e

def phAppend (cfg : PhCfg) (st : PhSt) (lab : Str) (text : Str) : Except Err PhSt :=
  match phSeq cfg.al text with
  | .error e => .error e
  | .ok s => .ok { st with rows := phSet st.rows lab ((phFind st.rows lab).getD [] ++ s) }

def phSequential (cfg : PhCfg) : PhSt → Option Str → List Str → Except Err PhSt
  | st, _, [] => .ok st
  | st, cur, line :: rest =>
    let line := rstrip line
    if line.isEmpty then phSequential cfg st cur rest else
    match (match cur with
           | some l => Except.ok (st, l, line)
           | none => phTaxon cfg st line) with
    | .error e => .error e
    | .ok (st, lab, text) =>
      match phAppend cfg st lab text with
      | .error e => .error e
      | .ok st =>
        let done := ((phFind st.rows lab).getD []).length ≥ st.nchar
        phSequential cfg st (if done then none else some lab) rest

def phInterleaved (cfg : PhCfg) : PhSt → Bool → Int → List Str → Except Err PhSt
  | st, _, _, [] => .ok st
  | st, paged, pr, line :: rest =>
    let line := rstrip line
    if line.isEmpty then phInterleaved cfg st paged pr rest else
    let pr := pr + 1
    let pr := if pr ≥ (st.ntax : Int) then 0 else pr
    if paged then
      match st.rows[pr.toNat]? with
      | none => .error .other
      | some (lab, _) =>
        match phAppend cfg st lab line with
        | .error e => .error e
        | .ok st => phInterleaved cfg st paged pr rest
    else
      match phTaxon cfg st line with
      | .error e => .error e
      | .ok (st, lab, text) =>
        let (paged, pr) := if st.rows.length == st.ntax then (true, (-1 : Int)) else (paged, pr)
        match phAppend cfg st lab text with
        | .error e => .error e
        | .ok st => phInterleaved cfg st paged pr rest

def allDigits (s : Str) : Bool := !s.isEmpty && s.all Char.isDigit
def digitsVal (s : Str) : Nat := s.foldl (fun n c => n * 10 + (c.toNat - 48)) 0

def wsWords (s : Str) : List Str :=
  (s.foldr (fun c acc => if isWs c then [] :: acc else match acc with
    | [] => [[c]]
    | t :: ts => (c :: t) :: ts) [[]]).filter (fun t => !t.isEmpty)

/-- `PhylipReader._read` on the list of lines of the source -/
def phRead (cfg : PhCfg) (lines : List Str) : Except Err (List (Str × Str)) :=
  if lines.length ≤ 2 then .error .header else
  match lines with
  | [] => .error .header
  | desc :: body =>
    match wsWords desc with
    | [a, b] =>
      if !(allDigits a && allDigits b) then .error .header else
      let ntax := digitsVal a
      let nchar := digitsVal b
      if ntax == 0 || nchar == 0 then .error .header else
      let st0 : PhSt := ⟨[], 0, ntax, nchar⟩
      match (if cfg.interleaved then phInterleaved cfg st0 false (-1) body else phSequential cfg st0 none body) with
      | .error e => .error e
      | .ok st =>
        if st.processed != ntax then .error .count
        -- "Wrong number of characters for taxon": every sequence must have exactly NCHAR characters
        else if st.rows.all (fun r => r.2.length == nchar) then .ok st.rows else .error .count
    | _ => .error .header


/-! ### continuous matrices: cells are decimal tokens, compared numerically -/
/-- a decimal number ±mant·10^exp -/
structure Dec where
  neg : Bool
  mant : Nat
  exp : Int
  deriving DecidableEq, Repr

/-- strip trailing zeros of the mantissa into the exponent (fuel: number of digits); zero is `+0e0` -/
def Dec.normFuel : Nat → Nat → Int → Nat × Int
  | 0, m, e => (m, e)
  | f + 1, m, e => if m != 0 && m % 10 == 0 then Dec.normFuel f (m / 10) (e + 1) else (m, e)

def Dec.norm (d : Dec) : Dec :=
  if d.mant == 0 then ⟨false, 0, 0⟩ else
  let r := Dec.normFuel d.mant d.mant d.exp
  ⟨d.neg, r.1, r.2⟩

/-- numeric equality of two decimal tokens -/
def Dec.same (a b : Dec) : Bool := a.norm == b.norm

def spanDigits : Str → Str × Str
  | [] => ([], [])
  | c :: cs => if c.isDigit then let r := spanDigits cs; (c :: r.1, r.2) else ([], c :: cs)

def signOf : Str → Bool × Str
  | '-' :: r => (true, r)
  | '+' :: r => (false, r)
  | s => (false, s)

/-- `float(token)` for the decimal syntax Python's `repr`/`str` of a finite float produces (and the usual variants):
`[+-] digits [. digits] [(e|E) [+-] digits]` with at least one mantissa digit -/
def parseDec (s : Str) : Option Dec :=
  let (neg, s) := signOf s
  let (d1, s) := spanDigits s
  let (d2, s) := match s with
    | '.' :: r => spanDigits r
    | _ => ([], s)
  if d1.isEmpty && d2.isEmpty then none else
  let mant := digitsVal (d1 ++ d2)
  match s with
  | [] => some ⟨neg, mant, -(d2.length : Int)⟩
  | c :: r =>
    if c == 'e' || c == 'E' then
      let (eneg, r) := signOf r
      let (de, rest) := spanDigits r
      if de.isEmpty || !rest.isEmpty then none
      else some ⟨neg, mant, (if eneg then -(digitsVal de : Int) else (digitsVal de : Int)) - (d2.length : Int)⟩
    else none

/-- a row of continuous values as the writers lay it out: NEXUS writes every value followed by a blank, PHYLIP joins
the values with single blanks -/
def contRender (trailing : Bool) : List Str → Str
  | [] => []
  | [t] => if trailing then t ++ [' '] else t
  | t :: ts => t ++ ' ' :: contRender trailing ts

/-- `_read_continuous_character_values` / `_parse_sequence_from_line` (continuous): white-space separated tokens, each
of which must be a number -/
def contRead (text : Str) : Except Err (List Str) :=
  let ws := wsWords text
  if ws.all (fun t => (parseDec t).isSome) then .ok ws else .error .invalidSymbol

/-! ### NEXUS continuous matrices (`_process_continuous_matrix_data` / `_read_continuous_character_values`): rows are
(label token, text); a row's text is split at white space into value tokens, each of which must be a number -/
abbrev CMatrix := List (Str × List Str)

def nxStepC (cfg : NxCfg) (stt : Except Err (List (Str × Option (List Str)))) (row : Str × Str) :
    Except Err (List (Str × Option (List Str))) :=
  match stt with
  | .error e => .error e
  | .ok acc =>
    let known := findRow acc row.1
    if known.isNone && !(cfg.ntax == 0 || acc.length < cfg.ntax) then .error .tooManyTaxa else
    let cur := (known.getD none).getD []
    match contRead row.2 with
    | .error e => .error e
    | .ok toks =>
      let all := cur ++ toks
      if all.length > cfg.nchar then .error .tooMany
      else if !cfg.interleave && all.length < cfg.nchar then .error .insufficient
      else .ok (setRow acc row.1 all)

def nxReadC (cfg : NxCfg) (taxa : List Str) (rows : List (Str × Str)) : Except Err CMatrix :=
  match rows.foldl (nxStepC cfg) (.ok (taxa.map (fun t => (t, none)))) with
  | .error e => .error e
  | .ok acc =>
    -- the final check of `_parse_matrix_statement`: every sequence has NCHAR values
    if (accRows acc).all (fun r => r.2.length == cfg.nchar) then .ok (accRows acc) else .error .count

/-- the rows of a continuous CHARACTERS block as the writer lays them out: every value followed by a blank -/
def nxRowsC (m : CMatrix) : List (Str × Str) := m.map (fun r => (r.1, contRender true r.2))

/-! ### FASTA -/
def wrap70 (col : Nat) : Str → Str
  | [] => []
  | c :: cs => if col == 70 then '\n' :: c :: wrap70 1 cs else c :: wrap70 (col + 1) cs

/-- `FastaWriter._write_char_matrix` (wrap=True) -/
def faWrite : List (Str × Str) → Str
  | [] => []
  | r :: rs => '>' :: (r.1 ++ ['\n'] ++ wrap70 0 r.2 ++ ['\n', '\n'] ++ faWrite rs)

def faSeq (al : List St) : Str → Except Err Str
  | [] => .ok []
  | c :: cs =>
    if isWs c then faSeq al cs
    else match lookup al c, faSeq al cs with
      | some s, .ok r => .ok (s :: r)
      | none, _ => .error .invalidSymbol
      | _, .error e => .error e

/-- `FastaReader._read` over the lines of the source; rows in order of first appearance, current row last touched -/
def faRead (al : List St) : List (Str × Str) → Option Str → List Str → Except Err (List (Str × Str))
  | rows, _, [] => .ok rows
  | rows, cur, line :: rest =>
    let s := strip line
    if s.isEmpty then faRead al rows cur rest
    else match s with
      | '>' :: name =>
        let name := strip name
        if (phFind rows name).isSome then .error .dup
        else if (cur.bind (phFind rows)).map (·.isEmpty) == some true then .error .other
        else faRead al (rows ++ [(name, [])]) (some name) rest
      | _ =>
        match cur with
        | none => .error .other
        | some lab =>
          match faSeq al s with
          | .error e => .error e
          | .ok q => faRead al (phSet rows lab ((phFind rows lab).getD [] ++ q)) cur rest

def splitLines : Str → List Str
  | [] => [[]]
  | c :: cs =>
    match splitLines cs with
    | [] => [[c]]
    | l :: ls => if c == '\n' then [] :: l :: ls else (c :: l) :: ls

/-! ### NeXML, abstract document: `<char>` ids in format order, cells `(char id, state)` -/
/-- `CharacterDataSequence.set_at`: pad with `none` up to the index, then assign -/
def setAt (v : List (Option α)) (i : Nat) (x : α) : List (Option α) :=
  if i < v.length then v.set i (some x) else v ++ List.replicate (i - v.length) none ++ [some x]

/-- a row of `<cell char= state=>`: the column is the position of the char id in the format section; a cell naming
a `<char>` that the format section does not define is an error (`none`), as in the reader -/
def nexmlReadRow (chars : List Nat) (cells : List (Nat × α)) : Option (List (Option α)) :=
  cells.foldl (fun v c => v.bind (fun v => if chars.contains c.1 then some (setAt v (chars.idxOf c.1) c.2) else none)) (some [])

/-- repaired `_write_format_section` for a matrix without column definitions: the char id of a cell is a function
of its column index only (`colId`); the format section lists ids in order of first use -/
def nexmlChars (colId : Nat → Nat) (rowLens : List Nat) : List Nat :=
  rowLens.foldl (fun acc n => acc ++ ((List.range n).map colId).filter (fun i => !acc.contains i)) []

def nexmlWriteRow (colId : Nat → Nat) (cells : List α) : List (Nat × α) :=
  (List.range cells.length).map colId |>.zip cells


/-! ### NeXML data sets: `otus` id references -/
/-- ids the writer hands out (`_get_nexml_id`: "d" followed by a counter value) -/
def nexmlId (k : Nat) : Str := 'd' :: natStr k

/-- `_id_taxon_namespace_map[otus_id]`: the `<otus>` element a `<characters otus=…>` / `<trees otus=…>` refers to
(ids are unique in a well-formed document; an unknown or ambiguous reference is an error) -/
def resolveOtus (ids : List Str) (ref : Str) : Except Err Nat :=
  match (List.range ids.length).filter (fun i => ids[i]? == some ref) with
  | [i] => .ok i
  | _ => .error .other

/-- namespaces get the ids of counters `ks`; block `b` (attached to namespace `b`) is written with that id as `otus=` -/
def nexmlWriteRefs (ks : List Nat) (blocks : List Nat) : List Str × List (Option Str) :=
  (ks.map nexmlId, blocks.map (fun b => (ks[b]?).map nexmlId))

def nexmlReadRefs (w : List Str × List (Option Str)) : List (Except Err Nat) :=
  w.2.map (fun r => match r with
    | some r => resolveOtus w.1 r
    | none => .error .other)

/-! ### TITLE / LINK -/
/-- `_link_blocks` (repaired): titles are written iff needed (None) or not suppressed (False) -/
def linkBlocks (suppress : Option Bool) (nNamespaces : Nat) : Bool :=
  match suppress with
  | none => nNamespaces > 1
  | some b => !b

/-! NEXUS token escaping of titles (`nexusprocessing.escape_nexus_token`, character class from the generated
`Tables.protectDefault`) and the token the `NexusTokenizer` hands back -/
def needsProtect (s : Str) : Bool := s.any (Tables.protectDefault.contains ·)

/-- `"''".join(label.split("'"))` -/
def dblQuotes : Str → Str
  | [] => []
  | c :: cs => if c == '\'' then '\'' :: '\'' :: dblQuotes cs else c :: dblQuotes cs

/-- `escape_nexus_token(label, preserve_spaces, quote_underscores)` -/
def escToken (preserveSpaces quoteUnderscores : Bool) (s : Str) : Str :=
  if !preserveSpaces && !s.contains '_' && !needsProtect s then
    s.map (fun c => if c == ' ' || c == '\t' then '_' else c)
  else if needsProtect s || s.contains ' ' || (quoteUnderscores && s.contains '_') then
    '\'' :: (dblQuotes s ++ ['\''])
  else s

def undbl : Str → Str
  | [] => []
  | [c] => [c]
  | c :: d :: cs => if c == '\'' && d == '\'' then '\'' :: undbl cs else c :: undbl (d :: cs)

/-- the token the tokenizer returns for one written token: a quoted token without its quotes (doubled quotes undone);
an unquoted one with underscores read as blanks unless `preserve_underscores` -/
def readToken (preserveUnderscores : Bool) (t : Str) : Str :=
  match t with
  | '\'' :: r => undbl r.dropLast
  | _ => if preserveUnderscores then t else u2s t

/-- what the (repaired) writer keys title uniqueness on: `title.upper().replace("_", " ")` — the reader matches titles
without regard to case, and an unquoted underscore is read back as a blank -/
def tkey (s : Str) : Str := u2s (upper s)

/-- `_get_block_title` de-duplication (repaired: titles compare by `tkey`, i.e. as any reader setting will see them):
`orig`, `orig.1`, `orig.2`, … until unused -/
def freshTitle (used : List Str) (orig : Str) (idx fuel : Nat) (cand : Str) : Str :=
  match fuel with
  | 0 => cand
  | fuel + 1 =>
    if used.any (fun u => tkey u == tkey cand) then freshTitle used orig (idx + 1) fuel (orig ++ ['.'] ++ natStr idx)
    else cand

def assignTitles (used : List Str) : List Str → List Str
  | [] => []
  | l :: ls =>
    let t := freshTitle used l 1 (used.length + 1) l
    t :: assignTitles (used ++ [t]) ls

/-- `_get_taxon_namespace(title)`: index of the namespace a block attaches to -/
def titleMatches (nsTitles : List (Option Str)) (t : Str) (i : Nat) : Bool :=
  (nsTitles[i]?.bind id).map upper == some (upper t)

def resolve (nsTitles : List (Option Str)) (link : Option Str) : Except Err Nat :=
  match link with
  | none => if nsTitles.length == 1 then .ok 0 else .error .other
  | some t =>
    match (List.range nsTitles.length).filter (titleMatches nsTitles t) with
    | [i] => .ok i
    | _ => .error .other

/-- a data set of namespaces (labels) and blocks (each attached to a namespace index): titles written for the
namespaces, LINK written per block, and the namespace index each block resolves to on reading -/
def writeLinks (suppress : Option Bool) (nsLabels : List Str) (blocks : List Nat) : List (Option Str) × List (Option Str) :=
  if linkBlocks suppress nsLabels.length then
    let ts := assignTitles [] nsLabels
    (ts.map some, blocks.map (fun b => ts[b]?))
  else (nsLabels.map (fun _ => none), blocks.map (fun _ => none))

def readLinks (w : List (Option Str) × List (Option Str)) : List (Except Err Nat) :=
  w.2.map (resolve w.1)

/-- titles of the blocks that carry a label of their own (matrices, tree lists): they are drawn after the namespaces'
titles from the same pool of used titles -/
def blockTitles (nsLabels blockLabels : List Str) : List Str :=
  (assignTitles [] (nsLabels ++ blockLabels)).drop nsLabels.length

/-- the TITLE / LINK tokens as written under `preserve_spaces` / `unquoted_underscores` … -/
def writeLinksE (preserveSpaces unquotedUnderscores : Bool) (suppress : Option Bool) (nsLabels : List Str) (blocks : List Nat) :
    List (Option Str) × List (Option Str) :=
  let w := writeLinks suppress nsLabels blocks
  (w.1.map (Option.map (escToken preserveSpaces (!unquotedUnderscores))),
   w.2.map (Option.map (escToken preserveSpaces (!unquotedUnderscores))))

/-- … and as resolved by a reader with or without `preserve_underscores` -/
def readLinksE (preserveUnderscores : Bool) (w : List (Option Str) × List (Option Str)) : List (Except Err Nat) :=
  readLinks (w.1.map (Option.map (readToken preserveUnderscores)), w.2.map (Option.map (readToken preserveUnderscores)))

end DendroModel.C09
