import DendroModel.Basic.Tree
/-! C03 — tree-level model of the structure-changing operations of `Tree`, `Node` and `Edge`.
Mathlib-free and executable (the driver `drv_c03` runs exactly these definitions).

A tree is the shared rose tree `T`; node identity is the `id` field, so "nothing is shared or cyclic"
is `(ids t).Nodup` (`WF`), everything else of clause (a) is intrinsic to an inductive tree and is tied
to the pointer structure by the heap layer (`Model/C03Heap.lean`).  Every function mirrors the control
flow of the Python routine named in its comment: iteration order, which child survives a collapse,
where a re-inserted child lands, how `None` lengths are merged.

The model follows the repaired code (fix commits of 2026-09-29), which is what the property demands:
* `collapse_unweighted_edges` collapses only *internal* edges (`(None or <= thr) and internal`);
* `to_outgroup_position` puts the outgroup in place first and cleans up afterwards, never dissolving
  the outgroup or the new seed it still holds;
* `randomly_reorient` re-seeds (instead of calling `to_outgroup_position`) when the drawn leaf is the seed;
* the pruning routines hand `suppress_unifurcations` on to `update_bipartitions`; `prune_subtree` also
  removes ancestors left childless; `collapse_basal_bifurcation` merges lengths with `None` as absent. -/
namespace DendroModel.C03
open DendroModel

/-- exception classes the operations document -/
inductive Err where
  | valueError | typeError | seedDeletion
  /-- not an exception of the library: the operation names a node that is not in the tree (or breaks another
  precondition under which the harness issues it); `step` refuses instead of inventing a result -/
  | badInput
deriving DecidableEq, Repr

def Err.render : Err → String
  | .valueError => "ValueError"
  | .typeError => "TypeError"
  | .seedDeletion => "SeedNodeDeletionException"
  | .badInput => "bad-input"

/-- tree + `Tree._is_rooted` -/
structure St where
  t : T
  rooted : Option Bool

/-! ## helpers -/

mutual
/-- node ids in pre-order -/
def ids : T → List Nat
  | .node i _ _ _ cs => i :: idsL cs
def idsL : List T → List Nat
  | [] => []
  | c :: cs => ids c ++ idsL cs
end

/-- clause "nothing is shared or cyclic": no node occurs twice -/
def WF (t : T) : Prop := (ids t).Nodup

def setTaxon : T → Option Nat → T
  | .node i _ l s cs, x => .node i x l s cs

def maxId (t : T) : Nat := (ids t).foldl Nat.max 0

mutual
/-- id of the parent of node `c` -/
def parentOf (c : Nat) : T → Option Nat
  | .node i _ _ _ cs => if cs.any (fun x => x.id == c) then some i else parentOfL c cs
def parentOfL (c : Nat) : List T → Option Nat
  | [] => none
  | x :: xs => match parentOf c x with
    | some p => some p
    | none => parentOfL c xs
end

/-- `a += b` inside a bare `try` (`remove_child`, `_convert_node_to_root_polytomy`):
a `None` on either side raises `TypeError`, which is swallowed, so `a` is unchanged -/
def tryAdd (a b : Option Frac) : Option Frac :=
  match a, b with
  | some x, some y => some (x + y)
  | _, _ => a

/-- child length `a` absorbing the removed parent's length `b` with explicit `None` handling
(`suppress_unifurcations`, `encode_bipartitions`, `Edge.collapse(adjust=True)`) -/
def addLen (a b : Option Frac) : Option Frac :=
  match b with
  | none => a
  | some y => match a with
    | none => some y
    | some x => some (x + y)

/-- `list.insert(idx, x)` for `0 ≤ idx` -/
def insertAt (idx : Nat) (x : T) (l : List T) : List T := l.take idx ++ x :: l.drop idx

mutual
/-- apply `f` to the node with id `p` -/
def modify (p : Nat) (f : T → T) : T → T
  | .node i x l s cs => if i == p then f (.node i x l s cs) else .node i x l s (modifyL p f cs)
def modifyL (p : Nat) (f : T → T) : List T → List T
  | [] => []
  | c :: cs => modify p f c :: modifyL p f cs
end

mutual
/-- replace the non-root node `c` by the list `f c` inside its parent's child list, at its position -/
def splice (c : Nat) (f : T → List T) : T → T
  | .node i x l s cs => .node i x l s (spliceL c f cs)
def spliceL (c : Nat) (f : T → List T) : List T → List T
  | [] => []
  | x :: xs => if x.id == c then f x ++ xs else splice c f x :: spliceL c f xs
end

/-! ## `Node` / `Edge` primitives at tree level -/

/-- `Node.remove_child(node, suppress_unifurcations)` called on `p` (a node of `t`) with `node = c` -/
def removeChild (p c : Nat) (suppress : Bool) (t : T) : Except Err T :=
  if parentOf c t != some p then .error .valueError else
  let t1 := splice c (fun _ => []) t
  if !suppress then .ok t1 else
  if p != t.id then
    -- `self` has a parent: left with one child, it is replaced by that child
    match (t1.find? p).map T.cs with
    | some [child] => .ok (splice p (fun n => [child.withLen (tryAdd child.len n.len)]) t1)
    | _ => .ok t1
  else
    -- `self` is parentless: left with two children, the first internal one is dissolved in place
    match t1.cs with
    | [a, b] =>
      if !a.isLeaf then .ok (t1.withCs (a.cs ++ [b.withLen (tryAdd b.len a.len)]))
      else if !b.isLeaf then .ok (t1.withCs (a.withLen (tryAdd a.len b.len) :: b.cs))
      else .ok t1
    | _ => .ok t1

/-- a fresh leaf -/
def leafNode (i : Nat) (x : Option Nat) (l : Option Frac) : T := .node i x l none []

/-- `Node.add_child(node)` for a detached `node` (a new node, or a subtree removed earlier): appended last -/
def addChild (p : Nat) (sub : T) (t : T) : T := modify p (fun n => n.withCs (n.cs ++ [sub])) t

/-- `Node.insert_child(index, node)` for a detached `node` -/
def insertChild (p idx : Nat) (sub : T) (t : T) : T := modify p (fun n => n.withCs (insertAt idx sub n.cs)) t

/-- `Node.insert_child(index, node)` where `node` is already a child of `p`: moved, unless it is at `index` already -/
def insertMove (p idx c : Nat) (t : T) : T :=
  modify p (fun n =>
    match n.cs.findIdx? (fun x => x.id == c), n.cs.find? (fun x => x.id == c) with
    | some cur, some sub =>
      if cur == idx then n else n.withCs (insertAt idx sub (n.cs.filter (fun x => x.id != c)))
    | _, _ => n) t

/-- `node.parent_node = q` (setter): removed from the old parent's list, appended to the new parent's.
Precondition (checked by `step`): `c` is not the root and `q` is not inside the subtree of `c`. -/
def setParent (c q : Nat) (t : T) : T :=
  match t.find? c with
  | none => t
  | some sub => addChild q sub (splice c (fun _ => []) t)

/-- the children `Edge.collapse` hands to the tail node: with `adjust…=True` each absorbs the collapsed edge's length
(`None` handled explicitly: nothing to add, or taken over) -/
def collapseKids (adjust : Bool) (n : T) : List T :=
  n.cs.map (fun ch => if adjust then ch.withLen (addLen ch.len n.len) else ch)

/-- `Edge.collapse(adjust_collapsed_head_children_edge_lengths)` on the edge subtending `c` -/
def edgeCollapse (c : Nat) (adjust : Bool) (t : T) : Except Err T :=
  if c == t.id then .ok t else
  match t.find? c with
  | none => .ok t
  | some n =>
    if n.cs.isEmpty then .error .valueError else
    .ok (splice c (collapseKids adjust) t)

/-- `Node.collapse_clade()`: the leaves below become the children, in leaf order -/
def collapseClade (c : Nat) (t : T) : T :=
  modify c (fun n => if n.cs.isEmpty then n else n.withCs n.leaves) t

/-! ## clean-up steps -/

mutual
/-- `Tree.suppress_unifurcations` (post-order; the child takes the removed node's place and absorbs its length;
a unary seed is replaced by its child) -/
def sup : T → T
  | .node i x l s cs => match supL cs with
    | [c] => c.withLen (addLen c.len l)
    | cs' => .node i x l s cs'
def supL : List T → List T
  | [] => []
  | c :: cs => sup c :: supL cs
end

/-- `Tree.collapse_basal_bifurcation`: `none` when the routine returns early.  The kept sibling absorbs the
dissolved edge's length with a missing length treated as absent (`None + x = x`, as repaired in the code;
lengths are not part of what the correspondence reports, see the harness). -/
def collapseBasal (t : T) : Option T :=
  match t.cs with
  | [a, b] =>
    if b.cs.length ≥ 2 then some (t.withCs (a.withLen (addLen a.len b.len) :: b.cs))
    else if a.cs.length ≥ 2 then some (t.withCs (a.cs ++ [b.withLen (addLen b.len a.len)]))
    else none
  | _ => none

/-- `collapse_basal_bifurcation(set_as_unrooted_tree)` as a state change -/
def collapseBasalSt (setUnrooted : Bool) (s : St) : St :=
  match collapseBasal s.t with
  | some t' => { t := t', rooted := if setUnrooted then some false else s.rooted }
  | none => s

/-- structural effect of `encode_bipartitions(suppress_unifurcations, collapse_unrooted_basal_bifurcation)`;
also of the `else` branch at the end of `reseed_at` -/
def encodeStruct (suppress collapse : Bool) (s : St) : St :=
  let s1 := if collapse && s.rooted != some true && s.t.cs.length == 2 then collapseBasalSt true s else s
  if suppress then { s1 with t := sup s1.t } else s1

/-! ## re-seeding -/

mutual
/-- the chain of `Edge.invert` calls of `reseed_at`, from the old seed down to `target`.
`acc` = the already inverted upper part (it hangs as the *last* child), `rootLen` = the old seed's edge
length, which travels down the path (each inversion swaps the two lengths). -/
def reseedGo (target : Nat) (rootLen : Option Frac) (acc : List T) : T → Option T
  | .node i x _ s cs =>
    if i == target then some (.node i x rootLen s (cs ++ acc))
    else reseedGoL target rootLen i x s acc [] cs
def reseedGoL (target : Nat) (rootLen : Option Frac) (i : Nat) (x : Option Nat) (s : Option String)
    (acc pre : List T) : List T → Option T
  | [] => none
  | c :: post =>
    match reseedGo target rootLen [.node i x c.len s (pre ++ post ++ acc)] c with
    | some r => some r
    | none => reseedGoL target rootLen i x s acc (pre ++ [c]) post
end

/-- the structure change of `reseed_at` before its clean-up -/
def reseedCore (target : Nat) (suppress : Bool) (t : T) : T :=
  if t.id == target then t else
  match t.find? target with
  | none => t
  | some n =>
    match reseedGo target t.len [] t with
    | none => t
    | some t1 =>
      -- a leaf target: the node that is now its only child is dissolved (its edge length is dropped)
      if n.cs.isEmpty && suppress then
        match t1.cs with
        | [c] => t1.withCs c.cs
        | _ => t1
      else t1

/-- `Tree.reseed_at(new_seed_node, update_bipartitions, collapse_unrooted_basal_bifurcation, suppress_unifurcations)`;
both settings of `update_bipartitions` have the same structural effect -/
def reseedAt (target : Nat) (collapse suppress : Bool) (s : St) : St :=
  encodeStruct suppress collapse { s with t := reseedCore target suppress s.t }

/-- `Tree.reroot_at_node` -/
def rerootAtNode (target : Nat) (ub suppress collapse : Bool) (s : St) : St :=
  let s1 := reseedAt target false suppress s
  let s2 : St := { s1 with rooted := some true }
  if ub then encodeStruct suppress collapse s2 else s2

/-- `Tree.reroot_at_edge(edge, length1, length2, …)`, `edge` subtending the non-root node `head`; `fresh` = id of the new node -/
def rerootAtEdge (head fresh : Nat) (l1 l2 : Option Frac) (ub suppress : Bool) (s : St) : St :=
  match parentOf head s.t, s.t.find? head with
  | some tail, some sub =>
    -- `old_tail.new_child(length1)` (appended last), `old_tail.remove_child(old_head)`, `new.add_child(old_head)`
    let t1 := addChild tail (.node fresh none l1 none [sub.withLen l2]) (splice head (fun _ => []) s.t)
    rerootAtNode fresh ub suppress true { s with t := t1 }
  | _, _ => s

/-- `p.remove_child(outgroup_node); p.insert_child(0, outgroup_node)` on the seed `p` -/
def moveFront (og : Nat) (t : T) : T :=
  match t.cs.find? (fun x => x.id == og) with
  | some sub => t.withCs (sub :: t.cs.filter (fun x => x.id != og))
  | none => t

/-- `Tree.to_outgroup_position(outgroup_node, update_bipartitions, suppress_unifurcations)` — repaired order:
invert to the outgroup's parent, move the outgroup to the front, then collapse the basal bifurcation of an
unrooted tree only if that dissolves the *sibling*, then suppress unifurcations. -/
def toOutgroup (og : Nat) (suppress : Bool) (s : St) : St :=
  match parentOf og s.t with
  | none => s
  | some p =>
    let t2 := moveFront og (reseedCore p false s.t)
    let s2 : St := { s with t := t2 }
    let s3 := match t2.cs with
      | [_, b] => if s.rooted != some true && b.cs.length ≥ 2 then collapseBasalSt true s2 else s2
      | _ => s2
    if suppress then { s3 with t := sup s3.t } else s3

/-! ## root polytomy -/

/-- one round of `Node._convert_node_to_root_polytomy` -/
def polyStep (t : T) : Option T :=
  match t.cs with
  | [l] => if !l.isLeaf then some ((t.withLen (tryAdd t.len l.len)).withCs l.cs) else none
  | [l, r] =>
    if !r.isLeaf then some (t.withCs (l.withLen (tryAdd l.len r.len) :: r.cs))
    else if !l.isLeaf then some (t.withCs (r.withLen (tryAdd r.len l.len) :: l.cs))
    else none
  | _ => none

/-- `Tree.polytomize_root` (the recursion removes one node per round) -/
def polytomize : Nat → T → T
  | 0, t => t
  | f + 1, t => match polyStep t with
    | some t' => polytomize f t'
    | none => t

/-! ## collapsing, resolving -/

def unweighted (thr : Frac) (c : T) : Bool :=
  !c.cs.isEmpty && (match c.len with | none => true | some l => l.le thr)

mutual
/-- `Tree.collapse_unweighted_edges(threshold)` (post-order over edges; the root edge is never collapsed) -/
def cu (thr : Frac) : T → T
  | .node i x l s cs => .node i x l s (cuL thr cs)
def cuL (thr : Frac) : List T → List T
  | [] => []
  | c :: cs =>
    (if unweighted thr (cu thr c) then (cu thr c).cs else [cu thr c]) ++ cuL thr cs
end

/-- the deterministic loop of `resolve_polytomies` on one node: join the first two children under a new
node of length 0, appended last, while there are more than `limit` children -/
def joinLoop (limit : Nat) : Nat → List T → Nat → List T × Nat
  | 0, cs, k => (cs, k)
  | f + 1, cs, k =>
    if cs.length > limit then
      match cs with
      | c1 :: c2 :: rest => joinLoop limit f (rest ++ [.node k none (some Frac.zero) none [c1, c2]]) (k + 1)
      | _ => (cs, k)
    else (cs, k)

mutual
/-- `Tree.resolve_polytomies(limit, rng=None)`; `k` = next fresh id -/
def rp (limit : Nat) : T → Nat → T × Nat
  | .node i x l s cs, k =>
    let r := rpL limit cs k
    let j := joinLoop limit r.1.length r.1 r.2
    (.node i x l s j.1, j.2)
def rpL (limit : Nat) : List T → Nat → List T × Nat
  | [], k => ([], k)
  | c :: cs, k =>
    let a := rp limit c k
    let b := rpL limit cs a.2
    (a.1 :: b.1, b.2)
end

/-! ### `resolve_polytomies(rng=…)` under a scripted rng

Script semantics (the harness class `ResolveRng` implements exactly this): the script is a list of naturals consumed
left to right over the whole operation; an exhausted script yields 0.
* `rng.sample(pool, m)`: `m` successive draws without replacement; one draw takes the next script value `r` and removes
  the element at position `r % len(pool)` from the (shrinking) pool; the result lists the drawn elements in draw order.
* `rng.choice(seq)`: `seq[r % len(seq)]` with the next script value `r`. -/

/-- the element at position `j` and the list without it (the others keep their order) -/
def pickAt : Nat → List T → Option (T × List T)
  | _, [] => none
  | 0, x :: xs => some (x, xs)
  | j + 1, x :: xs => match pickAt j xs with
    | some r => some (r.1, x :: r.2)
    | none => none

/-- scripted `rng.sample(pool, m)`: (drawn elements in draw order, the pool without them, remaining script) -/
def sampleS : Nat → List T → List Nat → List T × List T × List Nat
  | 0, pool, sc => ([], pool, sc)
  | m + 1, pool, sc =>
    match pickAt (sc.headD 0 % pool.length) pool with
    | none => ([], pool, sc)          -- empty pool: does not occur (`m + 1 ≤ len(pool)`)
    | some (x, rest) =>
      let r := sampleS m rest sc.tail
      (x :: r.1, r.2.1, r.2.2)

/-- one round of the `while len(to_attach) > 0` loop on the polytomy node `n` (a subtree): `next_child = nc` is joined
with the attachment point `sib` under the new node `k` (length 0).
* `next_sib is node`: the new node takes over all current children of `n`; `n` keeps `[new, next_child]`.
* otherwise: `p = next_sib._parent_node; p.add_child(new)` (appended last), `p.remove_child(next_sib)`,
  `new.add_child(next_sib); new.add_child(next_child)`.
Every attachment point is `n` itself or a node below it, so on a tree without shared nodes the last branch is not
taken; it joins at `n`, so that nothing is dropped on inputs outside that domain. -/
def attachStep (n : T) (sib k : Nat) (nc : T) : T :=
  if sib == n.id then n.withCs [.node k none (some Frac.zero) none n.cs, nc] else
  match parentOf sib n, n.find? sib with
  | some p, some sub => addChild p (.node k none (some Frac.zero) none [sub, nc]) (splice sib (fun _ => []) n)
  | _, _ => n.withCs [.node k none (some Frac.zero) none n.cs, nc]

/-- the `while len(to_attach) > 0` loop: `todo` = `to_attach` in the order of the `pop()`s (last drawn first),
`pts` = `attachment_points` (node ids), `k` = next fresh id, `sc` = remaining script -/
def attachLoop : T → List T → List Nat → Nat → List Nat → T × Nat × List Nat
  | n, [], _, k, sc => (n, k, sc)
  | n, nc :: todo, pts, k, sc =>
    let sib := pts.getD (sc.headD 0 % pts.length) n.id
    attachLoop (attachStep n sib k nc) todo (pts ++ [k, nc.id]) (k + 1) sc.tail

mutual
/-- `Tree.resolve_polytomies(limit, rng=<scripted rng>)`; `k` = next fresh id, `sc` = remaining script.  The polytomies
are collected in post-order before anything changes and resolving a node changes no child list outside the new nodes
and the node itself, so the bottom-up recursion visits them in the code's order: children left to right, then the
node.  `to_attach = rng.sample(children, len - limit)`; each drawn child is removed from the node;
`attachment_points = remaining children + [node]`; then the loop above. -/
def rpr (limit : Nat) : T → Nat → List Nat → T × Nat × List Nat
  | .node i x l s cs, k, sc =>
    let r := rprL limit cs k sc
    if r.1.length > limit then
      let sm := sampleS (r.1.length - limit) r.1 r.2.2
      attachLoop (.node i x l s sm.2.1) sm.1.reverse (sm.2.1.map T.id ++ [i]) r.2.1 sm.2.2
    else (.node i x l s r.1, r.2.1, r.2.2)
def rprL (limit : Nat) : List T → Nat → List Nat → List T × Nat × List Nat
  | [], k, sc => ([], k, sc)
  | c :: cs, k, sc =>
    let a := rpr limit c k sc
    let b := rprL limit cs a.2.1 a.2.2
    (a.1 :: b.1, b.2.1, b.2.2)
end

/-! ## pruning -/

mutual
/-- one pass of leaf removal: every *current* leaf (other than the root) failing `keep` is removed -/
def dropLeaves (keep : T → Bool) : T → T
  | .node i x l s cs => .node i x l s (dropLeavesL keep cs)
def dropLeavesL (keep : T → Bool) : List T → List T
  | [] => []
  | c :: cs =>
    (if c.cs.isEmpty then (if keep c then [c] else []) else [dropLeaves keep c]) ++ dropLeavesL keep cs
end

/-- repeat `dropLeaves` until nothing is removed (`recursive=True`) -/
def dropLeavesFix (keep : T → Bool) : Nat → T → T
  | 0, t => t
  | f + 1, t =>
    let t' := dropLeaves keep t
    if t'.size == t.size then t else dropLeavesFix keep f t'

/-- `prune_taxa`'s test on a node when it is yielded: it is a leaf by now (`c'` = the node after its children were
processed) and its taxon is among those to prune -/
def ptDrop (bad : Nat → Bool) (c c' : T) : Bool :=
  c'.cs.isEmpty && (match c.taxon with | some k => bad k | none => false)

mutual
/-- first loop of `prune_taxa` (post-order; a node is tested when it is yielded, i.e. after its children were removed) -/
def pt (bad : Nat → Bool) : T → T
  | .node i x l s cs => .node i x l s (ptL bad cs)
def ptL (bad : Nat → Bool) : List T → List T
  | [] => []
  | c :: cs =>
    (if ptDrop bad c (pt bad c) then [] else [pt bad c]) ++ ptL bad cs
end

/-- tail shared by the pruning routines: `suppress_unifurcations()` if asked, then
`update_bipartitions(suppress_unifurcations=suppress_unifurcations)` if asked (the caller's setting is passed on;
the basal-bifurcation collapse keeps its default) -/
def finish (suppress ub : Bool) (s : St) : St :=
  let s1 : St := if suppress then { s with t := sup s.t } else s
  if ub then encodeStruct suppress true s1 else s1

/-- `prune_leaves_without_taxa(recursive, update_bipartitions, suppress_unifurcations)` -/
def pruneNoTaxa (recursive ub suppress : Bool) (s : St) : St :=
  let keep := fun (c : T) => c.taxon.isSome
  let t1 := if recursive then dropLeavesFix keep s.t.size s.t else dropLeaves keep s.t
  finish suppress ub { s with t := t1 }

/-- `prune_taxa(taxa, update_bipartitions, suppress_unifurcations)` -/
def pruneTaxa (bad : Nat → Bool) (ub suppress : Bool) (s : St) : St :=
  pruneNoTaxa true ub suppress { s with t := pt bad s.t }

/-- `filter_leaf_nodes(filter_fn, recursive, update_bipartitions, suppress_unifurcations)`, `filter_fn` = membership in `keepIds` -/
def filterLeaves (keepIds : List Nat) (recursive ub suppress : Bool) (s : St) : Except Err St :=
  let keep := fun (c : T) => keepIds.contains c.id
  let rec loop : Nat → T → Except Err T
    | 0, t => .ok t
    | f + 1, t =>
      if t.cs.isEmpty then (if keep t then .ok t else .error .seedDeletion) else
      let t' := dropLeaves keep t
      if t'.size == t.size || !recursive then .ok t' else loop f t'
  match loop (s.t.size + 1) s.t with
  | .error e => .error e
  | .ok t1 => .ok (finish suppress ub { s with t := t1 })

/-- the removal loop of `prune_subtree`: detach `c`, then every ancestor (short of the seed) left without a child -/
def pruneUp : Nat → Nat → T → T
  | 0, c, t => splice c (fun _ => []) t
  | f + 1, c, t =>
    match parentOf c t with
    | none => t
    | some p =>
      let t1 := splice c (fun _ => []) t
      match t1.find? p with
      | some n => if n.cs.isEmpty && p != t.id then pruneUp f p t1 else t1
      | none => t1

/-- `prune_subtree(node, update_bipartitions, suppress_unifurcations)` -/
def pruneSubtree (c : Nat) (ub suppress : Bool) (s : St) : Except Err St :=
  if c == s.t.id then .error .typeError else
  .ok (finish suppress ub { s with t := pruneUp s.t.size c s.t })

/-! ## re-ordering -/

/-- stable insertion: `x` goes before the first `y` with `le x y` (so equal keys keep their order) -/
def insertBy (le : T → T → Bool) (x : T) : List T → List T
  | [] => [x]
  | y :: ys => if le x y then x :: y :: ys else y :: insertBy le x ys

def sortBy (le : T → T → Bool) (l : List T) : List T := l.foldr (insertBy le) []

mutual
/-- sort the children of every node (`ladderize`: post-order, `reorder`: pre-order — the keys do not depend on child order) -/
def sortAll (le : T → T → Bool) : T → T
  | .node i x l s cs => .node i x l s (sortBy le (sortAllL le cs))
def sortAllL (le : T → T → Bool) : List T → List T
  | [] => []
  | c :: cs => sortAll le c :: sortAllL le cs
end

/-- `Tree.ladderize(ascending)`: key = number of descendants (= size − 1) -/
def ladderize (asc : Bool) (t : T) : T :=
  sortAll (fun a b => if asc then a.size ≤ b.size else b.size ≤ a.size) t

def keyLe : Option Nat → Option Nat → Bool
  | none, _ => true
  | some _, none => false
  | some a, some b => a ≤ b

/-- `Tree.reorder()`: key = taxon label, missing taxon = empty string (the harness names taxa so that label
order is accession order) -/
def reorder (t : T) : T := sortAll (fun a b => keyLe a.taxon b.taxon) t

mutual
/-- `randomly_rotate` under a scripted `rng.shuffle` (`mode` 0: reverse, 1: rotate left by one, else identity);
`set_child_nodes` re-adds the children in the shuffled order -/
def rotate (mode : Nat) : T → T
  | .node i x l s cs =>
    let cs' := rotateL mode cs
    .node i x l s (if mode == 0 then cs'.reverse else if mode == 1 then cs'.drop 1 ++ cs'.take 1 else cs')
def rotateL (mode : Nat) : List T → List T
  | [] => []
  | c :: cs => rotate mode c :: rotateL mode cs
end

/-! ## taxon shuffling -/

/-- the draw loop of `shuffle_taxa`: swap a scripted index to the end, pop it -/
def drawTaxa : List Nat → List Nat → List Nat
  | [], _ => []
  | _ :: _, [] => []
  | r :: rs, x :: pool =>
    let pool := x :: pool
    let n := pool.length
    let j := r % n
    let last := pool.getLast!
    let pick := pool[j]!
    -- node_taxa[-1], node_taxa[j] = node_taxa[j], node_taxa[-1]; pop()
    let pool' := (pool.set j last).dropLast
    pick :: drawTaxa rs pool'

mutual
/-- hand the taxa of `new` to the taxon-bearing leaves, left to right -/
def assignTaxa : T → List Nat → T × List Nat
  | .node i x l s [], new =>
    match x, new with
    | some _, y :: rest => (.node i (some y) l s [], rest)
    | _, _ => (.node i x l s [], new)
  | .node i x l s (c :: cs), new =>
    let r := assignTaxaL (c :: cs) new
    (.node i x l s r.1, r.2)
def assignTaxaL : List T → List Nat → List T × List Nat
  | [], new => ([], new)
  | c :: cs, new =>
    let a := assignTaxa c new
    let b := assignTaxaL cs a.2
    (a.1 :: b.1, b.2)
end

/-- `Tree.shuffle_taxa(rng)` with scripted `rng.randrange` values `rs` -/
def shuffleTaxa (rs : List Nat) (t : T) : T :=
  let cur := t.leaves.filterMap T.taxon
  -- one draw per taxon-bearing leaf; missing script values count as 0
  let rs' := (List.range cur.length).map (fun k => rs.getD k 0)
  (assignTaxa t (drawTaxa rs' cur)).1

/-! ## the operation alphabet and histories -/

inductive Op where
  | removeChild (p c : Nat) (suppress : Bool)
  | newChild (p : Nat) (taxon : Option Nat) (len : Option Frac)
  | insertNewChild (p idx : Nat) (taxon : Option Nat) (len : Option Frac)
  | addSub (p : Nat) (sub : T)
  | insertSub (p idx : Nat) (sub : T)
  | insertMove (p idx c : Nat)
  | setParent (c q : Nat)
  | edgeCollapse (c : Nat) (adjust : Bool)
  | collapseClade (c : Nat)
  | reseedAt (target : Nat) (collapse suppress : Bool)
  | rerootAtNode (target : Nat) (ub suppress collapse : Bool)
  | rerootAtEdge (head : Nat) (l1 l2 : Option Frac) (ub suppress : Bool)
  | toOutgroup (og : Nat) (suppress : Bool)
  | suppressUnif
  | collapseBasal (setUnrooted : Bool)
  | polytomize (setUnrooted : Bool)
  | collapseUnweighted (thr : Frac) (ub : Bool)
  | resolve (limit : Nat) (ub : Bool)
  | resolveRng (limit : Nat) (ub : Bool) (script : List Nat)
  | pruneSubtree (c : Nat) (ub suppress : Bool)
  | filterLeaves (keep : List Nat) (recursive ub suppress : Bool)
  | pruneNoTaxa (recursive ub suppress : Bool)
  | pruneTaxa (bits : List Nat) (ub suppress : Bool)
  | retainTaxa (bits : List Nat) (ub suppress : Bool)
  | ladderize (asc : Bool)
  | reorder
  | rotate (mode : Nat)
  | shuffleTaxa (rs : List Nat)
  | encode (suppress collapse : Bool)
  | reorient (k mode : Nat)
  | setSeed (n : Nat)

mutual
def containsId (x : Nat) : T → Bool
  | .node i _ _ _ cs => i == x || containsIdL x cs
def containsIdL (x : Nat) : List T → Bool
  | [] => false
  | c :: cs => containsId x c || containsIdL x cs
end

mutual
def shiftIds (k : Nat) : T → T
  | .node i x l s cs => .node (i + k) x l s (shiftIdsL k cs)
def shiftIdsL (k : Nat) : List T → List T
  | [] => []
  | c :: cs => shiftIds k c :: shiftIdsL k cs
end

/-- one operation on a state.  `.error` = the documented exception; the state is then left as it was
(`run` keeps it).  Target ids that do not name a node of the tree, and the other preconditions under which the
harness issues an operation, are refused with `badInput` — never answered with an unchanged tree. -/
def step (s : St) : Op → Except Err St
  | .removeChild p c sup =>
    if !containsId p s.t then .error .badInput else
    match removeChild p c sup s.t with
    | .ok t => .ok { s with t := t }
    | .error e => .error e
  | .newChild p x l =>
    if !containsId p s.t then .error .badInput else
    .ok { s with t := addChild p (leafNode (maxId s.t + 1) x l) s.t }
  | .insertNewChild p idx x l =>
    if !containsId p s.t then .error .badInput else
    .ok { s with t := insertChild p idx (leafNode (maxId s.t + 1) x l) s.t }
  | .addSub p sub =>
    if !containsId p s.t then .error .badInput else
    .ok { s with t := addChild p (shiftIds (maxId s.t + 1) sub) s.t }
  | .insertSub p idx sub =>
    if !containsId p s.t then .error .badInput else
    .ok { s with t := insertChild p idx (shiftIds (maxId s.t + 1) sub) s.t }
  | .insertMove p idx c =>
    if parentOf c s.t != some p then .error .badInput else .ok { s with t := insertMove p idx c s.t }
  | .setParent c q =>
    match s.t.find? c with
    | none => .error .badInput
    | some sub =>
      if c == s.t.id || containsId q sub || !containsId q s.t then .error .badInput
      else .ok { s with t := setParent c q s.t }
  | .edgeCollapse c adj =>
    if !containsId c s.t then .error .badInput else
    match edgeCollapse c adj s.t with
    | .ok t => .ok { s with t := t }
    | .error e => .error e
  | .collapseClade c =>
    if !containsId c s.t then .error .badInput else .ok { s with t := collapseClade c s.t }
  | .reseedAt target collapse sup =>
    if !containsId target s.t then .error .badInput else .ok (reseedAt target collapse sup s)
  | .rerootAtNode target ub sup collapse =>
    if !containsId target s.t then .error .badInput else .ok (rerootAtNode target ub sup collapse s)
  | .rerootAtEdge head l1 l2 ub sup =>
    if (parentOf head s.t).isNone || head == s.t.id then .error .badInput
    else .ok (rerootAtEdge head (maxId s.t + 1) l1 l2 ub sup s)
  | .toOutgroup og sup =>
    if (parentOf og s.t).isNone then .error .badInput else .ok (toOutgroup og sup s)
  | .suppressUnif => .ok { s with t := sup s.t }
  | .collapseBasal su => .ok (collapseBasalSt su s)
  | .polytomize su =>
    .ok { t := polytomize s.t.size s.t, rooted := if su then some false else s.rooted }
  | .collapseUnweighted thr ub =>
    let s1 : St := { s with t := cu thr s.t }
    .ok (if ub then encodeStruct true true s1 else s1)
  | .resolve limit ub =>
    if limit < 2 then .error .badInput else
    let s1 : St := { s with t := (rp limit s.t (maxId s.t + 1)).1 }
    .ok (if ub then encodeStruct true true s1 else s1)
  | .resolveRng limit ub script =>
    if limit < 2 then .error .badInput else
    let s1 : St := { s with t := (rpr limit s.t (maxId s.t + 1) script).1 }
    .ok (if ub then encodeStruct true true s1 else s1)
  | .pruneSubtree c ub sup =>
    if !containsId c s.t then .error .badInput else pruneSubtree c ub sup s
  | .filterLeaves keep recursive ub sup => filterLeaves keep recursive ub sup s
  | .pruneNoTaxa recursive ub sup => .ok (pruneNoTaxa recursive ub sup s)
  | .pruneTaxa bits ub sup => .ok (pruneTaxa (fun k => bits.contains k) ub sup s)
  | .retainTaxa bits ub sup => .ok (pruneTaxa (fun k => !bits.contains k) ub sup s)
  | .ladderize asc => .ok { s with t := ladderize asc s.t }
  | .reorder => .ok { s with t := reorder s.t }
  | .rotate mode => .ok { s with t := rotate mode s.t }
  | .shuffleTaxa rs => .ok { s with t := shuffleTaxa rs s.t }
  | .encode sup collapse => .ok (encodeStruct sup collapse s)
  | .setSeed n =>
    -- `tree.seed_node = node` (the managed setter): the node is spliced out of its context and becomes the tree;
    -- what is left of the old tree is no longer part of it
    match s.t.find? n with
    | none => .error .badInput
    | some sub => .ok { s with t := sub }
  | .reorient k mode =>
    -- `randomly_reorient` under a scripted rng: `sample(nodes(), 1)` yields the k-th node in pre-order
    match s.t.find? k with
    | none => .error .badInput
    | some n =>
      let s1 := if n.cs.isEmpty && k != s.t.id then toOutgroup k true s else reseedAt k true true s
      .ok { s1 with t := rotate mode s1.t }

/-- a history: an operation that raises leaves the state as it was -/
def run : List Op → St → St
  | [], s => s
  | op :: ops, s => match step s op with
    | .ok s' => run ops s'
    | .error _ => run ops s

/-! ## the state an operation leaves behind when it raises -/

/-- the tree `filter_leaf_nodes` has reached when its loop stops, normally or by raising (the loop of `filterLeaves`,
returning the tree it holds instead of the verdict): when the seed turns out to be a leaf the filter rejects, the
passes made before have already removed nodes — the one operation of the alphabet that raises after its first write -/
def filterLast (keepIds : List Nat) (recursive : Bool) : Nat → T → T
  | 0, t => t
  | f + 1, t =>
    if t.cs.isEmpty then t else
    let t' := dropLeaves (fun c => keepIds.contains c.id) t
    if t'.size == t.size || !recursive then t' else filterLast keepIds recursive f t'

/-- the state `op` leaves behind WHEN IT RAISES its documented error: every operation checks its arguments before its first
write (`remove_child`: "not listed as a child"; `Edge.collapse`: terminal edge; `prune_subtree`: node without parent), so the
state is as it was — except `filter_leaf_nodes`, which raises `SeedNodeDeletionException` only after the earlier passes of
its loop have emptied the tree down to the seed -/
def errState (s : St) : Op → St
  | .filterLeaves keep recursive _ _ => { s with t := filterLast keep recursive (s.t.size + 1) s.t }
  | _ => s

/-- a history with the states raising operations really leave (`run` with `errState` in place of "as it was") -/
def runE : List Op → St → St
  | [], s => s
  | op :: ops, s => match step s op with
    | .ok s' => runE ops s'
    | .error _ => runE ops (errState s op)

/-- multiset of leaf taxa (sorted list with repeats) -/
def leafTaxa (t : T) : List Nat := sortNat (t.leaves.filterMap T.taxon)

end DendroModel.C03
