import DendroModel.Model.C15Ext
/-! C15 — `postorder_iter` (and `leaf_iter`, which is `postorder_iter` under `is_leaf`) one `next()` at a time over the
mutable heap of `Model/C15Ext.lean`: the state a suspended post-order generator keeps after partial consumption.
Mathlib-free and executable (the driver runs these in kind `gensched` as generator letters `o` and `f`). -/
namespace DendroModel.C15
open DendroModel

/-- the loop of `postorder_iter` up to the next `yield`: the private list is the stack of `(node, state)` pairs, head =
top, a pair encoded as `2 * node + (1 if state else 0)`.  `node, state = stack.pop()`; `state` true: yield `node` when
`want node` (the filter handed to `postorder_iter`; `leaf_iter` hands `is_leaf`), else go on; `state` false: push
`(node, True)` and the children (first child on top).  `fuel` bounds the pops of one `next()` (every pop without a yield
either expands a node for the first time or skips one filtered node, so `2 * #nodes + 1` suffice) -/
def poLoop (want : Heap → Nat → Bool) : Nat → Heap → Nat → Heap × LvSt × Option Nat
  | 0, h, q => (h, ⟨q, .done⟩, none)
  | f + 1, h, q =>
    match h.priv q with
    | [] => (h, ⟨q, .done⟩, none)
    | e :: rest =>
      if e % 2 == 1 then
        (if want h (e / 2) then (h.setPriv q rest, ⟨q, .popped (e / 2)⟩, some (e / 2))
         else poLoop want f (h.setPriv q rest) q)
      else poLoop want f (h.setPriv q ((h.kids (e / 2)).map (fun c => 2 * c) ++ (2 * (e / 2) + 1) :: rest)) q

/-- one `next()` of a post-order generator: `stack = [(self, False)]` on the first call, then the loop -/
def poNextW (want : Heap → Nat → Bool) (fuel : Nat) (h : Heap) (s : LvSt) : Heap × LvSt × Option Nat :=
  match s.pc with
  | .init self => poLoop want fuel (h.setPriv s.q [2 * self]) s.q
  | .started self => poLoop want fuel (h.setPriv s.q [2 * self]) s.q
  | .popped _ => poLoop want fuel h s.q
  | .done => (h, s, none)

/-- `postorder_iter()` without a filter -/
def poNext (fuel : Nat) : Heap → LvSt → Heap × LvSt × Option Nat := poNextW (fun _ _ => true) fuel
/-- `leaf_iter()` without a filter: `postorder_iter(lambda x: x.is_leaf() or None)` — the test reads the node's child list -/
def lfNext (fuel : Nat) : Heap → LvSt → Heap × LvSt × Option Nat := poNextW (fun h n => (h.kids n).isEmpty) fuel

end DendroModel.C15
