/-! C13 — executable model of the tree-reading routes (Mathlib-free).

The document is an *abstract token stream*: the list of tokens the real `NexusTokenizer` produces, each with
its quoted flag, the comments captured while it was read and whether the character cursor stood at end of
input afterwards, plus the comments captured when the stream runs dry.  On top of it:

* one shared tree-statement parser (`NewickReader._parse_tree_statement`, `_process_tree_comments`,
  `_parse_tree_node_description`) = `newickStmt`;
* the shared NEXUS statement parsers (`_parse_taxa_block`, `_parse_title_statement`, `_parse_link_statement`,
  `_parse_translate_statement`, `_parse_tree_statement`, `_consume_to_end_of_block`) on `Core`;
* SEPARATE models of the block-level front ends, as the code has them:
  `NewickReader._read/tree_iter` (`newickRead`) vs `NewickTreeDataYielder._yield_items_from_stream` (`newickYield`),
  `NexusReader._parse_nexus_stream/_parse_trees_block` (`nexusRead`/`treesBlockR`, generic in the tree-list
  factory = `Sink`) vs `NexusTreeDataYielder._yield_items_from_stream/_yield_from_trees_block`
  (`nexusYield`/`treesBlockY`);
* the offset selection of `Tree._parse_and_create_from_stream` (`treeGet`) and
  `TreeList._parse_and_create_from_stream` (`listGet`, also the incremental `TreeList.read`), `DataSet` (`datasetGet`).

Loops are well-founded recursions on the number of unread tokens; where progress of a loop body is not
syntactically evident the loop re-checks it at run time and answers `Err.stuck` otherwise (never observed;
a `stuck` answer would show up as a disagreement with the implementation). -/
namespace DendroModel.C13

/-! ### tokens and tokenizer state -/

structure Tok where
  text : String
  quoted : Bool
  coms : List String
  eof : Bool
deriving Repr, BEq, Inhabited

/-- observable state of `NexusTokenizer` -/
structure TS where
  rest : List Tok
  tail : List String
  cur : Option String := none
  quoted : Bool := false
  cap : List String := []
  eof : Bool := false
deriving Repr, Inhabited

inductive Err where
  | parse | index | value | stuck
  /-- `TypeError` of the source-keyword check, `MixedRootingError` of a tree array, `IOError` of a path that cannot be opened -/
  | type | mixed | io
deriving Repr, BEq, DecidableEq, Inhabited

/-- `Tokenizer.__next__`: `false` = StopIteration -/
def TS.step (s : TS) : Bool × TS :=
  match s.rest with
  | t :: r => (true, { s with rest := r, cur := some t.text, quoted := t.quoted, cap := s.cap ++ t.coms, eof := t.eof })
  | [] => (false, { s with quoted := false, cap := s.cap ++ s.tail, tail := [], eof := true })

/-- `next_token` -/
def TS.next (s : TS) : TS :=
  let r := s.step
  if r.1 then r.2 else { r.2 with cur := none }

/-- `next_token_ucase` -/
def TS.nextU (s : TS) : TS :=
  let r := s.step
  if r.1 then { r.2 with cur := r.2.cur.map String.toUpper } else { r.2 with cur := none }

/-- `require_next_token` -/
def TS.req (s : TS) : Except Err TS :=
  let r := s.step
  if r.1 then .ok r.2 else .error .parse

/-- `cast_current_token_to_ucase` -/
def TS.castU (s : TS) : TS := { s with cur := s.cur.map String.toUpper }

/-- `NewickReader._is_punctuation`: the current token is the structural character `ch`; a quoted token is a label -/
def TS.isP (s : TS) (ch : String) : Bool := s.cur == some ch && !s.quoted

/-- `pull_captured_comments` (None and [] are not distinguished by any caller) -/
def TS.pull (s : TS) : List String × TS := (s.cap, { s with cap := [] })
def TS.clear (s : TS) : TS := { s with cap := [] }
@[simp] theorem TS.clear_rest (s : TS) : s.clear.rest = s.rest := rfl
@[simp] theorem TS.clear_cur (s : TS) : s.clear.cur = s.cur := rfl
@[simp] theorem TS.clear_eof (s : TS) : s.clear.eof = s.eof := rfl
@[simp] theorem TS.castU_rest (s : TS) : s.castU.rest = s.rest := rfl

theorem TS.next_rest (s : TS) : s.next.rest = s.rest.tail := by
  unfold TS.next TS.step; cases s.rest <;> simp
theorem TS.nextU_rest (s : TS) : s.nextU.rest = s.rest.tail := by
  unfold TS.nextU TS.step; cases s.rest <;> simp
theorem TS.next_lt (s : TS) (h : s.rest ≠ []) : s.next.rest.length < s.rest.length := by
  rw [TS.next_rest]; cases hr : s.rest with
  | nil => exact absurd hr h
  | cons a b => simp
theorem TS.nextU_lt (s : TS) (h : s.rest ≠ []) : s.nextU.rest.length < s.rest.length := by
  rw [TS.nextU_rest]; cases hr : s.rest with
  | nil => exact absurd hr h
  | cons a b => simp
theorem TS.req_lt (s s' : TS) (h : s.req = .ok s') : s'.rest.length < s.rest.length := by
  unfold TS.req TS.step at h
  cases hr : s.rest with
  | nil => simp [hr] at h
  | cons a b => simp [hr] at h; subst h; simp

/-- `skip_to_semicolon` -/
def skipSemi (s : TS) : TS :=
  if h : s.rest = [] then s.next
  else
    let s' := s.next
    if s'.cur == some ";" || s'.eof then s' else skipSemi s'
termination_by s.rest.length
decreasing_by exact TS.next_lt s h

/-! ### trees -/

inductive Node where
  | mk (taxon : Option Nat) (label : Option String) (len : Option String) (coms : List String) (cs : List Node)
deriving Repr, Inhabited

/-- weight: `none` not stored, `some none` the default weight, `some (some e)` the expression after `&W` -/
structure Tree where
  name : Option String
  rooted : Option Bool
  weight : Option (Option String)
  coms : List String
  root : Node
deriving Repr, Inhabited

inductive Rooting where
  | none | forceU | forceR | defU | defR
deriving Repr, BEq, DecidableEq

structure Cfg where
  rooting : Rooting := .none
  storeWeights : Bool := false
  suppressInternalTaxa : Bool := true
  suppressLeafTaxa : Bool := false
  suppressLengths : Bool := false
deriving Repr

/-- settings of the block-level front ends (not seen by the tree-statement parser) -/
structure Flags where
  /-- `exclude_chars`: CHARACTERS/DATA/SETS blocks are skipped, not parsed -/
  excludeChars : Bool := true
  /-- `attached_taxon_namespace is not None` -/
  attached : Bool := false
deriving Repr

/-! ### taxon namespace and `NexusTaxonSymbolMapper` -/

def lookupCI (k : String) : List (String × Nat) → Option Nat
  | [] => none
  | (a, v) :: r => if a == k.toLower then some v else lookupCI k r

def lookupEx (k : String) : List (String × Nat) → Option Nat
  | [] => none
  | (a, v) :: r => if a == k then some v else lookupEx k r

/-- first member whose label matches case-insensitively (`TaxonNamespace.get_taxon`) -/
def nsFind (label : String) (ns : List String) : Option Nat :=
  let rec go (i : Nat) : List String → Option Nat
    | [] => none
    | a :: r => if a.toLower == label.toLower then some i else go (i + 1) r
  go 0 ns

structure Mapper where
  tokens : List (String × Nat)
  labels : List (String × Nat)
  numbers : List (String × Nat)
  byNumber : Bool
deriving Repr, Inhabited

def enumFrom {α} (i : Nat) : List α → List (Nat × α)
  | [] => []
  | a :: r => (i, a) :: enumFrom (i + 1) r

/-- `reset_supplemental_mappings`: later duplicates overwrite earlier ones, hence the reversal -/
def Mapper.new (ns : List String) (byNumber : Bool) : Mapper :=
  { tokens := []
    labels := ((enumFrom 0 ns).map fun p => (p.2.toLower, p.1)).reverse
    numbers := (enumFrom 0 ns).map fun p => (toString (p.1 + 1), p.1)
    byNumber := byNumber }

/-- `require_taxon_for_symbol`: translate token, then label, then number, else a new taxon -/
def Mapper.require (m : Mapper) (ns : List String) (sym : String) : Nat × Mapper × List String :=
  match lookupCI sym m.tokens with
  | some t => (t, m, ns)
  | none =>
    match lookupCI sym m.labels with
    | some t => (t, m, ns)
    | none =>
      match (if m.byNumber then lookupEx sym m.numbers else none) with
      | some t => (t, m, ns)
      | none =>
        let t := ns.length
        (t, { m with labels := (sym.toLower, t) :: m.labels, numbers := (toString (t + 1), t) :: m.numbers }, ns ++ [sym])

/-! ### the shared tree-statement parser (NewickReader) -/

structure PS where
  ts : TS
  ns : List String
  mp : Mapper
  seen : List Nat := []
  level : Int := 0
  complete : Bool := false
deriving Inhabited

def blankNode (coms : List String) : Node := .mk none none none coms []

/-- the inner `while current_token == ","` of the child loop: one blank node per extra comma -/
def commaLoop (s : PS) (kids : List Node) : Except Err (PS × List Node) :=
  if s.ts.isP "," then
    let c := s.ts.cap
    let ts1 := s.ts.clear
    match h : ts1.req with
    | .error e => .error e
    | .ok ts2 => commaLoop { s with ts := ts2 } (kids ++ [blankNode c])
  else .ok (s, kids)
termination_by s.ts.rest.length
decreasing_by
  have := TS.req_lt _ _ h
  simp +zetaDelta at this ⊢; exact this

/-- `is_internal_node` is three-valued in the code (None for the seed call) -/
def suppressTaxon (cfg : Cfg) (isInternal : Bool) : Bool :=
  (isInternal && cfg.suppressInternalTaxa) || (!isInternal && cfg.suppressLeafTaxa)

/-- the label / length loop at the end of `_parse_tree_node_description`.
    result: the finished node and the state; `complete` tells whether ';' was seen -/
def tailLoop (cfg : Cfg) (isInternal : Bool) (kids : List Node) (s : PS) (coms : List String)
    (taxon : Option Nat) (label : Option String) (len : Option String) (labelParsed : Bool) :
    Except Err (Node × PS) :=
  let cc := s.ts.cap
  let ts0 := s.ts.clear
  let coms := coms ++ cc
  let s := { s with ts := ts0 }
  match hc : ts0.cur with
  | none => .error .parse
  | some tok =>
    if tok == ":" && !ts0.quoted then
      match h1 : ts0.req with
      | .error e => .error e
      | .ok ts1 =>
        let len := if cfg.suppressLengths then len else ts1.cur
        match h2 : ts1.req with
        | .error e => .error e
        | .ok ts2 => tailLoop cfg isInternal kids { s with ts := ts2 } coms taxon label len labelParsed
    else if (tok == ")" || tok == ",") && !ts0.quoted then
      .ok (.mk taxon label len coms kids, s)
    else if tok == ";" && !ts0.quoted then
      let s := { s with ts := ts0.next, complete := true }
      if s.level != 0 then .error .parse else .ok (.mk taxon label len coms kids, s)
    else if tok == "(" && !ts0.quoted then .error .parse
    else if labelParsed then .error .parse
    else
      if suppressTaxon cfg isInternal then
        match h1 : ts0.req with
        | .error e => .error e
        | .ok ts1 => tailLoop cfg isInternal kids { s with ts := ts1 } coms taxon (some tok) len true
      else
        let (t, mp, ns) := s.mp.require s.ns tok
        if s.seen.contains t then .error .parse
        else
          match h1 : ts0.req with
          | .error e => .error e
          | .ok ts1 =>
            tailLoop cfg isInternal kids { s with ts := ts1, mp := mp, ns := ns, seen := t :: s.seen } coms (some t) label len true
termination_by s.ts.rest.length
decreasing_by
  · have a := TS.req_lt _ _ h1; have b := TS.req_lt _ _ h2
    simp +zetaDelta at a b ⊢; omega
  · have a := TS.req_lt _ _ h1; simp +zetaDelta at a ⊢; exact a
  · have a := TS.req_lt _ _ h1; simp +zetaDelta at a ⊢; exact a

mutual
/-- `_parse_tree_node_description`; `pre` = comments already given to the node by the caller -/
def parseNode (cfg : Cfg) (s : PS) (isInternal : Option Bool) (pre : List String) : Except Err (Node × PS) :=
  let c0 := s.ts.cap
  let ts0 := s.ts.clear
  let s0 := { s with ts := ts0 }
  if ts0.isP "(" then
    match h : ts0.req with
    | .error e => .error e
    | .ok ts1 =>
      match childLoop cfg { s0 with ts := ts1 } 0 false [] with
      | .error e => .error e
      | .ok (s2, kids) =>
        let isInt := match isInternal with
          | some b => b
          | none => !kids.isEmpty
        tailLoop cfg isInt kids { s2 with complete := false } (pre ++ c0) none none none false
  else
    tailLoop cfg (isInternal.getD false) [] { s0 with complete := false } (pre ++ c0) none none none false
termination_by (s.ts.rest.length, 0)
decreasing_by
  have a := TS.req_lt _ _ h
  simp +zetaDelta at a
  exact Prod.Lex.left _ _ a

/-- the `for count in it.count()` loop over the children of an opened parenthesis -/
def childLoop (cfg : Cfg) (s : PS) (count : Nat) (created : Bool) (kids : List Node) : Except Err (PS × List Node) :=
  if s.ts.isP "," then
    let (s1, kids1) :=
      if !created then
        let c := s.ts.cap
        let ts' := s.ts.clear
        ({ s with ts := ts' }, kids ++ [blankNode c])
      else (s, kids)
    match s1.ts.req with
    | .error e => .error e
    | .ok ts2 =>
      match commaLoop { s1 with ts := ts2 } kids1 with
      | .error e => .error e
      | .ok (s3, kids3) =>
        let (s4, kids4, created4) :=
          if s3.ts.isP ")" then     -- ',' directly before ')' designates a trailing blank node
            let c := s3.ts.cap
            let ts' := s3.ts.clear
            ({ s3 with ts := ts' }, kids3 ++ [blankNode c], true)
          else (s3, kids3, created)
        if h : s4.ts.rest.length < s.ts.rest.length then childLoop cfg s4 (count + 1) created4 kids4
        else .error .stuck
  else if s.ts.isP ")" then
    let kids1 := if count == 0 then kids ++ [blankNode []] else kids
    match s.ts.req with
    | .error e => .error e
    | .ok ts1 => .ok ({ s with ts := ts1, level := s.level - 1 }, kids1)
  else
    let isNew := s.ts.isP "("
    let lvl := if isNew then s.level + 1 else s.level
    match parseNode cfg { s with ts := s.ts.clear, level := lvl } (some isNew) s.ts.cap with
    | .error e => .error e
    | .ok (nd, s2) =>
      if h : s2.ts.rest.length < s.ts.rest.length then childLoop cfg s2 (count + 1) true (kids ++ [nd])
      else .error .stuck
termination_by (s.ts.rest.length, 1)
decreasing_by
  · exact Prod.Lex.left _ _ h
  · simp; exact Prod.Lex.right _ (by decide)
  · exact Prod.Lex.left _ _ h
end

def rootingState (cfg : Cfg) (comment : String) : Option Bool :=
  match cfg.rooting with
  | .forceU => some false
  | .forceR => some true
  | r =>
    if comment == "&R" || comment == "&r" then some true
    else if comment == "&U" || comment == "&u" then some false
    else match r with
      | .defR => some true
      | .defU => some false
      | _ => none

/-- `_process_tree_comments`: rooting and weight tokens are consumed, everything else stays a comment of the tree
    (metadata comments are turned into annotations later, by a pure function of the comment text) -/
def processTreeComments (cfg : Cfg) (coms : List String) : Option Bool × Option (Option String) × List String :=
  let step := fun (acc : Option (Option Bool) × Option String × List String) (c : String) =>
    let st := c.trimAscii.toString
    if st == "&u" || st == "&U" || st == "&r" || st == "&R" then (some (rootingState cfg st), acc.2.1, acc.2.2)
    else if cfg.storeWeights && (st.startsWith "&W " || st.startsWith "&w ") then (acc.1, some (st.drop 2).toString, acc.2.2)
    else (acc.1, acc.2.1, acc.2.2 ++ [c])
  let r := coms.foldl step (none, none, [])
  (match r.1 with | some x => x | none => rootingState cfg "",
   if cfg.storeWeights then some r.2.1 else none,
   r.2.2)

/-- leading `while (current_token == ";" or current_token is None) and not is_eof()` of `_parse_tree_statement` -/
def skipLeadingSemis (ts : TS) (coms : List String) : Except Err (TS × List String) :=
  if (ts.isP ";" || ts.cur == none) && !ts.eof then
    match h : ts.req with
    | .error e => .error e
    | .ok ts1 =>
      let c := ts1.cap
      let ts2 := ts1.clear
      skipLeadingSemis ts2 c
  else .ok (ts, coms)
termination_by ts.rest.length
decreasing_by
  have a := TS.req_lt _ _ h
  simpa [TS.pull] using a

/-- trailing `while current_token == ";" and not is_eof()` of `_parse_tree_statement` -/
def skipTrailingSemis (ts : TS) : TS :=
  if h : ts.isP ";" && !ts.eof && ts.rest ≠ [] then skipTrailingSemis ts.clear.next
  else if ts.isP ";" && !ts.eof then ts.clear.next
  else ts
termination_by ts.rest.length
decreasing_by
  have : ts.rest ≠ [] := by simp at h; exact h.2
  have a := TS.next_lt ts.clear (by simpa [TS.clear] using this)
  simpa [TS.clear] using a

/-- `NewickReader._parse_tree_statement`: `none` = no further tree in the stream -/
def newickStmt (cfg : Cfg) (ts : TS) (ns : List String) (mp : Mapper) :
    Except Err (Option Tree × TS × List String × Mapper) :=
  let c0 := ts.cap
  let ts0 := ts.clear
  match skipLeadingSemis ts0 c0 with
  | .error e => .error e
  | .ok (ts1, treeComs) =>
    if ts1.eof then .ok (none, ts1, ns, mp)
    else
      let level : Int := if ts1.isP "(" then 1 else 0
      let (rooted, weight, coms) := processTreeComments cfg treeComs
      match parseNode cfg { ts := ts1, ns := ns, mp := mp, seen := [], level := level, complete := false } none [] with
      | .error e => .error e
      | .ok (root, s) =>
        if !s.complete then .error .parse
        else .ok (some { name := none, rooted := rooted, weight := weight, coms := coms, root := root },
                  skipTrailingSemis s.ts, s.ns, s.mp)

/-! ### NEWICK front ends -/

/-- the tree-list factory handed to a reader, seen through what the reader does with it -/
structure Sink (σ : Type) where
  /-- `tree_list_factory(...)` followed by `self._tree_lists.append` -/
  newList : σ → σ
  /-- `trees_block.new_tree` of the most recently created list -/
  addTree : σ → Tree → σ

/-- `tree_list_factory = TreeList`: one fresh list per block -/
def freshSink : Sink (List (List Tree)) where
  newList bs := bs ++ [[]]
  addTree bs t := match bs.reverse with
    | [] => [[t]]
    | b :: r => (( b ++ [t]) :: r).reverse

/-- `tree_list_factory = tree_list._tree_list_pseudofactory`: every block lands in the one existing list -/
def pseudoSink : Sink (List Tree) where
  newList l := l
  addTree l t := l ++ [t]

/-- `NewickReader._read`: one tree list, filled by `tree_iter` -/
def newickIter {σ} (cfg : Cfg) (S : Sink σ) (ts : TS) (ns : List String) (mp : Mapper) (acc : σ) :
    Except Err (σ × List String) :=
  match newickStmt cfg ts ns mp with
  | .error e => .error e
  | .ok (none, _, ns', _) => .ok (acc, ns')
  | .ok (some t, ts', ns', mp') =>
    if h : ts'.rest.length < ts.rest.length then newickIter cfg S ts' ns' mp' (S.addTree acc t)
    else .error .stuck
termination_by ts.rest.length

def newickRead {σ} (cfg : Cfg) (S : Sink σ) (ts : TS) (ns : List String) (acc : σ) : Except Err (σ × List String) :=
  newickIter cfg S ts ns (Mapper.new ns false) (S.newList acc)

/-- `NewickTreeDataYielder._yield_items_from_stream`: its own `while True` loop -/
def newickYieldLoop (cfg : Cfg) (ts : TS) (ns : List String) (mp : Mapper) (out : List Tree) :
    Except Err (List Tree × List String) :=
  match newickStmt cfg ts ns mp with
  | .error e => .error e
  | .ok (r, ts', ns', mp') =>
    match r with
    | none => .ok (out, ns')
    | some t =>
      if h : ts'.rest.length < ts.rest.length then newickYieldLoop cfg ts' ns' mp' (out ++ [t])
      else .error .stuck
termination_by ts.rest.length

def newickYield (cfg : Cfg) (ts : TS) (ns : List String) : Except Err (List Tree × List String) :=
  newickYieldLoop cfg ts ns (Mapper.new ns false) []

/-! ### NEXUS: state and statement parsers shared by reader and yielder (the yielder inherits them) -/

structure Core where
  ts : TS
  /-- labels of the (single) taxon namespace every factory hands out -/
  ns : List String
  /-- `len(self._taxon_namespaces)` -/
  nsCount : Nat := 0
  /-- label of the namespace (first TITLE of a TAXA block wins) -/
  nsLabel : Option String := none
  /-- `_file_specified_ntax` -/
  ntax : Option Nat := none
deriving Inhabited

/-- what the statement parsers see of the state: the token stream and the labels of the namespace -/
structure Doc where
  ts : TS
  ns : List String
deriving Inhabited

def Core.doc (c : Core) : Doc := { ts := c.ts, ns := c.ns }
def Core.withDoc (c : Core) (d : Doc) : Core := { c with ts := d.ts, ns := d.ns }

def parseDigits (s : String) : Option Nat :=
  if !s.isEmpty && s.all Char.isDigit then s.toNat? else none

/-- `_new_taxon_namespace` -/
def newNamespace (fl : Flags) (c : Core) (title : Option String) : Core :=
  if fl.attached then c
  else { c with nsCount := c.nsCount + 1, nsLabel := match c.nsLabel with | some l => some l | none => title }

/-- how many registered namespaces carry the title (case-insensitively) -/
def nsFound (c : Core) (t : String) : Nat :=
  match c.nsLabel with
  | some l => if l.toUpper == t.toUpper then c.nsCount else 0
  | none => 0

/-- `_get_taxon_namespace`: ok / LinkRequired, UndefinedBlock, MultipleBlockWithSameTitle -/
def getNamespace (fl : Flags) (c : Core) (title : Option String) : Except Err Core :=
  if fl.attached then .ok c
  else match title with
    | none =>
      if c.nsCount == 0 then .ok (newNamespace fl c none)
      else if c.nsCount == 1 then .ok c
      else .error .parse
    | some t => if nsFound c t == 1 then .ok c else .error .parse

/-- `_parse_title_statement` (current token is TITLE) -/
def parseTitle (ts : TS) : Except Err (String × TS) :=
  if ts.castU.cur != some "TITLE" then .error .parse
  else match ts.castU.req with
    | .error e => .error e
    | .ok ts1 =>
      match ts1.cur, ts1.req with
      | some title, .ok ts2 => if ts2.cur == some ";" then .ok (title, ts2) else .error .parse
      | _, _ => .error .parse

/-- the `while token != ';'` loop of `_parse_link_statement`; the loop variable is the (upper-cased) current token -/
def linkLoop (ts : TS) (taxa : Option String) : Except Err (Option String × TS) :=
  match ts.cur with
  | none => .error .parse
  | some t =>
    if t == ";" then .ok (taxa, ts)
    else if t == "TAXA" || t == "CHARACTERS" then
      if h : 3 ≤ ts.rest.length then
        let ts1 := ts.next
        if ts1.cur != some "=" then .error .parse
        else
          let ts2 := ts1.next
          linkLoop ts2.nextU (if t == "TAXA" then ts2.cur else taxa)
      else .error .parse              -- one of the three `require_next_token` calls meets the end of the stream
    else if h : ts.rest = [] then .error .parse
    else linkLoop ts.nextU taxa       -- link to a block type that is not tracked: skipped
termination_by ts.rest.length
decreasing_by
  · simp [TS.next_rest, TS.nextU_rest]; omega
  · exact TS.nextU_lt ts h

/-- `_parse_link_statement().get("taxa")` -/
def parseLink (ts : TS) : Except Err (Option String × TS) :=
  if ts.rest = [] then .error .parse else linkLoop ts.nextU none

/-- `_parse_dimensions_statement` -/
def dimLoop (ts : TS) (ntax : Option Nat) : Except Err (Option Nat × TS) :=
  match ts.cur with
  | none => .error .parse
  | some t =>
    if t == ";" then .ok (ntax, ts)
    else if t == "NTAX" || t == "NCHAR" then
      if h : 3 ≤ ts.rest.length then
        let ts1 := ts.nextU
        if ts1.cur != some "=" then .error .parse
        else
          let ts2 := ts1.nextU
          match ts2.cur.bind parseDigits with
          | none => .error .parse
          | some n => dimLoop ts2.nextU (if t == "NTAX" then some n else ntax)
      else .error .parse
    else if t == "BEGIN" then .error .parse
    else if h : ts.rest = [] then .error .parse
    else dimLoop ts.nextU ntax
termination_by ts.rest.length
decreasing_by
  · simp [TS.nextU_rest]; omega
  · exact TS.nextU_lt ts h

def parseDimensions (ts : TS) : Except Err (Option Nat × TS) :=
  if ts.rest = [] then .error .parse else dimLoop ts.nextU none

/-- `_parse_taxlabels_statement`: `tok` is the loop variable -/
def taxlabelsLoop (attached : Bool) (ts : TS) (ns : List String) (ntax : Option Nat) : Except Err (List String × TS) :=
  match ts.cur with
  | none => .error .parse
  | some label =>
    if label == ";" && !ts.quoted then .ok (ns, ts)
    else if h : ts.rest = [] then .error .parse
    else
      match nsFind label ns with
      | some _ => taxlabelsLoop attached ts.next.clear ns ntax
      | none =>
        let limited := match ntax with
          | none => false             -- without a declared NTAX the number of labels is not limited
          | some n => decide (ns.length ≥ n) && !attached
        if limited then .error .parse
        else taxlabelsLoop attached ts.next.clear (ns ++ [label]) ntax
termination_by ts.rest.length
decreasing_by
  all_goals simp [TS.clear]; exact TS.next_lt ts h

/-- the TITLE branch of one turn of the `_parse_taxa_block` loop; result: state, "a namespace exists", the loop's `token` -/
def taxaTitle (fl : Flags) (c : Core) (haveNs : Bool) : Except Err (Core × Bool × Option String) :=
  let ts1 := c.ts.nextU
  if ts1.cur == some "TITLE" then
    match parseTitle ts1 with
    | .error e => .error e
    | .ok (title, ts2) => .ok (newNamespace fl { c with ts := ts2 } (some title), true, some title)
  else .ok ({ c with ts := ts1 }, haveNs, ts1.cur)

/-- the DIMENSIONS branch -/
def taxaDims (c : Core) (tok : Option String) : Except Err Core :=
  if tok == some "DIMENSIONS" then
    match parseDimensions c.ts with
    | .error e => .error e
    | .ok (n, ts3) => .ok { c with ts := ts3, ntax := match n with | some k => some k | none => c.ntax }
  else .ok c

/-- the TAXLABELS branch -/
def taxaLabels (fl : Flags) (c : Core) (haveNs : Bool) (tok : Option String) : Except Err (Core × Bool) :=
  if tok == some "TAXLABELS" then
    let c3 := if haveNs then c else newNamespace fl c none
    match taxlabelsLoop fl.attached c3.ts.clear.next c3.ns c3.ntax with
    | .error e => .error e
    | .ok (ns, ts4) => .ok ({ c3 with ts := ts4, ns := ns }, true)
  else .ok (c, haveNs)

/-- one turn of the `_parse_taxa_block` loop: the three `if`s in sequence (the code's `token` is threaded) -/
def taxaStep (fl : Flags) (c : Core) (haveNs : Bool) : Except Err (Core × Bool × Option String) :=
  match taxaTitle fl c haveNs with
  | .error e => .error e
  | .ok (c1, have1, tok1) =>
    match taxaDims c1 tok1 with
    | .error e => .error e
    | .ok c2 =>
      match taxaLabels fl c2 have1 tok1 with
      | .error e => .error e
      | .ok (c4, have4) => .ok (c4, have4, tok1)

/-- `_parse_taxa_block` (current token TAXA) -/
def taxaLoop (fl : Flags) (c : Core) (haveNs : Bool) : Except Err Core :=
  if h : c.ts.rest = [] then .error .parse   -- end of stream inside the block
  else
    match taxaStep fl c haveNs with
    | .error e => .error e
    | .ok (c4, have4, tok1) =>
      if tok1 == some "END" || tok1 == some "ENDBLOCK" then .ok { c4 with ts := skipSemi c4.ts }
      else if hp : c4.ts.rest.length < c.ts.rest.length then taxaLoop fl c4 have4
      else .error .stuck
termination_by c.ts.rest.length

def parseTaxaBlock (fl : Flags) (c : Core) : Except Err Core :=
  taxaLoop fl { c with ts := skipSemi c.ts } false

/-- the `while` loop of `_consume_to_end_of_block`; `tok` is its local variable `token` -/
def consumeLoop (ts : TS) (tok : Option String) : TS :=
  if tok == some "END" || tok == some "ENDBLOCK" || ts.eof || tok == none then ts
  else
    let ts1 := (skipSemi ts).nextU
    if hp : ts1.rest.length < ts.rest.length then consumeLoop ts1 ts1.cur
    else ts1   -- nothing left to read: `ts1.cur = none`, the loop ends
termination_by ts.rest.length

/-- `_consume_to_end_of_block(token)` -/
def consumeToEndOfBlock (ts : TS) (token : Option String) : TS :=
  consumeLoop ts (some (match token with | some t => if t.isEmpty then "DUMMY" else t.toUpper | none => "DUMMY"))

/-- the block's symbol mapper if there is one already, else a fresh one over the namespace (`_get_taxon_symbol_mapper`) -/
def mapperOr (m : Option Mapper) (ns : List String) : Mapper :=
  match m with
  | some m => m
  | none => Mapper.new ns true

/-- `TaxonNamespace.require_taxon(label=…)` as used by TRANSLATE: the namespace is locked by the mapper
    unless no NTAX was seen (`is_mutable = True` override) -/
def translateLoop (d : Doc) (ntax : Option Nat) (mp : Mapper) : Except Err (Doc × Mapper) :=
  if d.ts.rest.length < 2 then .error .parse      -- `require_next_token` for the token or its label fails
  else
  let ts1 := d.ts.next
  match ts1.cur with
  | none => .error .parse
  | some ttok =>
    if ttok == ";" && !ts1.quoted then .error .parse
    else
      let ts2 := ts1.next
      match ts2.cur with
      | none => .error .parse
      | some lab =>
        let r : Except Err (Nat × List String) :=
          match nsFind lab d.ns with
          | some t => .ok (t, d.ns)
          | none => if ntax.isNone then .ok (d.ns.length, d.ns ++ [lab]) else .error .parse
        match r with
        | .error e => .error e
        | .ok (t, ns) =>
          let mp1 := { mp with tokens := (ttok.toLower, t) :: mp.tokens }
          let ts3 := ts2.next
          let d1 : Doc := { ts := ts3, ns := ns }
          match ts3.cur with
          | none => .ok (d1, mp1)
          | some sep =>
            if sep.isEmpty || sep == ";" then .ok (d1, mp1)
            else if sep != "," then .error .parse
            else if h : ts3.rest.length < d.ts.rest.length then translateLoop d1 ntax mp1
            else .error .stuck
termination_by d.ts.rest.length

/-- `_parse_translate_statement(taxon_namespace, taxon_symbol_mapper)`: the TREES block's mapper is reused when it
    exists (a second TRANSLATE, or a TRANSLATE after a TREE, adds to the tokens already known); both front ends call
    it this way (the yielder after `fixes/C13-yielder-translate-mapper.patch`) -/
def parseTranslate (c : Core) (mp : Option Mapper) : Except Err (Core × Mapper) :=
  (translateLoop c.doc c.ntax (mapperOr mp c.ns)).map
    fun r => (c.withDoc r.1, r.2)

/-- `NexusReader._parse_tree_statement` (positioned right after TREE) -/
def nexusTreeStmt (cfg : Cfg) (d : Doc) (mp : Mapper) : Except Err (Tree × Doc × Mapper) :=
  let ts1 := d.ts.next
  let ts2 := if ts1.cur == some "*" then ts1.next else ts1
  let name := ts2.cur
  let ts3 := ts2.next
  let pre := ts3.cap
  let ts4 := ts3.clear
  if ts3.cur != some "=" then .error .parse
  else
    let ts5 := ts4.next
    match newickStmt cfg ts5 d.ns mp with
    | .error e => .error e
    | .ok (none, _, _, _) => .error .parse
    | .ok (some t, ts6, ns, mp') =>
      .ok ({ t with name := name, coms := t.coms ++ pre }, { ts := ts6, ns := ns }, mp')

/-! ### NEXUS reader front end (`NexusReader`) -/

/-- the inner `while True` over consecutive TREE statements of `_parse_trees_block`.
    result: state, sink, and the value left in the block loop's `token` variable -/
def treeRunR {σ} (cfg : Cfg) (S : Sink σ) (d : Doc) (mp : Mapper) (acc : σ) : Except Err (Doc × Mapper × σ × Option String) :=
  match nexusTreeStmt cfg d mp with
  | .error e => .error e
  | .ok (t, d1, mp1) =>
    let acc1 := S.addTree acc t
    if d1.ts.eof || d1.ts.cur == none || d1.ts.cur == some "" then .ok (d1, mp1, acc1, some "TREE")
    else
      let d2 : Doc := { d1 with ts := d1.ts.castU }
      if d2.ts.cur != some "TREE" then .ok (d2, mp1, acc1, d2.ts.cur)
      else if h : d2.ts.rest.length < d.ts.rest.length then treeRunR cfg S d2 mp1 acc1
      else .error .stuck
termination_by d.ts.rest.length

structure BlockVars where
  link : Option String := none
  haveNs : Bool := false
  mapper : Option Mapper := none
  haveList : Bool := false
  tok : Option String
deriving Inhabited

/-- one turn of the `while` loop of `NexusReader._parse_trees_block`: read a token and dispatch on it -/
def treesStepR {σ} (cfg : Cfg) (fl : Flags) (S : Sink σ) (c : Core) (v : BlockVars) (acc : σ) : Except Err (Core × BlockVars × σ) :=
  let ts1 := c.ts.nextU
  let c1 := { c with ts := ts1 }
  if ts1.cur == some "LINK" then
    match parseLink ts1 with
    | .error e => .error e
    | .ok (l, ts2) => .ok ({ c1 with ts := ts2 }, { v with link := l, tok := ts1.cur }, acc)
  else if ts1.cur == some "TITLE" then
    match parseTitle ts1 with
    | .error e => .error e
    | .ok (_, ts2) => .ok ({ c1 with ts := ts2 }, { v with tok := some "" }, acc)
  else if ts1.cur == some "TRANSLATE" then
    match (if v.haveNs then .ok c1 else getNamespace fl c1 v.link) with
    | .error e => .error e
    | .ok c2 =>
      match parseTranslate c2 v.mapper with
      | .error e => .error e
      | .ok (c3, mp) => .ok (c3, { v with haveNs := true, mapper := some mp, tok := some "" }, acc)
  else if ts1.cur == some "TREE" then
    match (if v.haveNs then .ok c1 else getNamespace fl c1 v.link) with
    | .error e => .error e
    | .ok c2 =>
      let mp := mapperOr v.mapper c2.ns
      let acc1 := if v.haveList then acc else S.newList acc
      -- (`.clear`: pre-tree comments go to the tree list, not to a tree)
      match treeRunR cfg S { ts := c2.ts.clear, ns := c2.ns } mp acc1 with
      | .error e => .error e
      | .ok (d4, mp4, acc4, tok) => .ok (c2.withDoc d4, { v with haveNs := true, mapper := some mp4, haveList := true, tok := tok }, acc4)
  else if ts1.cur == some "BEGIN" then .error .parse
  else .ok (c1, { v with tok := ts1.cur }, acc)

/-- the `while` loop of `NexusReader._parse_trees_block` -/
def treesLoopR {σ} (cfg : Cfg) (fl : Flags) (S : Sink σ) (c : Core) (v : BlockVars) (acc : σ) : Except Err (Core × σ) :=
  if c.ts.eof || v.tok == none || v.tok == some "END" || v.tok == some "ENDBLOCK" then
    .ok ({ c with ts := skipSemi c.ts }, acc)
  else
    match treesStepR cfg fl S c v acc with
    | .error e => .error e
    | .ok (c5, v5, acc5) =>
      if h : c5.ts.rest.length < c.ts.rest.length then treesLoopR cfg fl S c5 v5 acc5
      else if c5.ts.eof then .ok ({ c5 with ts := skipSemi c5.ts }, acc5)
      else .error .stuck
termination_by c.ts.rest.length

/-- `NexusReader._parse_trees_block` -/
def treesBlockR {σ} (cfg : Cfg) (fl : Flags) (S : Sink σ) (c : Core) (acc : σ) : Except Err (Core × σ) :=
  let ts0 := c.ts.castU
  if ts0.cur != some "TREES" then .error .parse
  else treesLoopR cfg fl S { c with ts := skipSemi ts0 } { tok := some "TREES" } acc

/-- the inner `while token != None and token != 'BEGIN' and not eof` of the stream loop -/
def seekBegin (ts : TS) : TS :=
  if ts.cur != none && ts.cur != some "BEGIN" && !ts.eof then
    if h : ts.rest = [] then ts.nextU else seekBegin ts.nextU
  else ts
termination_by ts.rest.length
decreasing_by exact TS.nextU_lt ts h

/-- skeleton of a CHARACTERS/DATA/SETS block that is *parsed* (exclude_chars = False): statements up to END.
    Its content is not part of this model (C09); only the position reached matters for the trees. -/
def parsedBlockSkeleton (ts : TS) : TS := skipSemi (consumeToEndOfBlock ts ts.cur)

def isSetsKw (t : Option String) : Bool := t == some "SETS" || t == some "ASSUMPTIONS" || t == some "CODONS"

/-- one turn of the `while not eof` loop of `NexusReader._parse_nexus_stream`: find BEGIN, dispatch on the block name -/
def streamStepR {σ} (cfg : Cfg) (fl : Flags) (S : Sink σ) (c : Core) (acc : σ) : Except Err (Core × σ) :=
  let ts2 := (seekBegin c.ts.nextU).clear.nextU
  let c2 := { c with ts := ts2 }
  if ts2.cur == some "TAXA" then (parseTaxaBlock fl c2).map (·, acc)
  else if ts2.cur == some "CHARACTERS" || ts2.cur == some "DATA" then
    if fl.excludeChars then .ok ({ c2 with ts := consumeToEndOfBlock ts2 ts2.cur }, acc)
    else .ok ({ c2 with ts := parsedBlockSkeleton ts2 }, acc)
  else if ts2.cur == some "TREES" then treesBlockR cfg fl S c2 acc
  else if isSetsKw ts2.cur then
    if fl.excludeChars then .ok (c2, acc) else .ok ({ c2 with ts := parsedBlockSkeleton ts2 }, acc)
  else if ts2.cur == some "BEGIN" then .error .parse
  else .ok ({ c2 with ts := consumeToEndOfBlock ts2 ts2.cur }, acc)

/-- `NexusReader._parse_nexus_stream`: the `while not eof` loop -/
def streamLoopR {σ} (cfg : Cfg) (fl : Flags) (S : Sink σ) (c : Core) (acc : σ) : Except Err (Core × σ) :=
  if c.ts.eof then .ok (c, acc)
  else
    match streamStepR cfg fl S c acc with
    | .error e => .error e
    | .ok (c3, acc3) =>
      if h : c3.ts.rest.length < c.ts.rest.length then streamLoopR cfg fl S c3 acc3
      else if c3.ts.eof then .ok (c3, acc3)
      else .error .stuck
termination_by c.ts.rest.length

/-- `_parse_nexus_stream` -/
def nexusRead {σ} (cfg : Cfg) (fl : Flags) (S : Sink σ) (c : Core) (acc : σ) : Except Err (Core × σ) :=
  let ts1 := c.ts.next
  if ts1.cur.map String.toUpper != some "#NEXUS" then .error .parse
  else streamLoopR cfg fl S { c with ts := ts1 } acc

/-! ### NEXUS yielder front end (`NexusTreeDataYielder`): a second copy of both loops -/

def treeRunY (cfg : Cfg) (d : Doc) (mp : Mapper) (out : List Tree) : Except Err (Doc × Mapper × List Tree × Option String) :=
  match nexusTreeStmt cfg d mp with
  | .error e => .error e
  | .ok (t, d1, mp1) =>
    let out1 := out ++ [t]
    if d1.ts.eof || d1.ts.cur == none || d1.ts.cur == some "" then .ok (d1, mp1, out1, some "TREE")
    else
      let d2 : Doc := { d1 with ts := d1.ts.castU }
      if d2.ts.cur != some "TREE" then .ok (d2, mp1, out1, d2.ts.cur)
      else if h : d2.ts.rest.length < d.ts.rest.length then treeRunY cfg d2 mp1 out1
      else .error .stuck
termination_by d.ts.rest.length

/-- one turn of the `while` loop of `NexusTreeDataYielder._yield_from_trees_block` (its own copy of the dispatch) -/
def treesStepY (cfg : Cfg) (fl : Flags) (c : Core) (v : BlockVars) (out : List Tree) : Except Err (Core × BlockVars × List Tree) :=
  let ts1 := c.ts.nextU
  let c1 := { c with ts := ts1 }
  if ts1.cur == some "LINK" then
    match parseLink ts1 with
    | .error e => .error e
    | .ok (l, ts2) => .ok ({ c1 with ts := ts2 }, { v with link := l, tok := ts1.cur }, out)
  else if ts1.cur == some "TITLE" then
    match parseTitle ts1 with
    | .error e => .error e
    | .ok (_, ts2) => .ok ({ c1 with ts := ts2 }, { v with tok := some "" }, out)
  else if ts1.cur == some "TRANSLATE" then
    match (if v.haveNs then .ok c1 else getNamespace fl c1 v.link) with
    | .error e => .error e
    | .ok c2 =>
      match parseTranslate c2 v.mapper with
      | .error e => .error e
      | .ok (c3, mp) => .ok (c3, { v with haveNs := true, mapper := some mp, tok := some "" }, out)
  else if ts1.cur == some "TREE" then
    match (if v.haveNs then .ok c1 else getNamespace fl c1 v.link) with
    | .error e => .error e
    | .ok c2 =>
      let mp := mapperOr v.mapper c2.ns
      -- (`.clear`: pre-tree comments are pulled and dropped)
      match treeRunY cfg { ts := c2.ts.clear, ns := c2.ns } mp out with
      | .error e => .error e
      | .ok (d4, mp4, out4, tok) => .ok (c2.withDoc d4, { v with haveNs := true, mapper := some mp4, haveList := true, tok := tok }, out4)
  else if ts1.cur == some "BEGIN" then .error .parse
  else .ok (c1, { v with tok := ts1.cur }, out)

/-- the `while` loop of `NexusTreeDataYielder._yield_from_trees_block` -/
def treesLoopY (cfg : Cfg) (fl : Flags) (c : Core) (v : BlockVars) (out : List Tree) : Except Err (Core × List Tree) :=
  if c.ts.eof || v.tok == none || v.tok == some "END" || v.tok == some "ENDBLOCK" then
    .ok ({ c with ts := skipSemi c.ts }, out)
  else
    match treesStepY cfg fl c v out with
    | .error e => .error e
    | .ok (c5, v5, out5) =>
      if h : c5.ts.rest.length < c.ts.rest.length then treesLoopY cfg fl c5 v5 out5
      else if c5.ts.eof then .ok ({ c5 with ts := skipSemi c5.ts }, out5)
      else .error .stuck
termination_by c.ts.rest.length

def treesBlockY (cfg : Cfg) (fl : Flags) (c : Core) (out : List Tree) : Except Err (Core × List Tree) :=
  let ts0 := c.ts.castU
  if ts0.cur != some "TREES" then .error .parse
  else treesLoopY cfg fl { c with ts := skipSemi ts0 } { tok := some "TREES" } out

/-- one turn of the block loop of `NexusTreeDataYielder._yield_items_from_stream`: TAXA, TREES, anything else is
    skipped as an unknown block -/
def streamStepY (cfg : Cfg) (fl : Flags) (c : Core) (out : List Tree) : Except Err (Core × List Tree) :=
  let ts2 := (seekBegin c.ts.nextU).clear.nextU
  let c2 := { c with ts := ts2 }
  if ts2.cur == some "TAXA" then (parseTaxaBlock fl c2).map (·, out)
  else if ts2.cur == some "TREES" then treesBlockY cfg fl c2 out
  else if ts2.cur == some "BEGIN" then .error .parse
  else .ok ({ c2 with ts := consumeToEndOfBlock ts2 ts2.cur }, out)

def streamLoopY (cfg : Cfg) (fl : Flags) (c : Core) (out : List Tree) : Except Err (Core × List Tree) :=
  if c.ts.eof then .ok (c, out)
  else
    match streamStepY cfg fl c out with
    | .error e => .error e
    | .ok (c3, out3) =>
      if h : c3.ts.rest.length < c.ts.rest.length then streamLoopY cfg fl c3 out3
      else if c3.ts.eof then .ok (c3, out3)
      else .error .stuck
termination_by c.ts.rest.length

def nexusYield (cfg : Cfg) (fl : Flags) (c : Core) (out : List Tree) : Except Err (Core × List Tree) :=
  let ts1 := c.ts.next
  if ts1.cur.map String.toUpper != some "#NEXUS" then .error .parse
  else streamLoopY cfg fl { c with ts := ts1 } out

/-! ### the routes of the data model -/

inductive Schema where
  | newick | nexus
deriving Repr, BEq, DecidableEq

/-- what a namespace object carries between calls -/
structure NSObj where
  labels : List String := []
  title : Option String := none
deriving Repr, Inhabited, BEq

def coreOf (toks : List Tok) (tail : List String) (ns : NSObj) : Core :=
  { ts := { rest := toks, tail := tail }, ns := ns.labels, nsLabel := ns.title }

/-- `reader.read_tree_lists` with the given tree-list factory -/
def readWith {σ} (sch : Schema) (cfg : Cfg) (fl : Flags) (S : Sink σ) (toks : List Tok) (tail : List String) (ns : NSObj) (acc : σ) :
    Except Err (σ × NSObj) :=
  match sch with
  | .newick =>
    (newickRead cfg S { rest := toks, tail := tail } ns.labels acc).map fun r => (r.1, { ns with labels := r.2 })
  | .nexus =>
    (nexusRead cfg fl S (coreOf toks tail ns) acc).map fun r => (r.2, { labels := r.1.ns, title := r.1.nsLabel })

/-- the tree lists of the source, one per collection: `tree_list_factory = TreeList` -/
def readBlocks (sch : Schema) (cfg : Cfg) (fl : Flags) (toks : List Tok) (tail : List String) (ns : NSObj) :
    Except Err (List (List Tree) × NSObj) :=
  readWith sch cfg fl freshSink toks tail ns []

/-- Python `l[i]` -/
def pyIdx {α} (l : List α) (i : Int) : Option α :=
  if 0 ≤ i then l[i.toNat]? else if 0 ≤ (l.length : Int) + i then l[((l.length : Int) + i).toNat]? else none

/-- Python `l[i:]` -/
def pySuffix {α} (l : List α) (i : Int) : List α :=
  if 0 ≤ i then l.drop i.toNat else l.drop ((l.length : Int) + i).toNat

/-- `Tree._parse_and_create_from_stream` (= `Tree.get`).  `label` is the caller's `label=` argument;
    REPAIRED behaviour: the tree keeps the name given by the source unless a label is passed. -/
def treeGet (sch : Schema) (cfg : Cfg) (fl : Flags) (toks : List Tok) (tail : List String) (ns : NSObj)
    (coll tree : Option Int) (label : Option String) : Except Err (Tree × NSObj) :=
  match readBlocks sch cfg fl toks tail ns with
  | .error e => .error e
  | .ok (bs, ns') =>
    if bs.isEmpty then .error .value
    else match pyIdx bs (coll.getD 0) with
      | none => .error .index
      | some b =>
        if b.isEmpty then .error .value
        else match pyIdx b (tree.getD 0) with
          | none => .error .index
          | some t => .ok (match label with | some l => { t with name := some l } | none => t, ns')

/-- `TreeList._parse_and_create_from_stream` into the list `existing` (`TreeList.get`: `existing = []`;
    `TreeList.read`: the current content) -/
def listGet (sch : Schema) (cfg : Cfg) (fl : Flags) (toks : List Tok) (tail : List String) (ns : NSObj) (existing : List Tree)
    (coll tree : Option Int) : Except Err (List Tree × NSObj) :=
  let coll := match coll, tree with
    | none, some _ => some 0
    | c, _ => c
  match coll with
  | none => readWith sch cfg fl pseudoSink toks tail ns existing
  | some c =>
    match readBlocks sch cfg fl toks tail ns with
    | .error e => .error e
    | .ok (bs, ns') =>
      if c ≥ bs.length then .error .index
      else match pyIdx bs c with
        | none => .error .index
        | some b =>
          match tree with
          | none => .ok (existing ++ b, ns')
          | some k => if k ≥ b.length then .error .index else .ok (existing ++ pySuffix b k, ns')

/-- `Tree.yield_from_files([source])` -/
def yieldFrom (sch : Schema) (cfg : Cfg) (fl : Flags) (toks : List Tok) (tail : List String) (ns : NSObj) :
    Except Err (List Tree × NSObj) :=
  match sch with
  | .newick => (newickYield cfg { rest := toks, tail := tail } ns.labels).map fun r => (r.1, { ns with labels := r.2 })
  | .nexus =>
    (nexusYield cfg { fl with attached := true } (coreOf toks tail ns) []).map fun r => (r.2, { labels := r.1.ns, title := r.1.nsLabel })

/-- `DataSet.get` / `DataSet.read`: tree lists are appended to `dataset.tree_lists`
    (`tree_list_factory = dataset.new_tree_list`); character blocks are parsed, not skipped -/
def datasetRead (sch : Schema) (cfg : Cfg) (fl : Flags) (toks : List Tok) (tail : List String) (ns : NSObj) (existing : List (List Tree)) :
    Except Err (List (List Tree) × NSObj) :=
  readWith sch cfg { fl with excludeChars := false } freshSink toks tail ns existing

end DendroModel.C13

/-! ### the domain of the stream-level theorems, as an executable predicate (driver op `nosets`) -/
namespace DendroModel.C13.Aux
open DendroModel.C13

/-- the block the stream loop is about to dispatch on -/
def dispatchTok (c : Core) : Option String := ((seekBegin c.ts.nextU).clear.nextU).cur

/-- the reader's block loop never dispatches on a SETS / ASSUMPTIONS / CODONS block (which the reader, with
    `exclude_chars`, leaves to be scanned for the next BEGIN while the yielder skips it statement by statement) -/
def noSetsBlocks {σ} (cfg : Cfg) (fl : Flags) (S : Sink σ) (c : Core) (acc : σ) : Bool :=
  if c.ts.eof then true
  else if isSetsKw (dispatchTok c) then false
  else
    match streamStepR cfg fl S c acc with
    | .error _ => true
    | .ok (c3, acc3) =>
      if h : c3.ts.rest.length < c.ts.rest.length then noSetsBlocks cfg fl S c3 acc3 else true
termination_by c.ts.rest.length

/-! ### the domain of the full stream-level theorems (`reader_eq_yielder`, `yield_eq_list_nexus`), executable (driver op `setsclean`) -/

/-- where a turn of the block loop stands after `BEGIN <name>` -/
def afterBegin (ts : TS) : TS := (seekBegin ts.nextU).clear.nextU

/-- a token that the reader's scan for the next `BEGIN` passes: not the word BEGIN, not flagged end-of-input -/
def cleanTok (t : Tok) : Bool := t.text.toUpper != "BEGIN" && !t.eof

/-- `b` lies further down the stream than `a`, and every token in between is passed by a scan for `BEGIN`
    (or `a` is at end of input already, where both front ends stop) -/
def cleanSkip (a b : TS) : Bool :=
  a.eof || (!b.eof && (a.rest.take (a.rest.length - b.rest.length)).all cleanTok)

/-- every SETS / ASSUMPTIONS / CODONS block the iterator's block loop meets is well formed in the sense that the statements the
    iterator skips (up to `END`) contain no token `BEGIN` and do not run into the end of input: then the reader, which with
    `exclude_chars` leaves such a block to its scan for the next `BEGIN`, ends up at the same next block.  Evaluated along the
    ITERATOR's run (`streamLoopY`). -/
def setsClean (cfg : Cfg) (fl : Flags) (c : Core) (out : List Tree) : Bool :=
  if c.ts.eof then true
  else
    (if isSetsKw (afterBegin c.ts).cur then
        cleanSkip (afterBegin c.ts) (consumeToEndOfBlock (afterBegin c.ts) (afterBegin c.ts).cur)
      else true) &&
    match streamStepY cfg fl c out with
    | .error _ => true
    | .ok (c3, out3) =>
      if h : c3.ts.rest.length < c.ts.rest.length then setsClean cfg fl c3 out3 else true
termination_by c.ts.rest.length

/-- every CHARACTERS / DATA / SETS-class block the reader meets while PARSING such blocks (`exclude_chars = False`, the data
    set route) is well formed in the same sense: between the place where the skipping reader (`exclude_chars = True`, the
    tree routes) leaves the block and the place where the parsing reader leaves it (past the `;` of `END;`) there is no token
    `BEGIN`, and neither place is the end of input.  Evaluated along the data set route's run. -/
def charsClean {σ} (cfg : Cfg) (fl : Flags) (S : Sink σ) (c : Core) (acc : σ) : Bool :=
  if c.ts.eof then true
  else
    (if (afterBegin c.ts).cur == some "CHARACTERS" || (afterBegin c.ts).cur == some "DATA" then
        !(consumeToEndOfBlock (afterBegin c.ts) (afterBegin c.ts).cur).eof &&
          cleanSkip (consumeToEndOfBlock (afterBegin c.ts) (afterBegin c.ts).cur)
            (skipSemi (consumeToEndOfBlock (afterBegin c.ts) (afterBegin c.ts).cur))
      else if isSetsKw (afterBegin c.ts).cur then
        !(afterBegin c.ts).eof && cleanSkip (afterBegin c.ts) (parsedBlockSkeleton (afterBegin c.ts))
      else true) &&
    match streamStepR cfg { fl with excludeChars := false } S c acc with
    | .error _ => true
    | .ok (c3, acc3) =>
      if h : c3.ts.rest.length < c.ts.rest.length then charsClean cfg fl S c3 acc3 else true
termination_by c.ts.rest.length

end DendroModel.C13.Aux
