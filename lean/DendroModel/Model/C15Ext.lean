import DendroModel.Model.C15
/-! C15 — further entry points of `Node`/`Tree` (added after the audit): the in-order recursion with the filter
applied at every yield, the three edge iterators that wrap a node iterator, `ancestor_iter`, the list-returning
methods of `Tree`, and the age lookup the driver uses.  Mathlib-free and executable (the driver runs these). -/
namespace DendroModel.C15
open DendroModel

mutual
/-- `inorder_iter` as written: recursion into child 0, the filter test on the node itself, recursion into child 1;
`none` is the `TypeError` raised on a node with 1 or more than 2 children (the harness drains the generator, so an
exception anywhere is the outcome of the whole call) -/
def inRun (keep : T → Bool) : T → Option (List T)
  | .node i x l s [] => some (if keep (.node i x l s []) then [.node i x l s []] else [])
  | .node i x l s [a, b] =>
    match inRun keep a, inRun keep b with
    | some la, some lb => some (la ++ (if keep (.node i x l s [a, b]) then [.node i x l s [a, b]] else []) ++ lb)
    | _, _ => none
  | .node _ _ _ _ _ => none
end

/-- `levelorder_edge_iter`: `f = lambda nd: filter_fn(nd.edge)`; `for nd in levelorder_iter(f): yield nd.edge` -/
def levelEdgeIter (keep : E → Bool) (t : T) : List E := (levelIter (fun n => keep ⟨n⟩) t).map E.mk
/-- `leaf_edge_iter`: the same wrapper around `leaf_iter` -/
def leafEdgeIter (keep : E → Bool) (t : T) : List E := (leafIter (fun n => keep ⟨n⟩) t).map E.mk
/-- `inorder_edge_iter`: the same wrapper around `inorder_iter` -/
def inEdgeIter (keep : E → Bool) (t : T) : Option (List E) := (inRun (fun n => keep ⟨n⟩) t).map (List.map E.mk)

mutual
/-- the parent-pointer chain of the first node (pre-order) with id `i`: that node first, the root of `t` last.
The code climbs `_parent_node`; the tree type has no parent pointers, so the chain is computed on the way down. -/
def ancPath (i : Nat) : T → Option (List T)
  | .node j x l s cs =>
    if i == j then some [.node j x l s cs]
    else match ancPathL i cs with
      | some p => some (p ++ [.node j x l s cs])
      | none => none
def ancPathL (i : Nat) : List T → Option (List T)
  | [] => none
  | c :: cs => match ancPath i c with
    | some p => some p
    | none => ancPathL i cs
end

/-- `ancestor_iter(filter_fn, inclusive)` started at the node with id `start` of `tree`:
the node itself when `inclusive` and it passes, then every proper ancestor, nearest first, that passes -/
def ancIter (keep : T → Bool) (inclusive : Bool) (tree : T) (start : Nat) : Option (List T) :=
  match ancPath start tree with
  | some (self :: up) => some ((if inclusive && keep self then [self] else []) ++ up.filter keep)
  | _ => none

/-! ### list-returning methods of `Tree` (thin wrappers in the code, thin wrappers here) -/
/-- `Tree.nodes(filter_fn)` -/
def treeNodes (keep : T → Bool) (t : T) : List T := preIter keep t
/-- `Tree.leaf_nodes()` -/
def treeLeafNodes (t : T) : List T := leafIter (fun _ => true) t
/-- `Tree.internal_nodes(exclude_seed_node)` -/
def treeInternalNodes (excl : Bool) (t : T) : List T := preIter (internalKeep excl t.id false (fun _ => true)) t
/-- `Tree.edges(filter_fn)` -/
def treeEdges (keep : E → Bool) (t : T) : List E := preEdgeIter keep t
/-- `Tree.leaf_edges()`: `[leaf.edge for leaf in leaf_node_iter()]` -/
def treeLeafEdges (t : T) : List E := (leafIter (fun _ => true) t).map E.mk
/-- `Tree.internal_edges(exclude_seed_edge)`: `[nd.edge for nd in preorder_internal_node_iter(...)]` -/
def treeInternalEdges (excl : Bool) (t : T) : List E := (treeInternalNodes excl t).map E.mk

/-- a parent chain, read upwards: every entry is a child of the next one (specification vocabulary of `ancestor_iter`) -/
def UpChain : List T → Prop
  | [] => True
  | [_] => True
  | a :: b :: r => a ∈ b.cs ∧ UpChain (b :: r)

/-- the age of a node as the driver looks it up: position `id` of the parsed list (a missing position reads 0,
a well-formed fraction, so that every age the driver can hand to `ageIter` is well formed) -/
def ageOf (as : List Frac) (x : T) : Frac := as.getD x.id Frac.zero


/-! ### specification vocabulary: depth, bracket matching -/

/-- the nodes at depth `k` below the nodes of `level`, left to right (`genL k [t]` = the k-th generation of `t`) -/
def genL : Nat → List T → List T
  | 0, level => level
  | k + 1, level => genL k (level.flatMap T.cs)

/-- well-bracketed callback sequence, checked with the stack of open nodes: `before i` opens `i`, `after i` must close
the innermost open node and that node must be `i`, `leaf` is neutral, nothing may stay open (a Dyck word whose
brackets are labelled with node ids) -/
def dyck : List Nat → List Ev → Bool
  | st, [] => st.isEmpty
  | st, .before i :: r => dyck (i :: st) r
  | st, .leaf _ :: r => dyck st r
  | [], .after _ :: _ => false
  | j :: st, .after i :: r => i == j && dyck st r

/-- the node ids in the order their first callback (`before` or `leaf`) arrives -/
def opens : List Ev → List Nat
  | [] => []
  | .before i :: r => i :: opens r
  | .leaf i :: r => i :: opens r
  | .after _ :: r => opens r

/-- the node ids in the order their last callback (`after` or `leaf`) arrives -/
def closes : List Ev → List Nat
  | [] => []
  | .before _ :: r => closes r
  | .leaf i :: r => i :: closes r
  | .after i :: r => i :: closes r

/-! ### `Node.apply` over a zipper: the climb through parent pointers made explicit

Every stack entry carries its context: the chain of ancestors up to (and including) the start node, nearest first, each
with the answer to the test the code makes on the way up — "is the node below you on this chain your LAST child"
(`node._parent_node._child_nodes[-1] is node`).  The chain ends at the start node (`node is not self` stops there). -/

/-- children pushed with their contexts -/
def pushZip (i : Nat) (ctx : List (Nat × Bool)) : List T → List (T × List (Nat × Bool))
  | [] => []
  | [c] => [(c, (i, true) :: ctx)]
  | c :: d :: cs => (c, (i, false) :: ctx) :: pushZip i ctx (d :: cs)

/-- the inner loop of `apply`: `while node is not self and parent._child_nodes[-1] is node: node = parent; after_fn(node)` -/
def climbZip : List (Nat × Bool) → List Ev
  | [] => []
  | (p, isLast) :: up => if isLast then .after p :: climbZip up else []

def applyZipRun : Nat → List (T × List (Nat × Bool)) → List Ev
  | 0, _ => []
  | _ + 1, [] => []
  | f + 1, (.node i _ _ _ [], ctx) :: rest => .leaf i :: (climbZip ctx ++ applyZipRun f rest)
  | f + 1, (.node i _ _ _ (c :: cs), ctx) :: rest => .before i :: applyZipRun f (pushZip i ctx (c :: cs) ++ rest)

def applyZipTrace (t : T) : List Ev := applyZipRun t.size [(t, [])]

/-! ### `Node.apply` at pointer level: the literal loop over node ids, child lists and parent pointers of the array -/

/-- `_child_nodes` of node `j` as the array encodes them (the same expression `buildTree` uses) -/
def kidsOf (par : Array Int) (j : Nat) : List Nat := (List.range par.size).filter (fun k => par[k]! == (j : Int))

/-- the inner loop: `while node is not self and node._parent_node._child_nodes[-1] is node: node = node._parent_node; after_fn(node)` -/
def climbPtr (par : Array Int) (start : Nat) : Nat → Nat → List Ev
  | 0, _ => []
  | f + 1, node =>
    if node == start then []
    else if (kidsOf par (par[node]!).toNat).getLast? == some node
      then .after (par[node]!).toNat :: climbPtr par start f (par[node]!).toNat
      else []

/-- the outer loop: `stack=[self]; node=stack.pop(); leaf: leaf_fn + climb; else before_fn, push reversed children` -/
def applyPtrRun (par : Array Int) (start : Nat) : Nat → List Nat → List Ev
  | 0, _ => []
  | _ + 1, [] => []
  | f + 1, node :: rest =>
    if (kidsOf par node).isEmpty then .leaf node :: (climbPtr par start par.size node ++ applyPtrRun par start f rest)
    else .before node :: applyPtrRun par start f (kidsOf par node ++ rest)

/-- `Node.apply` started at the node with id `start`; `par.size` iterations of either loop suffice (proved) -/
def applyPtrTrace (par : Array Int) (start : Nat) : List Ev := applyPtrRun par start par.size [start]

/-! ### generator state machines over a mutable heap: `levelorder_iter` one `next()` at a time

The heap has the `_child_nodes` list of every node (`kids`, by node id) and the private list objects of the live
generators (`priv`, by generator number: the `remaining` queue of that generator).  A step RETURNS a heap, so a machine
that consumed a node's own list (the seeded change C15-2: `remaining = self._child_nodes`) is expressible; the theorems
say the machine as written does not do it, and that generators do not disturb each other. -/

structure Heap where
  kids : Nat → List Nat
  priv : Nat → List Nat

inductive LvPc where
  | init (self : Nat)      -- not started: the first `next()` yields `self`
  | started (self : Nat)   -- suspended at `yield self`; next: `remaining = self.child_nodes()` (a copy), enter the loop
  | popped (node : Nat)    -- suspended at `yield node`; next: `remaining.extend(node.child_nodes())`, loop
  | done

structure LvSt where
  q : Nat                  -- which private list is this generator's `remaining`
  pc : LvPc

def Heap.setPriv (h : Heap) (q : Nat) (v : List Nat) : Heap := { h with priv := fun a => if a = q then v else h.priv a }

/-- `while len(remaining) > 0: node = remaining.pop(0); yield node` up to the next suspension -/
def lvLoop (h : Heap) (q : Nat) : Heap × LvSt × Option Nat :=
  match h.priv q with
  | [] => (h, ⟨q, .done⟩, none)
  | node :: rest => (h.setPriv q rest, ⟨q, .popped node⟩, some node)

/-- one `next()` of `levelorder_iter()` (no filter): new heap, new generator state, the node yielded (`none` = StopIteration) -/
def lvNext (h : Heap) (s : LvSt) : Heap × LvSt × Option Nat :=
  match s.pc with
  | .init self => (h, ⟨s.q, .started self⟩, some self)
  | .started self => lvLoop (h.setPriv s.q (h.kids self)) s.q
  | .popped node => lvLoop (h.setPriv s.q (h.priv s.q ++ h.kids node)) s.q
  | .done => (h, s, none)

/-- `k` calls of `next()` on one generator, nothing else running -/
def lvSolo (h : Heap) (s : LvSt) : Nat → List (Option Nat)
  | 0 => []
  | k + 1 => (lvNext h s).2.2 :: lvSolo (lvNext h s).1 (lvNext h s).2.1 k

/-- two generators on the same heap, stepped in the order of the schedule (`true` = the first); who stepped, what it yielded -/
def lvSched (h : Heap) (s1 s2 : LvSt) : List Bool → List (Bool × Option Nat)
  | [] => []
  | true :: r => (true, (lvNext h s1).2.2) :: lvSched (lvNext h s1).1 (lvNext h s1).2.1 s2 r
  | false :: r => (false, (lvNext h s2).2.2) :: lvSched (lvNext h s2).1 s1 (lvNext h s2).2.1 r

/-- what `k` calls of `next()` return on a generator whose complete output is `ys`: the first `k` items, then `none`
(StopIteration) for ever -/
def padTake : Nat → List Nat → List (Option Nat)
  | 0, _ => []
  | k + 1, [] => none :: padTake k []
  | k + 1, y :: ys => some y :: padTake k ys

/-- one `next()` of `preorder_iter()` (no filter): `stack=[self]` on the first call, then `node = stack.pop(); yield node`,
and on resumption `stack.extend(reversed(node._child_nodes))`; the private list is the stack, head = top -/
def pvNext (h : Heap) (s : LvSt) : Heap × LvSt × Option Nat :=
  match s.pc with
  | .init self => (h.setPriv s.q [], ⟨s.q, .popped self⟩, some self)
  | .started self => (h.setPriv s.q [], ⟨s.q, .popped self⟩, some self)
  | .popped node => lvLoop (h.setPriv s.q (h.kids node ++ h.priv s.q)) s.q
  | .done => (h, s, none)

/-- `k` calls of `next()` on one generator of either kind -/
def gSolo (next : Heap → LvSt → Heap × LvSt × Option Nat) (h : Heap) (s : LvSt) : Nat → List (Option Nat)
  | 0 => []
  | k + 1 => (next h s).2.2 :: gSolo next (next h s).1 (next h s).2.1 k

/-- two generators, possibly of different kinds, stepped in the order of the schedule -/
def gSched (n1 n2 : Heap → LvSt → Heap × LvSt × Option Nat) (h : Heap) (s1 s2 : LvSt) : List Bool → List (Bool × Option Nat)
  | [] => []
  | true :: r => (true, (n1 h s1).2.2) :: gSched n1 n2 (n1 h s1).1 (n1 h s1).2.1 s2 r
  | false :: r => (false, (n2 h s2).2.2) :: gSched n1 n2 (n2 h s2).1 s1 (n2 h s2).2.1 r

/-- the heap a parent array denotes, with every private list empty -/
def heapOf (par : Array Int) : Heap := ⟨kidsOf par, fun _ => []⟩

/-! ### `ancestor_iter` at pointer level -/

/-- the parent array of a protocol tree, read from the same tokens `parseTree` reads -/
def parsePar (toks : List String) : Option (Array Int) :=
  match toks with
  | [] => none
  | n :: rest =>
    match n.toNat? with
    | none => none
    | some n => ((rest.take n).mapM String.toInt?).map List.toArray

/-- the loop of `ancestor_iter` as written: `node = node._parent_node` until it is `None` (the seed's -1);
ids of the proper ancestors of `j`, nearest first -/
def climbIds (par : Array Int) : Nat → Nat → List Nat
  | 0, _ => []
  | f + 1, j => if par[j]! < 0 then [] else (par[j]!).toNat :: climbIds par f (par[j]!).toNat

/-- `ancestor_iter(filter_fn, inclusive)` on node ids and parent pointers -/
def ancPtrIter (keep : Nat → Bool) (inclusive : Bool) (par : Array Int) (fuel start : Nat) : List Nat :=
  (if inclusive && keep start then [start] else []) ++ (climbIds par fuel start).filter keep

end DendroModel.C15
