import DendroModel.Model.C15
/-! C15 — further entry points of `Node`/`Tree` (added after the audit): the in-order recursion with the filter
applied at every yield, the three edge iterators that wrap a node iterator, `ancestor_iter`, the list-returning
methods of `Tree`, and the age lookup the driver uses.  Mathlib-free and executable (the driver runs these). -/
namespace DendroModel.C15
open DendroModel

mutual
/-- `inorder_iter` as written: recursion into child 0, the filter test on the node itself, recursion into child 1;
`none` is the `TypeError` raised on a node with 1 or more than 2 children (the harness drains the generator, so an
exception anywhere is the outcome of the whole call) -/
def inRun (keep : T → Bool) : T → Option (List T)
  | .node i x l s [] => some (if keep (.node i x l s []) then [.node i x l s []] else [])
  | .node i x l s [a, b] =>
    match inRun keep a, inRun keep b with
    | some la, some lb => some (la ++ (if keep (.node i x l s [a, b]) then [.node i x l s [a, b]] else []) ++ lb)
    | _, _ => none
  | .node _ _ _ _ _ => none
end

/-- `levelorder_edge_iter`: `f = lambda nd: filter_fn(nd.edge)`; `for nd in levelorder_iter(f): yield nd.edge` -/
def levelEdgeIter (keep : E → Bool) (t : T) : List E := (levelIter (fun n => keep ⟨n⟩) t).map E.mk
/-- `leaf_edge_iter`: the same wrapper around `leaf_iter` -/
def leafEdgeIter (keep : E → Bool) (t : T) : List E := (leafIter (fun n => keep ⟨n⟩) t).map E.mk
/-- `inorder_edge_iter`: the same wrapper around `inorder_iter` -/
def inEdgeIter (keep : E → Bool) (t : T) : Option (List E) := (inRun (fun n => keep ⟨n⟩) t).map (List.map E.mk)

mutual
/-- the parent-pointer chain of the first node (pre-order) with id `i`: that node first, the root of `t` last.
The code climbs `_parent_node`; the tree type has no parent pointers, so the chain is computed on the way down. -/
def ancPath (i : Nat) : T → Option (List T)
  | .node j x l s cs =>
    if i == j then some [.node j x l s cs]
    else match ancPathL i cs with
      | some p => some (p ++ [.node j x l s cs])
      | none => none
def ancPathL (i : Nat) : List T → Option (List T)
  | [] => none
  | c :: cs => match ancPath i c with
    | some p => some p
    | none => ancPathL i cs
end

/-- `ancestor_iter(filter_fn, inclusive)` started at the node with id `start` of `tree`:
the node itself when `inclusive` and it passes, then every proper ancestor, nearest first, that passes -/
def ancIter (keep : T → Bool) (inclusive : Bool) (tree : T) (start : Nat) : Option (List T) :=
  match ancPath start tree with
  | some (self :: up) => some ((if inclusive && keep self then [self] else []) ++ up.filter keep)
  | _ => none

/-! ### list-returning methods of `Tree` (thin wrappers in the code, thin wrappers here) -/
/-- `Tree.nodes(filter_fn)` -/
def treeNodes (keep : T → Bool) (t : T) : List T := preIter keep t
/-- `Tree.leaf_nodes()` -/
def treeLeafNodes (t : T) : List T := leafIter (fun _ => true) t
/-- `Tree.internal_nodes(exclude_seed_node)` -/
def treeInternalNodes (excl : Bool) (t : T) : List T := preIter (internalKeep excl t.id false (fun _ => true)) t
/-- `Tree.edges(filter_fn)` -/
def treeEdges (keep : E → Bool) (t : T) : List E := preEdgeIter keep t
/-- `Tree.leaf_edges()`: `[leaf.edge for leaf in leaf_node_iter()]` -/
def treeLeafEdges (t : T) : List E := (leafIter (fun _ => true) t).map E.mk
/-- `Tree.internal_edges(exclude_seed_edge)`: `[nd.edge for nd in preorder_internal_node_iter(...)]` -/
def treeInternalEdges (excl : Bool) (t : T) : List E := (treeInternalNodes excl t).map E.mk

/-- a parent chain, read upwards: every entry is a child of the next one (specification vocabulary of `ancestor_iter`) -/
def UpChain : List T → Prop
  | [] => True
  | [_] => True
  | a :: b :: r => a ∈ b.cs ∧ UpChain (b :: r)

/-- the age of a node as the driver looks it up: position `id` of the parsed list (a missing position reads 0,
a well-formed fraction, so that every age the driver can hand to `ageIter` is well formed) -/
def ageOf (as : List Frac) (x : T) : Frac := as.getD x.id Frac.zero


/-! ### specification vocabulary: depth, bracket matching -/

/-- the nodes at depth `k` below the nodes of `level`, left to right (`genL k [t]` = the k-th generation of `t`) -/
def genL : Nat → List T → List T
  | 0, level => level
  | k + 1, level => genL k (level.flatMap T.cs)

/-- well-bracketed callback sequence, checked with the stack of open nodes: `before i` opens `i`, `after i` must close
the innermost open node and that node must be `i`, `leaf` is neutral, nothing may stay open (a Dyck word whose
brackets are labelled with node ids) -/
def dyck : List Nat → List Ev → Bool
  | st, [] => st.isEmpty
  | st, .before i :: r => dyck (i :: st) r
  | st, .leaf _ :: r => dyck st r
  | [], .after _ :: _ => false
  | j :: st, .after i :: r => i == j && dyck st r

/-- the node ids in the order their first callback (`before` or `leaf`) arrives -/
def opens : List Ev → List Nat
  | [] => []
  | .before i :: r => i :: opens r
  | .leaf i :: r => i :: opens r
  | .after _ :: r => opens r

/-- the node ids in the order their last callback (`after` or `leaf`) arrives -/
def closes : List Ev → List Nat
  | [] => []
  | .before _ :: r => closes r
  | .leaf i :: r => i :: closes r
  | .after i :: r => i :: closes r

/-! ### `Node.apply` over a zipper: the climb through parent pointers made explicit

Every stack entry carries its context: the chain of ancestors up to (and including) the start node, nearest first, each
with the answer to the test the code makes on the way up — "is the node below you on this chain your LAST child"
(`node._parent_node._child_nodes[-1] is node`).  The chain ends at the start node (`node is not self` stops there). -/

/-- children pushed with their contexts -/
def pushZip (i : Nat) (ctx : List (Nat × Bool)) : List T → List (T × List (Nat × Bool))
  | [] => []
  | [c] => [(c, (i, true) :: ctx)]
  | c :: d :: cs => (c, (i, false) :: ctx) :: pushZip i ctx (d :: cs)

/-- the inner loop of `apply`: `while node is not self and parent._child_nodes[-1] is node: node = parent; after_fn(node)` -/
def climbZip : List (Nat × Bool) → List Ev
  | [] => []
  | (p, isLast) :: up => if isLast then .after p :: climbZip up else []

def applyZipRun : Nat → List (T × List (Nat × Bool)) → List Ev
  | 0, _ => []
  | _ + 1, [] => []
  | f + 1, (.node i _ _ _ [], ctx) :: rest => .leaf i :: (climbZip ctx ++ applyZipRun f rest)
  | f + 1, (.node i _ _ _ (c :: cs), ctx) :: rest => .before i :: applyZipRun f (pushZip i ctx (c :: cs) ++ rest)

def applyZipTrace (t : T) : List Ev := applyZipRun t.size [(t, [])]

/-! ### `ancestor_iter` at pointer level -/

/-- the parent array of a protocol tree, read from the same tokens `parseTree` reads -/
def parsePar (toks : List String) : Option (Array Int) :=
  match toks with
  | [] => none
  | n :: rest =>
    match n.toNat? with
    | none => none
    | some n => ((rest.take n).mapM String.toInt?).map List.toArray

/-- the loop of `ancestor_iter` as written: `node = node._parent_node` until it is `None` (the seed's -1);
ids of the proper ancestors of `j`, nearest first -/
def climbIds (par : Array Int) : Nat → Nat → List Nat
  | 0, _ => []
  | f + 1, j => if par[j]! < 0 then [] else (par[j]!).toNat :: climbIds par f (par[j]!).toNat

/-- `ancestor_iter(filter_fn, inclusive)` on node ids and parent pointers -/
def ancPtrIter (keep : Nat → Bool) (inclusive : Bool) (par : Array Int) (fuel start : Nat) : List Nat :=
  (if inclusive && keep start then [start] else []) ++ (climbIds par fuel start).filter keep

end DendroModel.C15
