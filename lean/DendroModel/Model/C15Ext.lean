import DendroModel.Model.C15
/-! C15 — further entry points of `Node`/`Tree` (added after the audit): the in-order recursion with the filter
applied at every yield, the three edge iterators that wrap a node iterator, `ancestor_iter`, the list-returning
methods of `Tree`, and the age lookup the driver uses.  Mathlib-free and executable (the driver runs these). -/
namespace DendroModel.C15
open DendroModel

mutual
/-- `inorder_iter` as written: recursion into child 0, the filter test on the node itself, recursion into child 1;
`none` is the `TypeError` raised on a node with 1 or more than 2 children (the harness drains the generator, so an
exception anywhere is the outcome of the whole call) -/
def inRun (keep : T → Bool) : T → Option (List T)
  | .node i x l s [] => some (if keep (.node i x l s []) then [.node i x l s []] else [])
  | .node i x l s [a, b] =>
    match inRun keep a, inRun keep b with
    | some la, some lb => some (la ++ (if keep (.node i x l s [a, b]) then [.node i x l s [a, b]] else []) ++ lb)
    | _, _ => none
  | .node _ _ _ _ _ => none
end

/-- `levelorder_edge_iter`: `f = lambda nd: filter_fn(nd.edge)`; `for nd in levelorder_iter(f): yield nd.edge` -/
def levelEdgeIter (keep : E → Bool) (t : T) : List E := (levelIter (fun n => keep ⟨n⟩) t).map E.mk
/-- `leaf_edge_iter`: the same wrapper around `leaf_iter` -/
def leafEdgeIter (keep : E → Bool) (t : T) : List E := (leafIter (fun n => keep ⟨n⟩) t).map E.mk
/-- `inorder_edge_iter`: the same wrapper around `inorder_iter` -/
def inEdgeIter (keep : E → Bool) (t : T) : Option (List E) := (inRun (fun n => keep ⟨n⟩) t).map (List.map E.mk)

mutual
/-- the parent-pointer chain of the first node (pre-order) with id `i`: that node first, the root of `t` last.
The code climbs `_parent_node`; the tree type has no parent pointers, so the chain is computed on the way down. -/
def ancPath (i : Nat) : T → Option (List T)
  | .node j x l s cs =>
    if i == j then some [.node j x l s cs]
    else match ancPathL i cs with
      | some p => some (p ++ [.node j x l s cs])
      | none => none
def ancPathL (i : Nat) : List T → Option (List T)
  | [] => none
  | c :: cs => match ancPath i c with
    | some p => some p
    | none => ancPathL i cs
end

/-- `ancestor_iter(filter_fn, inclusive)` started at the node with id `start` of `tree`:
the node itself when `inclusive` and it passes, then every proper ancestor, nearest first, that passes -/
def ancIter (keep : T → Bool) (inclusive : Bool) (tree : T) (start : Nat) : Option (List T) :=
  match ancPath start tree with
  | some (self :: up) => some ((if inclusive && keep self then [self] else []) ++ up.filter keep)
  | _ => none

/-! ### list-returning methods of `Tree` (thin wrappers in the code, thin wrappers here) -/
/-- `Tree.nodes(filter_fn)` -/
def treeNodes (keep : T → Bool) (t : T) : List T := preIter keep t
/-- `Tree.leaf_nodes()` -/
def treeLeafNodes (t : T) : List T := leafIter (fun _ => true) t
/-- `Tree.internal_nodes(exclude_seed_node)` -/
def treeInternalNodes (excl : Bool) (t : T) : List T := preIter (internalKeep excl t.id false (fun _ => true)) t
/-- `Tree.edges(filter_fn)` -/
def treeEdges (keep : E → Bool) (t : T) : List E := preEdgeIter keep t
/-- `Tree.leaf_edges()`: `[leaf.edge for leaf in leaf_node_iter()]` -/
def treeLeafEdges (t : T) : List E := (leafIter (fun _ => true) t).map E.mk
/-- `Tree.internal_edges(exclude_seed_edge)`: `[nd.edge for nd in preorder_internal_node_iter(...)]` -/
def treeInternalEdges (excl : Bool) (t : T) : List E := (treeInternalNodes excl t).map E.mk

/-- a parent chain, read upwards: every entry is a child of the next one (specification vocabulary of `ancestor_iter`) -/
def UpChain : List T → Prop
  | [] => True
  | [_] => True
  | a :: b :: r => a ∈ b.cs ∧ UpChain (b :: r)

/-- the age of a node as the driver looks it up: position `id` of the parsed list (a missing position reads 0,
a well-formed fraction, so that every age the driver can hand to `ageIter` is well formed) -/
def ageOf (as : List Frac) (x : T) : Frac := as.getD x.id Frac.zero

end DendroModel.C15
