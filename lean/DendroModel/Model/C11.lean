import DendroModel.Basic.Tree
/-! C11 — a small object store for taxon namespaces and the collections bound to them, and `step`
over the container alphabet of `TreeList`, `Tree`, `CharacterMatrix` and `DataSet`
(Mathlib-free and executable; the driver runs these definitions).

* a taxon is a number (its identity); `label` gives its label (labels never change in this alphabet);
* a namespace is the ordered list of its members + its case flag (`TaxonNamespace._taxa`, `is_case_sensitive`);
* a tree is abstracted to its namespace reference and the taxon references of its nodes in pre-order
  (`None` for a node without taxon); a matrix to its namespace reference and its sequence keys in dict order;
* a tree list is a namespace reference + tree ids; a data set is the attached namespace (if any) and
  its three ordered sets.
Objects live in total maps `Nat → _` with allocation counters; ids at or above a counter are blank. -/
namespace DendroModel.C11
open DendroModel

structure NS where
  members : List Nat := []
  cs : Bool := false
deriving Inhabited

structure Tree where
  ns : Nat := 0
  taxa : List (Option Nat) := []
deriving Inhabited

structure Mat where
  ns : Nat := 0
  keys : List Nat := []
deriving Inhabited

structure TL where
  ns : Nat := 0
  trees : List Nat := []
deriving Inhabited

structure DS where
  att : Option Nat := none
  nss : List Nat := []
  tls : List Nat := []
  mats : List Nat := []
deriving Inhabited

structure Store where
  label : Nat → String := fun _ => ""
  nTaxa : Nat := 0
  ns : Nat → NS := fun _ => {}
  nNs : Nat := 0
  tree : Nat → Tree := fun _ => {}
  nTree : Nat := 0
  tl : Nat → TL := fun _ => {}
  nTl : Nat := 0
  mat : Nat → Mat := fun _ => {}
  nMat : Nat := 0
  ds : Nat → DS := fun _ => {}
  nDs : Nat := 0

def init : Store := {}

def upd {α : Type} (f : Nat → α) (k : Nat) (v : α) : Nat → α := fun i => if i = k then v else f i

/-! ## namespaces -/

/-- the comparison key of a label under a case rule (`str(label).lower()` unless case-sensitive) -/
def keyOf (cs : Bool) (s : String) : String := if cs then s else s.toLower

def mem (s : Store) (n : Nat) : List Nat := (s.ns n).members

/-- `_lookup_label(first_match_only=True)`: first member whose label matches under the rule -/
def lookupFirst (s : Store) (n : Nat) (cs : Bool) (lbl : String) : Option Nat :=
  (mem s n).find? (fun x => keyOf cs (s.label x) == keyOf cs lbl)

/-- the readers' `label_taxon_map()` dictionary: a later member overwrites an earlier one -/
def lookupLast (s : Store) (n : Nat) (cs : Bool) (lbl : String) : Option Nat :=
  (mem s n).reverse.find? (fun x => keyOf cs (s.label x) == keyOf cs lbl)

/-- `add_taxon`: append unless already a member (by identity) -/
def addMember (s : Store) (n x : Nat) : Store :=
  if x ∈ mem s n then s else { s with ns := upd s.ns n { s.ns n with members := mem s n ++ [x] } }

/-- `new_taxon(label)`: a taxon object that did not exist before, appended -/
def newTaxon (s : Store) (n : Nat) (lbl : String) : Store × Nat :=
  ({ s with label := upd s.label s.nTaxa lbl, nTaxa := s.nTaxa + 1,
            ns := upd s.ns n { s.ns n with members := mem s n ++ [s.nTaxa] } }, s.nTaxa)

/-- `require_taxon(label, is_case_sensitive=cs)` -/
def require (s : Store) (n : Nat) (cs : Bool) (lbl : String) : Store × Nat :=
  match lookupFirst s n cs lbl with
  | some x => (s, x)
  | none => newTaxon s n lbl

/-- the readers' symbol mapper: dictionary hit, else `new_taxon` -/
def requireLast (s : Store) (n : Nat) (cs : Bool) (lbl : String) : Store × Nat :=
  match lookupLast s n cs lbl with
  | some x => (s, x)
  | none => newTaxon s n lbl

def requireList (s : Store) (n : Nat) (cs : Bool) : List String → Store × List Nat
  | [] => (s, [])
  | l :: ls =>
    let r := require s n cs l
    let r2 := requireList r.1 n cs ls
    (r2.1, r.2 :: r2.2)

def requireLastList (s : Store) (n : Nat) (cs : Bool) : List String → Store × List Nat
  | [] => (s, [])
  | l :: ls =>
    let r := requireLast s n cs l
    let r2 := requireLastList r.1 n cs ls
    (r2.1, r.2 :: r2.2)

/-- `purge_taxon_namespace()`: `to_remove = [t for t in ns if t not in self.poll_taxa()]`, each removed; the members that stay keep
their order -/
def purge (s : Store) (n : Nat) (keep : List Nat) : Store :=
  { s with ns := upd s.ns n { s.ns n with members := (mem s n).filter (fun x => keep.contains x) } }

/-- a new namespace object with the given case flag; returns its id -/
def newNs (s : Store) (cs : Bool) : Store × Nat :=
  ({ s with ns := upd s.ns s.nNs { s.ns s.nNs with cs := cs }, nNs := s.nNs + 1 }, s.nNs)

def newTaxa (s : Store) (n : Nat) : List String → Store
  | [] => s
  | l :: ls => newTaxa (newTaxon s n l).1 n ls

/-! ## the shared migration map (`reconstruct_taxon_namespace` bodies) -/

abbrev Memo := List (Nat × Nat)

def memoGet (m : Memo) (x : Nat) : Option Nat := (m.find? (fun p => p.1 == x)).map Prod.snd

/-- one node / key of `reconstruct_taxon_namespace`: `(store, memo, new taxon)` -/
def mapOne (s : Store) (n : Nat) (unify : Bool) (memo : Memo) (x : Nat) : Store × Memo × Nat :=
  if unify || !((mem s n).contains x) then
    match memoGet memo x with
    | some t => (addMember s n t, memo, t)
    | none =>
      let r := if unify then require s n (s.ns n).cs (s.label x) else newTaxon s n (s.label x)
      (r.1, (x, r.2) :: memo, r.2)
  else (s, memo, x)

/-- `Tree.reconstruct_taxon_namespace`: the nodes in pre-order -/
def mapTaxa (s : Store) (n : Nat) (unify : Bool) (memo : Memo) : List (Option Nat) → Store × Memo × List (Option Nat)
  | [] => (s, memo, [])
  | none :: xs =>
    let r := mapTaxa s n unify memo xs
    (r.1, r.2.1, none :: r.2.2)
  | some x :: xs =>
    let r1 := mapOne s n unify memo x
    let r := mapTaxa r1.1 n unify r1.2.1 xs
    (r.1, r.2.1, some r1.2.2 :: r.2.2)

/-- `CharacterMatrix.reconstruct_taxon_namespace` (repaired: a key that maps to itself is left alone):
the original keys are processed in order, each re-inserted at the end of the dict; a target taxon that already
carries a sequence stops the loop with `TaxonNamespaceReconstructionError` (`false`), leaving the keys moved so far. -/
def mapKeys (s : Store) (n : Nat) (unify : Bool) (memo : Memo) (cur : List Nat) : List Nat → Store × Memo × List Nat × Bool
  | [] => (s, memo, cur, true)
  | x :: xs =>
    if unify || !((mem s n).contains x) then
      let r1 := mapOne s n unify memo x
      if r1.2.2 == x then mapKeys r1.1 n unify r1.2.1 cur xs
      else if cur.contains r1.2.2 then (r1.1, r1.2.1, cur, false)
      else mapKeys r1.1 n unify r1.2.1 (cur.filter (fun k => k != x) ++ [r1.2.2]) xs
    else mapKeys s n unify memo cur xs

/-- the memo of `_clone_from` with a foreign namespace: every member of the source namespace, in order,
is mapped to `require_taxon(label)` in the target (under the target's own case rule) -/
def cloneMemo (s : Store) (tgt : Nat) : List Nat → Store × Memo
  | [] => (s, [])
  | x :: xs =>
    let r := require s tgt (s.ns tgt).cs (s.label x)
    let r2 := cloneMemo r.1 tgt xs
    (r2.1, (x, r.2) :: r2.2)

def applyMemo (m : Memo) (x : Nat) : Nat := (memoGet m x).getD x

/-! ## trees -/

def setTree (s : Store) (t : Nat) (v : Tree) : Store := { s with tree := upd s.tree t v }

def allocTree (s : Store) (v : Tree) : Store × Nat :=
  ({ s with tree := upd s.tree s.nTree v, nTree := s.nTree + 1 }, s.nTree)

/-- `migrate_taxon_namespace(ns, unify, memo)` on a tree; returns the memo for sharing -/
def migrateTree (s : Store) (t n : Nat) (unify : Bool) (memo : Memo) : Store × Memo :=
  let r := mapTaxa s n unify memo (s.tree t).taxa
  (setTree r.1 t { ns := n, taxa := r.2.2 }, r.2.1)

/-- `tree._taxon_namespace = ns; tree.update_taxon_namespace()` (import strategy "add") -/
def addTree (s : Store) (t n : Nat) : Store :=
  let s1 := (s.tree t).taxa.foldl (fun acc x => match x with | some x => addMember acc n x | none => acc) s
  setTree s1 t { (s.tree t) with ns := n }

/-- `update_taxon_namespace()`: every node taxon is added (as the object it is) to namespace `n` -/
def addTaxa (s : Store) (n : Nat) (xs : List (Option Nat)) : Store :=
  xs.foldl (fun acc x => match x with | some x => addMember acc n x | none => acc) s

inductive Strat where | migrate | add
deriving DecidableEq, Repr

/-- `TreeList._import_tree_to_taxon_namespace` -/
def importTree (s : Store) (n : Nat) (st : Strat) (t : Nat) : Store :=
  if (s.tree t).ns = n then s else
  match st with
  | .migrate => (migrateTree s t n true []).1
  | .add => addTree s t n

def importTrees (s : Store) (n : Nat) (st : Strat) : List Nat → Store
  | [] => s
  | t :: ts => importTrees (importTree s n st t) n st ts

/-- `Tree(src, taxon_namespace=ns)` -/
def cloneTree (s : Store) (src n : Nat) : Store × Nat :=
  let v := s.tree src
  if v.ns = n then allocTree s v
  else
    let r := cloneMemo s n (mem s v.ns)
    allocTree r.1 { ns := n, taxa := v.taxa.map (Option.map (applyMemo r.2)) }

def cloneTrees (s : Store) (n : Nat) : List Nat → Store × List Nat
  | [] => (s, [])
  | t :: ts =>
    let r := cloneTree s t n
    let r2 := cloneTrees r.1 n ts
    (r2.1, r.2 :: r2.2)

/-! ## tree lists -/

def setTrees (s : Store) (l : Nat) (ts : List Nat) : Store := { s with tl := upd s.tl l { (s.tl l) with trees := ts } }

/-- Python slice assignment `xs[a:b] = new` for `0 ≤ a, b` (an end before the start means an empty slice at `a`) -/
def splice (xs : List Nat) (a b : Nat) (new : List Nat) : List Nat := xs.take a ++ new ++ xs.drop (max a b)

def allocTl (s : Store) (n : Nat) : Store × Nat :=
  ({ s with tl := upd s.tl s.nTl { ns := n, trees := [] }, nTl := s.nTl + 1 }, s.nTl)

/-- originals are imported one after the other, then the list is edited -/
def spliceT (s : Store) (l a b : Nat) (st : Strat) (ts : List Nat) : Store :=
  let s1 := importTrees s (s.tl l).ns st ts
  setTrees s1 l (splice (s1.tl l).trees a b ts)

/-- the trees of another `TreeList` are copied -/
def spliceL (s : Store) (l a b l2 : Nat) : Store :=
  let r := cloneTrees s (s.tl l).ns (s.tl l2).trees
  setTrees r.1 l (splice (r.1.tl l).trees a b r.2)

/-- one Newick statement read into namespace `n`: a root without taxon and one leaf per label -/
def readTrees (s : Store) (n : Nat) : List (List String) → Store × List Nat
  | [] => (s, [])
  | labs :: rest =>
    let r := requireLastList s n (s.ns n).cs labs
    let a := allocTree r.1 { ns := n, taxa := none :: r.2.map some }
    let r2 := readTrees a.1 n rest
    (r2.1, a.2 :: r2.2)

/-- a source with trees read into tree list `l`: the labels `pre` of a TAXA-like block are resolved first (first match, as
`require_taxon`), then each tree statement's labels through the readers' symbol table (last match); the new trees are appended -/
def readInto (s : Store) (l : Nat) (pre : List String) (docs : List (List String)) : Store :=
  let n := (s.tl l).ns
  let s1 := (requireList s n (s.ns n).cs pre).1
  let r := readTrees s1 n docs
  setTrees r.1 l ((r.1.tl l).trees ++ r.2)

/-- deep copy of a tree list's trees through one memo: a tree that occurs twice is copied once -/
def copyTrees (s : Store) (n : Nat) (m : Memo) (seen : List (Nat × Nat)) : List Nat → Store × List Nat
  | [] => (s, [])
  | t :: ts =>
    match memoGet seen t with
    | some t' =>
      let r2 := copyTrees s n m seen ts
      (r2.1, t' :: r2.2)
    | none =>
      let a := allocTree s { ns := n, taxa := (s.tree t).taxa.map (Option.map (applyMemo m)) }
      let r2 := copyTrees a.1 n m ((t, a.2) :: seen) ts
      (r2.1, a.2 :: r2.2)

def migrateTrees (s : Store) (n : Nat) (unify : Bool) (memo : Memo) : List Nat → Store × Memo
  | [] => (s, memo)
  | t :: ts =>
    let r := migrateTree s t n unify memo
    migrateTrees r.1 n unify r.2 ts

/-- `TreeList.migrate_taxon_namespace` -/
def migrateTl (s : Store) (l n : Nat) (unify : Bool) (memo : Memo) : Store × Memo :=
  let s1 := { s with tl := upd s.tl l { (s.tl l) with ns := n } }
  migrateTrees s1 n unify memo (s.tl l).trees

/-- `tl.taxon_namespace = ns; tl.update_taxon_namespace()` (plain attribute assignment, then `TreeList.update_taxon_namespace`:
`for tree in self._trees: tree._taxon_namespace = self.taxon_namespace; tree.update_taxon_namespace()`): every tree is re-bound and
its taxon objects are added as they are -/
def addTrees (s : Store) (n : Nat) : List Nat → Store
  | [] => s
  | t :: ts => addTrees (addTree s t n) n ts

def addTl (s : Store) (l n : Nat) : Store :=
  let s1 := { s with tl := upd s.tl l { (s.tl l) with ns := n } }
  addTrees s1 n (s.tl l).trees

/-! ## matrices -/

def allocMat (s : Store) (v : Mat) : Store × Nat :=
  ({ s with mat := upd s.mat s.nMat v, nMat := s.nMat + 1 }, s.nMat)

def migrateMat (s : Store) (m n : Nat) (unify : Bool) (memo : Memo) : Store × Memo × Bool :=
  let r := mapKeys s n unify memo (s.mat m).keys (s.mat m).keys
  ({ r.1 with mat := upd r.1.mat m { ns := n, keys := r.2.2.1 } }, r.2.1, r.2.2.2)

/-- `m.taxon_namespace = ns; m.update_taxon_namespace()`: every sequence key is added (as the object it is) to `n` -/
def addMat (s : Store) (m n : Nat) : Store :=
  let s1 := (s.mat m).keys.foldl (fun acc x => addMember acc n x) s
  { s1 with mat := upd s1.mat m { (s.mat m) with ns := n } }

def dedup : List Nat → List Nat
  | [] => []
  | x :: xs => if (dedup xs).contains x then dedup xs else x :: dedup xs

/-- keys of a deep-copied `_taxon_sequence_map`: a later key landing on a taxon already present overwrites its
sequence in place (one sequence is lost; the repaired constructor refuses instead, see `cloneMat`) -/
def mergeKeys : List Nat → List Nat → List Nat
  | acc, [] => acc
  | acc, x :: xs => if acc.contains x then mergeKeys acc xs else mergeKeys (acc ++ [x]) xs

/-- `CharacterMatrix(src, taxon_namespace=ns)` (repaired: refuses, leaving nothing behind but the required taxa,
when two sequences would land on one taxon) -/
def cloneMat (s : Store) (src : Nat) (n : Nat) : Store × Bool :=
  let v := s.mat src
  if v.ns = n then ((allocMat s v).1, true)
  else
    let r := cloneMemo s n (mem s v.ns)
    let ks := v.keys.map (applyMemo r.2)
    if (mergeKeys [] ks).length == ks.length then ((allocMat r.1 { ns := n, keys := ks }).1, true)
    else (r.1, false)

/-! ## data sets -/

def setDs (s : Store) (d : Nat) (v : DS) : Store := { s with ds := upd s.ds d v }

def addOnce (xs : List Nat) (x : Nat) : List Nat := if xs.contains x then xs else xs ++ [x]

def dsAddTl (s : Store) (d l : Nat) : Store :=
  let v := s.ds d
  setDs s d { v with nss := addOnce v.nss (s.tl l).ns, tls := addOnce v.tls l }

def dsAddMat (s : Store) (d m : Nat) : Store :=
  let v := s.ds d
  setDs s d { v with nss := addOnce v.nss (s.mat m).ns, mats := addOnce v.mats m }

def dsAddNs (s : Store) (d n : Nat) : Store :=
  let v := s.ds d
  setDs s d { v with nss := addOnce v.nss n }

def migrateTls (s : Store) (n : Nat) (memo : Memo) : List Nat → Store × Memo
  | [] => (s, memo)
  | l :: ls =>
    let r := migrateTl s l n true memo
    migrateTls r.1 n r.2 ls

def migrateMats (s : Store) (n : Nat) (memo : Memo) : List Nat → Store × Memo × Bool
  | [] => (s, memo, true)
  | m :: ms =>
    let r := migrateMat s m n true memo
    if r.2.2 then migrateMats r.1 n r.2.1 ms else r

/-! ## several migrations sharing one caller-supplied `taxon_mapping_memo` -/

inductive MigKind where | tree | list | mat
deriving DecidableEq, Repr

/-- one `obj.migrate_taxon_namespace(ns, unify_taxa_by_label=unify, taxon_mapping_memo=memo)` of a chain -/
structure Mig where
  kind : MigKind
  obj : Nat
  ns : Nat
  unify : Bool
deriving Repr

/-- `memo = {}` once, then the migrations one after the other with that same dictionary (possibly into different namespaces:
a memoized taxon that is not a member of the current target is accessioned into it); a refused matrix pass ends the chain -/
def chain (s : Store) (memo : Memo) : List Mig → Store × Bool
  | [] => (s, true)
  | g :: gs =>
    match g.kind with
    | .tree => let r := migrateTree s g.obj g.ns g.unify memo; chain r.1 r.2 gs
    | .list => let r := migrateTl s g.obj g.ns g.unify memo; chain r.1 r.2 gs
    | .mat =>
      let r := migrateMat s g.obj g.ns g.unify memo
      if r.2.2 then chain r.1 r.2.1 gs else (r.1, false)

/-! ## the alphabet -/

inductive Src where
  | trees (ts : List Nat)      -- a plain list of tree objects: the originals are used
  | list (l : Nat)             -- a `TreeList`: its trees are copied
deriving Repr

inductive Op where
  | ns (cs : Bool) (labels : List String)
  | tree (n : Nat) (taxa : List (Option Nat))          -- member positions in namespace n
  | tlist (n : Option Nat)
  | mat (n : Nat) (idx : List Nat)
  | ds
  | append (l t : Nat) (st : Strat)
  | insert (l i t : Nat) (st : Strat)
  | setitem (l i t : Nat)
  | setslice (l a b : Nat) (src : Src)
  | extend (l : Nat) (src : Src)                        -- also `+=`
  | add (l : Nat) (src : Src)                           -- `+`
  | read (l : Nat) (docs : List (List String))
  | newtree (l : Nat) (src : Option Nat)
  | getslice (l a b : Nat)
  | pop (l i : Nat)                                     -- also `del tl[i]`
  | remove (l t : Nat)
  | lclone (l : Nat) (n : Option Nat)
  | tclone (t : Nat) (n : Option Nat)
  | mclone (m : Nat) (n : Option Nat)
  | tmig (t n : Nat) (unify : Bool)
  | trec (t : Nat) (unify : Bool)
  | lmig (l n : Nat) (unify : Bool)
  | lrec (l : Nat) (unify : Bool)
  | mmig (m n : Nat) (unify : Bool)
  | mrec (m : Nat) (unify : Bool)
  | mset (m n i : Nat)
  | mnew (m n i : Nat)
  | dsaddN (d n : Nat)
  | dsaddL (d l : Nat)
  | dsaddM (d m : Nat)
  | dsnewlist (d : Nat)
  | dsnewmat (d : Nat)
  | dsnewns (d : Nat)
  | dsattach (d n : Nat)
  | dsdetach (d : Nat)
  | dsunify (d : Nat) (n : Option Nat)
  | dsread (d : Nat) (taxa : List String) (rows : Option (List String)) (trees : Option (List (List String)))
  | newtreeseed (l t : Nat)                             -- `tl.new_tree(seed_node=<nodes built elsewhere on the taxa of tree t>)`
  | treeseed (n : Option Nat) (t : Nat)                 -- `Tree(seed_node=<such nodes>[, taxon_namespace=n])`
  | readx (l : Nat) (pre : List String) (docs : List (List String))   -- `tl.read` of a source with a TAXA block (NEXUS)
  | tlget (n : Nat) (pre : List String) (docs : List (List String))   -- `TreeList.get(..., taxon_namespace=n)`
  | tget (n : Nat) (pre : List String) (labels : List String)         -- `Tree.get(..., taxon_namespace=n)`
  | mget (n : Nat) (last : Bool) (pre rows : List String)             -- `CharacterMatrix.get(..., taxon_namespace=n)`
  | chain (gs : List Mig)                               -- migrations sharing one caller-supplied memo
  | taadd (n t : Nat)                                   -- `TreeArray(taxon_namespace=n).add_tree(t)`: holds no tree, refuses a foreign one
  /- the `taxon_namespace` property setter (`TaxonNamespaceAssociated._set_taxon_namespace`): with
     `automigrate_taxon_namespace_on_assignment` (`auto`) it is `migrate_taxon_namespace(ns)` unless `ns` is the object already bound;
     without, a plain re-binding, here followed by `update_taxon_namespace()` (the 'add' strategy as a caller spells it) -/
  | tassign (t n : Nat) (auto : Bool)
  | lassign (l n : Nat) (auto : Bool)
  | massign (m n : Nat) (auto : Bool)
  /- `CharacterMatrix.add_sequences / update_sequences / extend_matrix / extend_sequences(is_add_new_sequences=True)` (`addNew`) and
     `replace_sequences / extend_sequences` (not `addNew`) with another matrix: refused unless both refer to one namespace object -/
  | mcomb (m m2 : Nat) (addNew : Bool)
  /- `purge_taxon_namespace()` of a tree / tree list / matrix: members of its namespace it does not refer to (`poll_taxa`) are removed.
     Documented to look at `self` only, so it is outside the ownership domain `valid` (see `purge_closed` for when it keeps closure) -/
  /- `tl[a:b] = (t for t in trees)` - a ONE-SHOT iterable as the operand of a slice assignment: `for t in value: import(t)` consumes
     it, so the trees are imported into the list's namespace and then `self._trees[a:b] = value` assigns nothing: the slice is deleted -/
  | setslicegen (l a b : Nat) (ts : List Nat)
  | tpurge (t : Nat)
  | lpurge (l : Nat)
  | mpurge (m : Nat)
deriving Repr

inductive Status where
  | ok | valueError | conflict | typeError | indexError | nsIdentity
deriving DecidableEq, Repr

def srcInto (s : Store) (l a b : Nat) : Src → Store
  | .trees ts => spliceT s l a b .migrate ts
  | .list l2 => spliceL s l a b l2

def len (s : Store) (l : Nat) : Nat := (s.tl l).trees.length

def step (s : Store) : Op → Store × Status
  | .ns cs labels =>
    let r := newNs s cs
    (newTaxa r.1 r.2 labels, .ok)
  | .tree n taxa =>
    ((allocTree s { ns := n, taxa := taxa.map (fun o => o.bind (fun i => (mem s n)[i]?)) }).1, .ok)
  | .tlist none =>
    let r := newNs s false
    ((allocTl r.1 r.2).1, .ok)
  | .tlist (some n) => ((allocTl s n).1, .ok)
  | .mat n idx => ((allocMat s { ns := n, keys := idx.filterMap (fun i => (mem s n)[i]?) }).1, .ok)
  | .ds => ({ s with nDs := s.nDs + 1 }, .ok)
  | .append l t st => (spliceT s l (len s l) (len s l) st [t], .ok)
  | .insert l i t st => (spliceT s l i i st [t], .ok)
  | .setitem l i t =>
    -- `self._trees[i] = self._import_tree_to_taxon_namespace(t)`: the tree is imported before the position is looked at
    if i < len s l then (spliceT s l i (i + 1) .migrate [t], .ok)
    else (importTrees s (s.tl l).ns .migrate [t], .indexError)
  | .setslice l a b src => (srcInto s l a b src, .ok)
  | .extend l src => (srcInto s l (len s l) (len s l) src, .ok)
  | .add l src =>
    let r := allocTl s (s.tl l).ns
    let s1 := spliceL r.1 r.2 0 0 l
    (srcInto s1 r.2 (len s1 r.2) (len s1 r.2) src, .ok)
  | .read l docs =>
    let r := readTrees s (s.tl l).ns docs
    (setTrees r.1 l ((r.1.tl l).trees ++ r.2), .ok)
  | .newtree l none =>
    let a := allocTree s { ns := (s.tl l).ns, taxa := [none] }
    (setTrees a.1 l ((a.1.tl l).trees ++ [a.2]), .ok)
  | .newtree l (some t) =>
    let a := cloneTree s t (s.tl l).ns
    (setTrees a.1 l ((a.1.tl l).trees ++ [a.2]), .ok)
  | .getslice l a b =>
    let r := allocTl s (s.tl l).ns
    (setTrees r.1 r.2 (((s.tl l).trees.take b).drop a), .ok)
  | .pop l i => (setTrees s l (splice (s.tl l).trees i (i + 1) []), .ok)
  | .remove l t =>
    if (s.tl l).trees.contains t then (setTrees s l ((s.tl l).trees.erase t), .ok) else (s, .valueError)
  | .lclone l n =>
    let src := s.tl l
    let tgt := n.getD src.ns
    let r := if tgt = src.ns then (s, (mem s src.ns).map (fun x => (x, x))) else cloneMemo s tgt (mem s src.ns)
    let a := allocTl r.1 tgt
    let c := copyTrees a.1 tgt r.2 [] src.trees
    (setTrees c.1 a.2 c.2, .ok)
  | .tclone t n => ((cloneTree s t (n.getD (s.tree t).ns)).1, .ok)
  | .mclone m n =>
    let r := cloneMat s m (n.getD (s.mat m).ns)
    (r.1, if r.2 then .ok else .conflict)
  | .tmig t n unify => ((migrateTree s t n unify []).1, .ok)
  | .trec t unify => ((migrateTree s t (s.tree t).ns unify []).1, .ok)
  | .lmig l n unify => ((migrateTl s l n unify []).1, .ok)
  | .lrec l unify => ((migrateTl s l (s.tl l).ns unify []).1, .ok)
  | .mmig m n unify =>
    let r := migrateMat s m n unify []
    (r.1, if r.2.2 then .ok else .conflict)
  | .mrec m unify =>
    let r := migrateMat s m (s.mat m).ns unify []
    (r.1, if r.2.2 then .ok else .conflict)
  | .mset m n i =>
    match (mem s n)[i]? with
    | none => (s, .valueError)
    | some x =>
      if (mem s (s.mat m).ns).contains x then
        ({ s with mat := upd s.mat m { (s.mat m) with keys := addOnce (s.mat m).keys x } }, .ok)
      else (s, .valueError)
  | .mnew m n i =>
    match (mem s n)[i]? with
    | none => (s, .valueError)
    | some x =>
      if (s.mat m).keys.contains x then (s, .valueError)
      else if (mem s (s.mat m).ns).contains x then
        ({ s with mat := upd s.mat m { (s.mat m) with keys := (s.mat m).keys ++ [x] } }, .ok)
      else (s, .valueError)
  | .dsaddN d n => (dsAddNs s d n, .ok)
  | .dsaddL d l => (dsAddTl s d l, .ok)
  | .dsaddM d m => (dsAddMat s d m, .ok)
  | .dsnewlist d =>
    match (s.ds d).att with
    | some a => let r := allocTl s a; (dsAddTl r.1 d r.2, .ok)
    | none =>
      let r0 := newNs s false
      let r := allocTl r0.1 r0.2
      (dsAddTl r.1 d r.2, .ok)
  | .dsnewmat d =>
    match (s.ds d).att with
    | some a => let r := allocMat s { ns := a, keys := [] }; (dsAddMat r.1 d r.2, .ok)
    | none =>
      let r0 := newNs s false
      let r := allocMat r0.1 { ns := r0.2, keys := [] }
      (dsAddMat r.1 d r.2, .ok)
  | .dsnewns d =>
    let r := newNs s false
    (dsAddNs r.1 d r.2, .ok)
  | .dsattach d n =>
    let v := s.ds d
    (setDs s d { v with nss := addOnce v.nss n, att := some n }, .ok)
  | .dsdetach d => (setDs s d { (s.ds d) with att := none }, .ok)
  | .dsunify d n =>
    let v := s.ds d
    if v.nss.isEmpty && v.tls.isEmpty && v.mats.isEmpty then
      match n with
      | some n => (setDs s d { v with nss := addOnce v.nss n, att := some n }, .ok)
      | none => (s, .typeError)       -- attach_taxon_namespace(None) raises TypeError
    else
      let s0 := setDs s d { v with nss := [] }
      let r0 := match n with
        | some n => (s0, n)
        | none => let r := newNs s0 false; (dsAddNs r.1 d r.2, r.2)
      let r1 := migrateTls r0.1 r0.2 [] v.tls
      let r2 := migrateMats r1.1 r0.2 r1.2 v.mats
      if r2.2.2 then
        let v2 := r2.1.ds d
        (setDs r2.1 d { v2 with nss := addOnce v2.nss r0.2, att := some r0.2 }, .ok)
      else (r2.1, .conflict)
  | .dsread d taxa rows trees =>
    let r0 := match (s.ds d).att with
      | some a => (s, a)
      | none => let r := newNs s false; (dsAddNs r.1 d r.2, r.2)
    let n := r0.2
    let cs := (r0.1.ns n).cs
    let s1 := (requireList r0.1 n cs taxa).1
    let s2 := match rows with
      | none => s1
      | some rows =>
        let r := requireList s1 n cs rows
        let a := allocMat r.1 { ns := n, keys := mergeKeys [] r.2 }
        dsAddMat a.1 d a.2
    let s3 := match trees with
      | none => s2
      | some docs =>
        let a := allocTl s2 n
        let s' := dsAddTl a.1 d a.2
        let r := readTrees s' n docs
        setTrees r.1 a.2 r.2
    (s3, .ok)
  | .taadd n t => (s, if (s.tree t).ns = n then .ok else .nsIdentity)
  | .tassign t n true => if (s.tree t).ns = n then (s, .ok) else ((migrateTree s t n true []).1, .ok)
  | .tassign t n false => (addTree s t n, .ok)
  | .lassign l n true => if (s.tl l).ns = n then (s, .ok) else ((migrateTl s l n true []).1, .ok)
  | .lassign l n false => (addTl s l n, .ok)
  | .massign m n true =>
    if (s.mat m).ns = n then (s, .ok) else
    let r := migrateMat s m n true []
    (r.1, if r.2.2 then .ok else .conflict)
  | .massign m n false => (addMat s m n, .ok)
  | .mcomb m m2 addNew =>
    if (s.mat m2).ns = (s.mat m).ns then
      (if addNew then { s with mat := upd s.mat m { (s.mat m) with keys := mergeKeys (s.mat m).keys (s.mat m2).keys } } else s, .ok)
    else (s, .nsIdentity)
  | .setslicegen l a b ts =>
    let s1 := importTrees s (s.tl l).ns .migrate ts
    (setTrees s1 l (splice (s1.tl l).trees a b []), .ok)
  | .tpurge t => (purge s (s.tree t).ns ((s.tree t).taxa.filterMap id), .ok)
  | .lpurge l => (purge s (s.tl l).ns ((s.tl l).trees.flatMap (fun t => (s.tree t).taxa.filterMap id)), .ok)
  | .mpurge m => (purge s (s.mat m).ns (s.mat m).keys, .ok)
  | .chain gs => ((chain s [] gs).1, if (chain s [] gs).2 then .ok else .conflict)
  | .readx l pre docs => (readInto s l pre docs, .ok)
  | .tlget n pre docs => (readInto (allocTl s n).1 (allocTl s n).2 pre docs, .ok)
  | .tget n pre labels =>
    let s1 := (requireList s n (s.ns n).cs pre).1
    let r := requireLastList s1 n (s.ns n).cs labels
    ((allocTree r.1 { ns := n, taxa := none :: r.2.map some }).1, .ok)
  | .mget n last pre rows =>
    let s1 := (requireList s n (s.ns n).cs pre).1
    let r := if last then requireLastList s1 n (s.ns n).cs rows else requireList s1 n (s.ns n).cs rows
    ((allocMat r.1 { ns := n, keys := mergeKeys [] r.2 }).1, .ok)
  | .newtreeseed l t =>
    -- `Tree(seed_node=nd, taxon_namespace=self.taxon_namespace)` ends with `update_taxon_namespace()`: the taxon objects stay
    let n := (s.tl l).ns
    let a := allocTree (addTaxa s n (s.tree t).taxa) { ns := n, taxa := (s.tree t).taxa }
    (setTrees a.1 l ((a.1.tl l).trees ++ [a.2]), .ok)
  | .treeseed (some n) t => ((allocTree (addTaxa s n (s.tree t).taxa) { ns := n, taxa := (s.tree t).taxa }).1, .ok)
  | .treeseed none t =>
    let r := newNs s false
    ((allocTree (addTaxa r.1 r.2 (s.tree t).taxa) { ns := r.2, taxa := (s.tree t).taxa }).1, .ok)

def run (s : Store) : List Op → Store
  | [] => s
  | op :: ops => run (step s op).1 ops

/-! ## what the code refuses outright: ids of objects that do not exist, positions out of range (`IndexError`) -/

def srcIds (s : Store) : Src → Bool
  | .trees ts => ts.all (fun t => decide (t < s.nTree))
  | .list l => decide (l < s.nTl)

def onsOk (s : Store) : Option Nat → Bool
  | none => true
  | some n => decide (n < s.nNs)

def idsOk (s : Store) : Op → Bool
  | .ns _ _ | .ds => true
  | .tree n taxa => decide (n < s.nNs) && taxa.all (fun o => match o with | none => true | some i => decide (i < (mem s n).length))
  | .tlist n => onsOk s n
  | .mat n idx => decide (n < s.nNs) && idx.all (fun i => decide (i < (mem s n).length))
  | .append l t _ => decide (l < s.nTl) && decide (t < s.nTree)
  | .insert l _ t _ => decide (l < s.nTl) && decide (t < s.nTree)
  | .setitem l _ t => decide (l < s.nTl) && decide (t < s.nTree)
  | .setslice l _ _ src | .extend l src | .add l src => decide (l < s.nTl) && srcIds s src
  | .read l _ | .getslice l _ _ => decide (l < s.nTl)
  | .newtree l none => decide (l < s.nTl)
  | .newtree l (some t) => decide (l < s.nTl) && decide (t < s.nTree)
  | .pop l i => decide (l < s.nTl) && decide (i < (s.tl l).trees.length)
  | .remove l t => decide (l < s.nTl) && decide (t < s.nTree)
  | .lclone l n => decide (l < s.nTl) && onsOk s n
  | .tclone t n => decide (t < s.nTree) && onsOk s n
  | .mclone m n => decide (m < s.nMat) && onsOk s n
  | .tmig t n _ => decide (t < s.nTree) && decide (n < s.nNs)
  | .trec t _ => decide (t < s.nTree)
  | .lmig l n _ => decide (l < s.nTl) && decide (n < s.nNs)
  | .lrec l _ => decide (l < s.nTl)
  | .mmig m n _ => decide (m < s.nMat) && decide (n < s.nNs)
  | .mrec m _ => decide (m < s.nMat)
  | .mset m n i | .mnew m n i => decide (m < s.nMat) && decide (n < s.nNs) && decide (i < (mem s n).length)
  | .dsaddN d n => decide (d < s.nDs) && decide (n < s.nNs)
  | .dsaddL d l => decide (d < s.nDs) && decide (l < s.nTl)
  | .dsaddM d m => decide (d < s.nDs) && decide (m < s.nMat)
  | .dsnewlist d | .dsnewmat d | .dsnewns d | .dsdetach d | .dsread d _ _ _ => decide (d < s.nDs)
  | .dsattach d n => decide (d < s.nDs) && decide (n < s.nNs)
  | .dsunify d n => decide (d < s.nDs) && onsOk s n
  | .taadd n t => decide (n < s.nNs) && decide (t < s.nTree)
  | .tassign t n _ => decide (t < s.nTree) && decide (n < s.nNs)
  | .lassign l n _ => decide (l < s.nTl) && decide (n < s.nNs)
  | .massign m n _ => decide (m < s.nMat) && decide (n < s.nNs)
  | .mcomb m m2 _ => decide (m < s.nMat) && decide (m2 < s.nMat)
  | .setslicegen l _ _ ts => decide (l < s.nTl) && ts.all (fun t => decide (t < s.nTree))
  | .tpurge t => decide (t < s.nTree)
  | .lpurge l => decide (l < s.nTl)
  | .mpurge m => decide (m < s.nMat)
  | .chain gs => gs.all (fun g => decide (g.ns < s.nNs) && (match g.kind with
      | .tree => decide (g.obj < s.nTree) | .list => decide (g.obj < s.nTl) | .mat => decide (g.obj < s.nMat)))
  | .readx l _ _ => decide (l < s.nTl)
  | .tlget n _ _ | .tget n _ _ | .mget n _ _ _ => decide (n < s.nNs)
  | .newtreeseed l t => decide (l < s.nTl) && decide (t < s.nTree)
  | .treeseed n t => onsOk s n && decide (t < s.nTree)

/-- what the driver runs: an operation addressing a missing object or position is refused and changes nothing -/
def stepG (s : Store) (op : Op) : Store × Status :=
  if idsOk s op then step s op else (s, .indexError)

/-! ## the domain of the closure theorems: ownership and refusal-free migrations (decidable) -/

/-- tree `t` is in no tree list other than `except` -/
def freeTree (s : Store) (t : Nat) (except : Option Nat) : Bool :=
  (List.range s.nTl).all (fun l => some l == except || !((s.tl l).trees.contains t))

/-- tree `t` may be re-bound to namespace `n` -/
def rebindOk (s : Store) (t n : Nat) (except : Option Nat) : Bool :=
  (s.tree t).ns == n || freeTree s t except

/-- no attached data set with another namespace holds tree list `l` -/
def tlFreeOfDs (s : Store) (l n : Nat) (exceptD : Option Nat) : Bool :=
  (List.range s.nDs).all (fun d => some d == exceptD || !((s.ds d).tls.contains l) || (s.ds d).att == none || (s.ds d).att == some n)

def matFreeOfDs (s : Store) (m n : Nat) (exceptD : Option Nat) : Bool :=
  (List.range s.nDs).all (fun d => some d == exceptD || !((s.ds d).mats.contains m) || (s.ds d).att == none || (s.ds d).att == some n)

def srcOk (s : Store) (n : Nat) (except : Option Nat) : Src → Bool
  | .trees ts => ts.all (fun t => rebindOk s t n except && decide (t < s.nTree))
  | .list _ => true

def tlRebindOk (s : Store) (l n : Nat) (exceptD : Option Nat) : Bool :=
  (s.tl l).ns == n ||
    ((s.tl l).trees.all (fun t => freeTree s t (some l)) && tlFreeOfDs s l n exceptD)

/-- every migration of the chain is inside the ownership domain in the store it meets, and no matrix pass is refused -/
def chainOk (s : Store) (memo : Memo) : List Mig → Bool
  | [] => true
  | g :: gs =>
    match g.kind with
    | .tree => rebindOk s g.obj g.ns none && chainOk (migrateTree s g.obj g.ns g.unify memo).1 (migrateTree s g.obj g.ns g.unify memo).2 gs
    | .list => decide (g.obj < s.nTl) && tlRebindOk s g.obj g.ns none
        && chainOk (migrateTl s g.obj g.ns g.unify memo).1 (migrateTl s g.obj g.ns g.unify memo).2 gs
    | .mat => ((s.mat g.obj).ns == g.ns || matFreeOfDs s g.obj g.ns none) && (migrateMat s g.obj g.ns g.unify memo).2.2
        && chainOk (migrateMat s g.obj g.ns g.unify memo).1 (migrateMat s g.obj g.ns g.unify memo).2.1 gs

/-- the ownership part of the domain -/
def owner (s : Store) : Op → Bool
  | .chain gs => chainOk s [] gs
  | .append l t _ => rebindOk s t (s.tl l).ns (some l) && decide (t < s.nTree)
  | .insert l _ t _ => rebindOk s t (s.tl l).ns (some l) && decide (t < s.nTree)
  | .setitem l _ t => rebindOk s t (s.tl l).ns (some l) && decide (t < s.nTree)
  | .setslice l _ _ src => srcOk s (s.tl l).ns (some l) src
  | .setslicegen l _ _ ts => srcOk s (s.tl l).ns (some l) (.trees ts)
  | .extend l src => srcOk s (s.tl l).ns (some l) src
  | .add l src => srcOk s (s.tl l).ns none src
  | .tmig t n _ => rebindOk s t n none
  | .tpurge _ | .lpurge _ | .mpurge _ => false
  | .tassign t n _ => rebindOk s t n none
  | .lassign l n _ => tlRebindOk s l n none
  | .massign m n auto => (s.mat m).ns == n || (matFreeOfDs s m n none && (!auto || (migrateMat s m n true []).2.2))
  | .lmig l n _ => tlRebindOk s l n none
  | .mmig m n u => ((s.mat m).ns == n || matFreeOfDs s m n none) && (migrateMat s m n u []).2.2
  | .mrec m u => (migrateMat s m (s.mat m).ns u []).2.2
  | .mclone m n => (cloneMat s m (n.getD (s.mat m).ns)).2
  | .dsaddL d l => ((s.ds d).att == none || (s.ds d).att == some (s.tl l).ns) && decide (l < s.nTl)
  | .dsaddM d m => ((s.ds d).att == none || (s.ds d).att == some (s.mat m).ns) && decide (m < s.nMat)
  | .dsattach d n => (s.ds d).tls.all (fun l => (s.tl l).ns == n) && (s.ds d).mats.all (fun m => (s.mat m).ns == n)
  | .dsunify d n =>
    let tgt := n.getD s.nNs
    (s.ds d).tls.all (fun l => (s.tl l).ns == tgt || ((s.tl l).trees.all (fun t =>
        (List.range s.nTl).all (fun l' => !((s.tl l').trees.contains t) || (s.ds d).tls.contains l')) && tlFreeOfDs s l tgt (some d)))
      && (s.ds d).mats.all (fun m => (s.mat m).ns == tgt || matFreeOfDs s m tgt (some d))
      && (step s (.dsunify d n)).2 == .ok
  | _ => true

/-- the addressed container exists -/
def inRange (s : Store) : Op → Bool
  | .append l _ _ | .insert l _ _ _ | .setitem l _ _ | .setslice l _ _ _ | .extend l _ | .add l _ | .read l _ | .newtree l _
  | .getslice l _ _ | .pop l _ | .remove l _ | .lclone l _ | .lmig l _ _ | .lrec l _ | .newtreeseed l _ | .readx l _ _
  | .lassign l _ _ | .setslicegen l _ _ _ => decide (l < s.nTl)
  | .dsaddN d _ | .dsaddL d _ | .dsaddM d _ | .dsnewlist d | .dsnewmat d | .dsnewns d | .dsattach d _ | .dsdetach d
  | .dsunify d _ | .dsread d _ _ _ => decide (d < s.nDs)
  | _ => true

def valid (s : Store) (op : Op) : Bool := idsOk s op && inRange s op && owner s op

/-! ## rendering (taxon ids are renamed by the harness) -/

def renderTaxon (s : Store) (x : Nat) : String := toString x ++ "." ++ encodeStr (some (s.label x))

def commaNat (l : List Nat) : String := ",".intercalate (l.map toString)

def render (s : Store) : String :=
  let xs := "X" ++ ",".intercalate ((List.range s.nTaxa).map (renderTaxon s))
  let nss := (List.range s.nNs).map (fun n =>
    "N" ++ (if (s.ns n).cs then "1" else "0") ++ ":" ++ ",".intercalate ((mem s n).map (renderTaxon s)))
  let ts := (List.range s.nTree).map (fun t =>
    "T" ++ toString (s.tree t).ns ++ ":" ++ ",".intercalate ((s.tree t).taxa.map (fun o => match o with | some x => toString x | none => "-")))
  let ms := (List.range s.nMat).map (fun m => "M" ++ toString (s.mat m).ns ++ ":" ++ commaNat (s.mat m).keys)
  let ls := (List.range s.nTl).map (fun l => "L" ++ toString (s.tl l).ns ++ ":" ++ commaNat (s.tl l).trees)
  let dss := (List.range s.nDs).map (fun d =>
    let v := s.ds d
    "D" ++ (match v.att with | some a => toString a | none => "-") ++ ":" ++ commaNat v.nss ++ ":" ++ commaNat v.tls ++ ":" ++ commaNat v.mats)
  " ".intercalate (xs :: (nss ++ ts ++ ms ++ ls ++ dss))

def Status.text : Status → String
  | .ok => "ok" | .valueError => "ValueError" | .conflict => "Conflict" | .typeError => "TypeError"
  | .indexError => "IndexError" | .nsIdentity => "NamespaceIdentity"

/-- trace of a history: per step `status valid|invalid state` -/
def trace (s : Store) : List Op → List String
  | [] => []
  | op :: ops =>
    let v := valid s op
    let r := stepG s op
    (r.2.text ++ " " ++ (if v then "valid" else "invalid") ++ " " ++ render r.1) :: trace r.1 ops

end DendroModel.C11
