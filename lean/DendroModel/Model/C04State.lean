import DendroModel.Model.C04
/-! C04 — the part of a `Tree` object's state that the distance functions of `treecompare` read and write: the namespace
identity, the current structure, and the bipartition encoding stored by the last `encode_bipartitions()`; the
`is_bipartitions_updated` switch; the namespace identity check.  (Mathlib-free: the driver runs these definitions.)
Not modelled: the lazily built split → edge map that the *weighted* functions read when `is_bipartitions_updated=True`
(it mixes old bipartitions with the current edges); with default arguments the weighted functions re-encode, and are then
`wrf` / `euclidSq` of the current structures, as in `Model/C04.lean`. -/
namespace DendroModel.C04
open DendroModel

structure TreeObj where
  /-- identity of the taxon namespace object -/
  ns : Nat
  rooted : Option Bool
  /-- the structure as it is now -/
  cur : T
  /-- split masks of `bipartition_encoding` as stored by the last encoding; `none` = never encoded -/
  enc : Option (List Int)

/-- the splits of the structure as it is now -/
def TreeObj.fresh (o : TreeObj) : List Int := (edgeRecs o.rooted o.cur).map (·.split)

/-- `encode_bipartitions()` with default flags -/
def TreeObj.encode (o : TreeObj) : TreeObj := { o with enc := some o.fresh }

/-- what every public function does to each argument first: `is_bipartitions_updated=False` (the default) re-encodes;
    `True` encodes only a tree that was never encoded -/
def TreeObj.prepare (updated : Bool) (o : TreeObj) : TreeObj :=
  if updated then (match o.enc with | some _ => o | none => o.encode) else o.encode

def TreeObj.splits (o : TreeObj) : List Int := o.enc.getD []

/-- a structural edit through the `Node` API: the tree object is not told, its stored encoding stays -/
def TreeObj.edit (o : TreeObj) (t : T) : TreeObj := { o with cur := t }

/-- a change of the rooting state (`is_rooted = …`, `deroot()`, `reroot_at_node/edge/midpoint`, …), possibly together with the
    re-drawing the call performs: flag and structure change, the tree object's stored encoding — made under the OLD flag — stays -/
def TreeObj.reroot (o : TreeObj) (r : Option Bool) (t : T) : TreeObj := { o with rooted := r, cur := t }

/-- `false_positives_and_negatives(a, b, is_bipartitions_updated)`; `none` = refused (`taxon_namespace is not`).
    Returns the two tree objects as the call leaves them. -/
def fpfnCall (updated : Bool) (a b : TreeObj) : Option (Nat × Nat) × TreeObj × TreeObj :=
  if a.ns != b.ns then (none, a, b)
  else (some (fpfn (a.prepare updated).splits (b.prepare updated).splits), a.prepare updated, b.prepare updated)

/-- `find_missing_bipartitions(a, b, is_bipartitions_updated)` -/
def missingCall (updated : Bool) (a b : TreeObj) : Option (List Int) × TreeObj × TreeObj :=
  if a.ns != b.ns then (none, a, b)
  else (some (missing (a.prepare updated).splits (b.prepare updated).splits), a.prepare updated, b.prepare updated)

/-- `weighted_robinson_foulds_distance` / `euclidean_distance` (squared) with DEFAULT arguments: outer `none` = refused because
    of the namespaces, inner `none` = refused because of a missing length -/
def weightedCall (a b : TreeObj) : Option (Option Rat × Option Rat) × TreeObj × TreeObj :=
  if a.ns != b.ns then (none, a, b)
  else (some (wrf (edgeMap (edgeRecs a.rooted a.cur)) (edgeMap (edgeRecs b.rooted b.cur)),
              euclidSq (edgeMap (edgeRecs a.rooted a.cur)) (edgeMap (edgeRecs b.rooted b.cur))), a.encode, b.encode)

/-- one event of a history on two tree objects -/
inductive Ev where
  | editA (t : T)
  | editB (t : T)
  | rootA (r : Option Bool) (t : T)
  | rootB (r : Option Bool) (t : T)
  | fpfn (updated : Bool)
  | missing (updated : Bool)
  | weighted

def step (st : TreeObj × TreeObj) : Ev → TreeObj × TreeObj
  | .editA t => (st.1.edit t, st.2)
  | .editB t => (st.1, st.2.edit t)
  | .rootA r t => (st.1.reroot r t, st.2)
  | .rootB r t => (st.1, st.2.reroot r t)
  | .fpfn u => (fpfnCall u st.1 st.2).2
  | .missing u => (missingCall u st.1 st.2).2
  | .weighted => (weightedCall st.1 st.2).2

def run (evs : List Ev) (st : TreeObj × TreeObj) : TreeObj × TreeObj := evs.foldl step st

end DendroModel.C04
