import DendroModel.Basic.Tree
import DendroModel.Model.Hier
/-! Tree-level building blocks shared by the models of C01/C04/C05/C07/C08 (Mathlib-free):
length merging, unifurcation suppression, basal-bifurcation collapse, projection to mask-labelled trees. -/
namespace DendroModel

/-- `child.len += parent.len` as unifurcation suppression does it: `None` parent length leaves the child alone,
    `None` child length takes the parent's -/
def addLen (a b : Option Frac) : Option Frac :=
  match b with
  | none => a
  | some y => match a with
    | none => some y
    | some x => some (x + y)

/-- `collapse_basal_bifurcation`: the kept sibling absorbs the dissolved edge's length; a missing length is
    treated as absent (None + x = x, x + None = x, None + None = None) -/
def tryAdd (a b : Option Frac) : Option Frac := addLen a b

namespace T

mutual
/-- unifurcation suppression in post-order: a node left with exactly one child is replaced by that child,
    which keeps the node's position and absorbs its edge length -/
def sup : T → T
  | .node i x l s cs => match supL cs with
    | [c] => c.withLen (addLen c.len l)
    | cs' => .node i x l s cs'
def supL : List T → List T
  | [] => []
  | c :: cs => sup c :: supL cs
end

/-- `collapse_basal_bifurcation`: seed with exactly two children; delete child 1 if it has ≥ 2 children, else
    child 0 if it has ≥ 2 children; the deleted node's children take its place, the kept sibling absorbs its length -/
def collapseBasal : T → T
  | .node i x l s [a, b] =>
    if b.cs.length ≥ 2 then .node i x l s (a.withLen (tryAdd a.len b.len) :: b.cs)
    else if a.cs.length ≥ 2 then .node i x l s (a.cs ++ [b.withLen (tryAdd b.len a.len)])
    else .node i x l s [a, b]
  | t => t

mutual
/-- projection to a mask-labelled tree: a leaf carries its taxon bit; a leaf without taxon has empty mask -/
def toH : T → Hier.T
  | .node _ x _ _ [] => match x with
    | some k => .leaf k
    | none => .node []
  | .node _ _ _ _ (c :: cs) => .node (toHL (c :: cs))
def toHL : List T → List Hier.T
  | [] => []
  | c :: cs => toH c :: toHL cs
end

mutual
/-- leafset masks of all nodes in post-order (the order of `bipartition_encoding`) -/
def masksPost : T → List Nat
  | .node i x l s cs => masksPostL cs ++ [mask (.node i x l s cs)]
def masksPostL : List T → List Nat
  | [] => []
  | c :: cs => masksPost c ++ masksPostL cs
end

end T
end DendroModel
