import DendroModel.Model.C02
/-! C02 — executable model of the NeXML tree writer and reader on the ABSTRACT document (Mathlib-free).

The document is the element structure `xml.etree` hands to the reader and the writer's text parses to: an `otus` block
(`otu` elements with `id`, `label`), a `trees` block with `tree` elements, each a list of `node` elements (`id`, `label`,
`otu`, `root`) and a list of `edge` / `rootedge` elements (`id`, `source`, `target`, `length`).  XML text, attribute
quoting and `xml.etree` itself are NOT modelled (the harness parses the library's text with `xml.etree` and hands the
element structure over).

* `nxWrite`    : `NexmlWriter._write` → `_write_taxon_namespace`, `_write_tree_list`, `_write_tree`, `_write_node`,
                 `_write_edge`, `_get_nexml_id` (ids `d<k>`, `k` = number of ids handed out so far)
* `nxRead`     : `NexmlReader._parse_taxon_namespaces`, `_parse_tree_list`, `_NexmlTreeParser.build_tree`
                 (`_parse_nodes`, `_parse_edges_info`, parent assignment in edge order, seed detection, `rootedge`) -/
namespace DendroModel.C02

structure XNode where
  id : Nat
  label : Option Str
  otu : Option Nat
  root : Bool
deriving Repr

structure XEdge where
  id : Nat
  source : Option Nat    -- `none`: a `rootedge` element
  target : Nat
  length : Option Str
deriving Repr

structure XTree where
  id : Nat
  label : Option Str
  nodes : List XNode
  edges : List XEdge

structure XDoc where
  otusId : Nat
  otus : List (Nat × Option Str)
  treesId : Nat
  trees : List XTree

/-! ### the writer -/

/-- an attribute written only for a truthy (non-empty) value: `if x.label:` -/
def truthy : Option Str → Option Str
  | some s => if s.isEmpty then none else some s
  | none => none

/-- model tree with the node ids the writer hands out -/
inductive IT where
  | node (id : Nat) (taxon label len : Option Str) (cs : List IT)

mutual
/-- `preorder_node_iter` + `_get_nexml_id`: a node takes the next id, then its children left to right -/
def number : NT → Nat → IT × Nat
  | .node tx lb ln cs, n =>
    match numberL cs (n + 1) with
    | (cs', n') => (.node n tx lb ln cs', n')
def numberL : List NT → Nat → List IT × Nat
  | [], n => ([], n)
  | c :: cs, n =>
    match number c n with
    | (c', n1) =>
      match numberL cs n1 with
      | (cs', n2) => (c' :: cs', n2)
end

mutual
/-- the `node` elements, in pre-order; `rootId` = the seed's id when the tree is rooted -/
def itNodes (otuOf : Str → Option Nat) (rootId : Option Nat) : IT → List XNode
  | .node id tx lb _ cs => ⟨id, truthy lb, tx.bind otuOf, rootId == some id⟩ :: itNodesL otuOf rootId cs
def itNodesL (otuOf : Str → Option Nat) (rootId : Option Nat) : List IT → List XNode
  | [] => []
  | c :: cs => itNodes otuOf rootId c ++ itNodesL otuOf rootId cs
end

mutual
/-- the `rootedge` / `edge` elements, in pre-order of their head nodes (`preorder_edge_iter`); the edge of the node with
    id `i` gets the id `i + sz` (`sz` nodes took their ids first) -/
def itEdges (sz : Nat) (parent : Option Nat) : IT → List XEdge
  | .node id _ _ ln cs => ⟨id + sz, parent, id, ln⟩ :: itEdgesL sz (some id) cs
def itEdgesL (sz : Nat) (parent : Option Nat) : List IT → List XEdge
  | [] => []
  | c :: cs => itEdges sz parent c ++ itEdgesL sz parent cs
end

def findIdx (l : Str) : List Str → Nat → Option Nat
  | [], _ => none
  | x :: xs, i => if x == l then some i else findIdx l xs (i + 1)

/-- one written tree: name (`tree.label`), rooting code (2 = rooted; 0 / 1 write no `root` attribute), tree -/
abbrev XW := Option Str × Nat × NT

/-- `_write_tree` with the id counter at `c`: (element, counter afterwards).  Taxon ids: the `k`-th namespace member has id `k + 1` -/
def nxWriteTree (ns : List Str) (c : Nat) (x : XW) : XTree × Nat :=
  match number x.2.2 (c + 1) with
  | (it, c') =>
    let sz := c' - (c + 1)
    (⟨c, truthy x.1, itNodes (fun l => (findIdx l ns 0).map (· + 1)) (if x.2.1 == 2 then some (c + 1) else none) it,
      itEdges sz none it⟩, c' + sz)

def nxWriteTrees (ns : List Str) : Nat → List XW → List XTree
  | _, [] => []
  | c, x :: xs => (nxWriteTree ns c x).1 :: nxWriteTrees ns (nxWriteTree ns c x).2 xs

def otuList : List Str → Nat → List (Nat × Option Str)
  | [], _ => []
  | l :: ls, i => (i, truthy (some l)) :: otuList ls (i + 1)

/-- `NexmlWriter._write` for one tree list over one namespace -/
def nxWrite (ns : List Str) (trees : List XW) : XDoc :=
  ⟨0, otuList ns 1, ns.length + 1, nxWriteTrees ns (ns.length + 2) trees⟩

/-! ### the reader -/

/-- `_parse_taxon_namespaces` for one `otus` block into the namespace `ns0` (empty, or the caller's): every `otu` is
    the taxon with its label up to the case folding, else a new one; result: namespace, `otu id ↦ taxon label` -/
def nxOtus (cf : Char → Char) : List (Nat × Option Str) → List Str → List (Nat × Str) → Option (List Str × List (Nat × Str))
  | [], ns, m => some (ns, m)
  | (i, some l) :: r, ns, m =>
    match ns.find? (fun x => lowerWith cf x == lowerWith cf l) with
    | some x => nxOtus cf r ns (m ++ [(i, x)])
    | none => nxOtus cf r (ns ++ [l]) (m ++ [(i, l)])
  | (_, none) :: _, _, _ => none      -- an `otu` without label (a taxon without label): outside the model

def hasDup : List Nat → Bool
  | [] => false
  | x :: xs => xs.contains x || hasDup xs

/-- the children of node `n`: the targets of the `edge` elements whose source is `n`, in document order
    (`head_node.parent_node = tail_node` appends to the tail's child list) -/
def kidsOf (edges : List XEdge) (n : Nat) : List XEdge :=
  edges.filter (fun e => e.source == some n)

mutual
/-- the tree hanging from node `n` (fuel: the number of nodes) -/
def nxBuild (nodes : List XNode) (otus : List (Nat × Str)) (edges : List XEdge) : Nat → Nat → Option Str → Option NT
  | 0, _, _ => none
  | f + 1, n, len =>
    match nodes.find? (fun x => x.id == n) with
    | none => none
    | some x =>
      match (match x.otu with
             | none => some none
             | some o => (otus.find? (fun p => p.1 == o)).map (fun p => some p.2)) with
      | none => none                     -- `otu` refers to an undefined taxon
      | some tx =>
        match nxBuildL nodes otus edges f (kidsOf edges n) with
        | none => none
        | some cs => some (.node tx x.label len cs)
def nxBuildL (nodes : List XNode) (otus : List (Nat × Str)) (edges : List XEdge) : Nat → List XEdge → Option (List NT)
  | _, [] => some []
  | f, e :: es =>
    match nxBuild nodes otus edges f e.target e.length with
    | none => none
    | some c =>
      match nxBuildL nodes otus edges f es with
      | none => none
      | some cs => some (c :: cs)
end

/-- `_NexmlTreeParser.build_tree`.  Refused (`none`) where the library raises, and — rather than guessed — where the
    document leaves what a writer produces: duplicate node ids, a node that is the target of two edges, several
    parentless nodes (the library attaches them in set order). -/
def nxReadTree (otus : List (Nat × Str)) (x : XTree) : Option (Str × PT) :=
  let inner := x.edges.filter (fun e => e.source.isSome)
  let rootedges := x.edges.filter (fun e => e.source.isNone)
  let roots := x.nodes.filter (·.root)
  let ids := x.nodes.map (·.id)
  if hasDup ids || hasDup (inner.map (·.target)) then none
  else if !(inner.all (fun e => ids.contains e.target && (match e.source with | some s => ids.contains s | none => true))) then none
  else
    match ids.filter (fun i => !(inner.map (·.target)).contains i), roots, rootedges with
    | [seed], [], [] => (nxBuild x.nodes otus inner (x.nodes.length) seed none).map (fun t => ((x.label.getD []), ⟨1, none, t⟩))
    | [seed], [], [re] =>
      if re.target == seed then (nxBuild x.nodes otus inner (x.nodes.length) seed re.length).map (fun t => ((x.label.getD []), ⟨1, none, t⟩))
      else none
    | [seed], [r], [] =>
      if r.id == seed then (nxBuild x.nodes otus inner (x.nodes.length) seed none).map (fun t => ((x.label.getD []), ⟨2, none, t⟩))
      else none
    | [seed], [r], [re] =>
      if r.id == seed && re.target == seed then
        (nxBuild x.nodes otus inner (x.nodes.length) seed re.length).map (fun t => ((x.label.getD []), ⟨2, none, t⟩))
      else none
    | _, _, _ => none

def nxReadTrees (otus : List (Nat × Str)) : List XTree → Option (List (Str × PT))
  | [] => some []
  | x :: xs =>
    match nxReadTree otus x with
    | none => none
    | some t => (nxReadTrees otus xs).map (t :: ·)

/-- `TreeList.get(data=…, schema="nexml")` on the element structure (`attached` = `taxon_namespace=` when given) -/
def nxRead (cf : Char → Char) (attached : Option (List Str)) (d : XDoc) : Option Doc :=
  match nxOtus cf d.otus (attached.getD []) [] with
  | none => none
  | some (ns, m) =>
    match nxReadTrees m d.trees with
    | none => none
    | some ts => some ⟨ns, [], ts⟩

/-! ### attribute values: `_protect_attr` = `xml.sax.saxutils.quoteattr`, and the XML parser's reading of a quoted value -/

/-- `escape(data, {'\n': '&#10;', '\r': '&#13;', '\t': '&#9;'})`, one character -/
def xmlEsc (c : Char) : Str :=
  if c == '&' then ['&', 'a', 'm', 'p', ';']
  else if c == '<' then ['&', 'l', 't', ';']
  else if c == '>' then ['&', 'g', 't', ';']
  else if c == '\n' then ['&', '#', '1', '0', ';']
  else if c == '\r' then ['&', '#', '1', '3', ';']
  else if c == '\t' then ['&', '#', '9', ';']
  else [c]

def quotEsc (c : Char) : Str := if c == '"' then ['&', 'q', 'u', 'o', 't', ';'] else [c]

/-- `quoteattr`: escape, then delimit by `"` — or by `'` when the value has a `"` and no `'`; with both, `"` becomes `&quot;` -/
def quoteAttr (s : Str) : Str :=
  let d := s.flatMap xmlEsc
  if d.contains '"' then
    (if d.contains '\'' then '"' :: (d.flatMap quotEsc ++ ['"']) else '\'' :: (d ++ ['\'']))
  else '"' :: (d ++ ['"'])

/-- a reference name between `&` and `;`: the five predefined entities and decimal character references -/
def xmlEntity (e : Str) : Option Char :=
  if e == ['a', 'm', 'p'] then some '&'
  else if e == ['l', 't'] then some '<'
  else if e == ['g', 't'] then some '>'
  else if e == ['q', 'u', 'o', 't'] then some '"'
  else if e == ['a', 'p', 'o', 's'] then some '\''
  else match e with
    | '#' :: ds => if isDigits ds then some (Char.ofNat (natOf ds)) else none
    | _ => none

/-- the value of an attribute as an XML parser reports it, positioned after the opening quote `q`: up to the closing
    quote; references resolved; a literal tab / LF / CR is normalised to a blank; a literal `<` is not well formed.
    `ent` = the reference name being read.  Result: (value, text after the closing quote). -/
def decAttr (q : Char) : Str → Option Str → Str → Option (Str × Str)
  | [], _, _ => none
  | c :: cs, none, acc =>
    if c == q then some (acc, cs)
    else if c == '&' then decAttr q cs (some []) acc
    else if c == '<' then none
    else if c == '\t' || c == '\n' || c == '\r' then decAttr q cs none (acc ++ [' '])
    else decAttr q cs none (acc ++ [c])
  | c :: cs, some e, acc =>
    if c == ';' then
      match xmlEntity e with
      | some ch => decAttr q cs none (acc ++ [ch])
      | none => none
    else decAttr q cs (some (e ++ [c])) acc

/-- `name=<here>…`: a quoted attribute value -/
def parseAttr : Str → Option (Str × Str)
  | c :: cs => if c == '"' || c == '\'' then decAttr c cs none [] else none
  | [] => none

/-! ### rendering for the protocol -/

def natO : Option Nat → String
  | none => "-"
  | some n => toString n

def renderXNode (x : XNode) : String :=
  toString x.id ++ " " ++ hexO x.label ++ " " ++ natO x.otu ++ " " ++ (if x.root then "1" else "0")

def renderXEdge (e : XEdge) : String :=
  toString e.id ++ " " ++ natO e.source ++ " " ++ toString e.target ++ " " ++ hexO e.length

def renderXTree (t : XTree) : String :=
  toString t.id ++ " " ++ hexO t.label ++ " " ++ toString t.nodes.length ++ String.join (t.nodes.map (fun x => " " ++ renderXNode x)) ++
    " " ++ toString t.edges.length ++ String.join (t.edges.map (fun e => " " ++ renderXEdge e))

def renderXDoc (d : XDoc) : String :=
  toString d.otusId ++ " " ++ toString d.otus.length ++ String.join (d.otus.map (fun p => " " ++ toString p.1 ++ " " ++ hexO p.2)) ++
    " " ++ toString d.treesId ++ " " ++ toString d.trees.length ++ String.join (d.trees.map (fun t => " " ++ renderXTree t))

end DendroModel.C02
