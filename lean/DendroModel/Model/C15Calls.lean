import DendroModel.Model.C15Ext
/-! C15 — the traversal machines with the filter made observable: every machine emits, besides what it yields, the
items it SHOWS to the user's `filter_fn`.  The composed filters of the wrappers (`x.is_leaf() and filter_fn(x)`,
`froot(x) and x._child_nodes and filter_fn(x)`) short-circuit: the structural part (`guard`) is tested first and the
user's predicate is called only when it holds.  Mathlib-free and executable (the driver runs these as kinds `calls…`). -/
namespace DendroModel.C15
open DendroModel

/-- what a machine does with one popped item: `shown x` = `filter_fn(x)` is called, `yielded x` = `yield x` -/
inductive FEv where
  | shown (x : T)
  | yielded (x : T)

/-- `if guard(x) and filter_fn(x): yield x` with Python's left-to-right short-circuit -/
def visit (guard keep : T → Bool) (x : T) : List FEv :=
  if guard x then (.shown x :: (if keep x then [.yielded x] else [])) else []

def shownL : List FEv → List T
  | [] => []
  | .shown x :: r => x :: shownL r
  | .yielded _ :: r => shownL r

def yieldL : List FEv → List T
  | [] => []
  | .shown _ :: r => yieldL r
  | .yielded x :: r => x :: yieldL r

/-- `preorder_iter` (the same stack machine as `preRun`), traced -/
def preRunE (guard keep : T → Bool) : Nat → List T → List FEv
  | 0, _ => []
  | _ + 1, [] => []
  | f + 1, t :: rest => visit guard keep t ++ preRunE guard keep f (t.cs ++ rest)

/-- `postorder_iter` (the same machine as `postRun`), traced -/
def postRunE (guard keep : T → Bool) : Nat → List (T × Bool) → List FEv
  | 0, _ => []
  | _ + 1, [] => []
  | f + 1, (n, true) :: rest => visit guard keep n ++ postRunE guard keep f rest
  | f + 1, (n, false) :: rest => postRunE guard keep f (n.cs.map (fun c => (c, false)) ++ ((n, true) :: rest))

/-- `levelorder_iter` (the same machine as `levelRun`), traced -/
def levelRunE (guard keep : T → Bool) : Nat → List T → List FEv
  | 0, _ => []
  | _ + 1, [] => []
  | f + 1, t :: rest => visit guard keep t ++ levelRunE guard keep f (rest ++ t.cs)

def preIterE (guard keep : T → Bool) (t : T) : List FEv := preRunE guard keep t.size [t]
def postIterE (guard keep : T → Bool) (t : T) : List FEv := postRunE guard keep (2 * t.size) [(t, false)]
def levelIterE (guard keep : T → Bool) (t : T) : List FEv :=
  visit guard keep t ++ levelRunE guard keep t.size t.cs

/-- `leaf_iter`: post-order under `x.is_leaf() and filter_fn(x)` -/
def leafIterE (keep : T → Bool) (t : T) : List FEv := postIterE (fun x => x.isLeaf) keep t

/-- the structural part of the internal-node filter: what is tested before `filter_fn` is called -/
def internalGuard (excludeSeed : Bool) (startId : Nat) (startHasParent : Bool) (x : T) : Bool :=
  internalKeep excludeSeed startId startHasParent (fun _ => true) x

/-- `child_node_iter`, traced -/
def childRunE (keep : T → Bool) : List T → List FEv
  | [] => []
  | c :: cs => visit (fun _ => true) keep c ++ childRunE keep cs

end DendroModel.C15
