import DendroModel.Basic.Tree
import DendroModel.Gen.C16Alphabets
/-! C16 — executable model of `dendropy.model.parsimony` (Fitch down pass) and of
`DiscreteCharacterMatrix.taxon_state_sets_map`.

* A state set (Python `set` of fundamental state indexes) is a `Nat` bit mask: bit `i` set ⇔ index `i` is a
  member.  `&&&` is `intersection`, `|||` is `union`, `0` is the empty set.
* `stepNode` is the body of `for nd in postorder_node_iter:` in `fitch_down_pass`; the attribute store
  `attrs` (node id ↦ list of state sets) is the model of the `node.state_sets` attributes, which survive
  from one scoring call to the next and are copied by `Tree.clone` / `Tree(tree)`.
  The model follows the *property-conforming* behaviour for leaves: their sets are always (re)loaded from the
  `taxon_state_sets_map` that was passed in (the unrepaired code returned a cached attribute if present).
* `score`/`bychar` are the two accumulators `score` and `score_by_character_list` of the code. -/
namespace DendroModel.C16

abbrev SS := Nat
abbrev Row := List SS
/-- `taxon_state_sets_map`: taxon (accession bit) ↦ list of state sets, in matrix order -/
abbrev Matrix := List (Nat × Row)
abbrev Attrs := List (Nat × Row)

inductive Err where
  | keyError     -- a leaf whose taxon (or `None`) is not a key of the map
  | valueError   -- `left_c, right_c = c[:2]` on a node with one child
  | attrError    -- a child without stored sets (cannot happen in a post-order pass; kept total)
  | indexError   -- `weights[n]` with `n >= len(weights)`, evaluated only when character `n` changes at this pair
  | assertError  -- `assert(len(c) == 2)` of `fitch_up_pass` on an internal non-root node that is not binary
  | typeError    -- `taxon_state_sets_map[n.taxon]` with `taxon_state_sets_map=None` on a leaf that carries no state sets
  | nsError      -- `TaxonNamespaceIdentityError`: `parsimony_score(tree, chars)` with `tree.taxon_namespace is not chars.taxon_namespace`
deriving DecidableEq, Repr

def Err.name : Err → String
  | .keyError => "KeyError"
  | .valueError => "ValueError"
  | .attrError => "AttributeError"
  | .indexError => "IndexError"
  | .assertError => "AssertionError"
  | .typeError => "TypeError"
  | .nsError => "TaxonNamespaceIdentityError"

/-- one character at one (left, right) pair: the intersection if non-empty (no change), else the union (one change) -/
def comb (a b : SS) : SS × Nat := if a &&& b != 0 then (a &&& b, 0) else (a ||| b, 1)

/-- `for n, ssp in enumerate(zip(left_ssl, right_ssl))`: new list of sets and the weighted cost added per character.
    `ws` is the weight list from position `n` on (`weights is None` ⇒ all 1, supplied by the caller).  `zip` ends at the
    shorter of the two set lists; the weight list does not end the loop (a position past its end is looked up only
    when that character changes, which `shortHit` reports first; the `0` is never used then). -/
def pairLoop : List Nat → Row → Row → Row × List Nat
  | ws, a :: l, b :: r =>
    ((comb a b).1 :: (pairLoop ws.tail l r).1, (ws.headD 0 * (comb a b).2) :: (pairLoop ws.tail l r).2)
  | _, _, _ => ([], [])

/-- does `wt = weights[n]` raise IndexError at this pair: some character at a position past the end of the weight
    list changes -/
def shortHit : List Nat → Row → Row → Bool
  | ws, a :: l, b :: r => (ws.isEmpty && (comb a b).2 != 0) || shortHit ws.tail l r
  | _, _, _ => false

def sumL : List Nat → Nat
  | [] => 0
  | x :: xs => x + sumL xs

/-- `score_by_character_list[n] += wt`, position by position -/
def addL : List Nat → List Nat → List Nat
  | x :: xs, y :: ys => (x + y) :: addL xs ys
  | xs, [] => xs
  | [], _ => []

def getAttr (at_ : Attrs) (i : Nat) : Option Row :=
  match at_ with
  | [] => none
  | (j, r) :: rest => if j == i then some r else getAttr rest i

def lookupRow (m : Matrix) (x : Option Nat) : Option Row :=
  match x with
  | none => none
  | some k => getAttr m k

structure St where
  attrs : Attrs
  score : Nat
  bychar : List Nat

/-- the `while True:` loop over the second and the remaining children (`remaining.pop(0)`), left to right -/
def foldKids (ws : List Nat) (attrs : Attrs) : Row → List T → Nat → List Nat → Except Err (Row × Nat × List Nat)
  | left, [], sc, bc => .ok (left, sc, bc)
  | left, c :: rest, sc, bc =>
    match getAttr attrs c.id with
    | none => .error .attrError
    | some right =>
      if shortHit ws left right then .error .indexError else
      foldKids ws attrs (pairLoop ws left right).1 rest (sc + sumL (pairLoop ws left right).2)
        (addL bc (pairLoop ws left right).2)

/-- body of `for nd in postorder_node_iter:` -/
def stepNode (m : Matrix) (ws : List Nat) (st : St) (nd : T) : Except Err St :=
  match nd.cs with
  | [] =>
    match lookupRow m nd.taxon with
    | none => .error .keyError
    | some row => .ok { st with attrs := (nd.id, row) :: st.attrs }
  | [_] => .error .valueError
  | c0 :: c1 :: rest =>
    match getAttr st.attrs c0.id with
    | none => .error .attrError
    | some left =>
      match foldKids ws st.attrs left (c1 :: rest) st.score st.bychar with
      | .error e => .error e
      | .ok (res, sc, bc) => .ok { attrs := (nd.id, res) :: st.attrs, score := sc, bychar := bc }

def runNodes (m : Matrix) (ws : List Nat) : St → List T → Except Err St
  | st, [] => .ok st
  | st, nd :: rest =>
    match stepNode m ws st nd with
    | .error e => .error e
    | .ok st' => runNodes m ws st' rest

mutual
/-- post-order node sequence (`tree.postorder_node_iter()`; its correctness is property C15) -/
def post : T → List T
  | .node i x l s cs => postL cs ++ [.node i x l s cs]
def postL : List T → List T
  | [] => []
  | c :: cs => post c ++ postL cs
end

/-- number of characters = `len(list(taxon_state_sets_map.values())[0])` -/
def nchar (m : Matrix) : Nat :=
  match m with
  | [] => 0
  | (_, r) :: _ => r.length

/-- `wt = 1 if weights is None else weights[n]` -/
def weightsOf (m : Matrix) (weights : Option (List Nat)) : List Nat :=
  match weights with
  | some w => w
  | none => List.replicate (nchar m) 1

/-- `parsimony_score(tree, chars, gaps_as_missing, weights, score_by_character_list)` on a tree object whose nodes
    carry the attributes `attrs`; returns the object's new attributes, the score and the per-character list -/
def parsimony (m : Matrix) (weights : Option (List Nat)) (attrs : Attrs) (t : T) : Except Err St :=
  runNodes m (weightsOf m weights) { attrs := attrs, score := 0, bychar := List.replicate (nchar m) 0 } (post t)

/-! ### `taxon_state_sets_map`: symbols to state sets through the tables generated from `charstatemodel.py` -/

def symbolSet (alph : String) (gapsAsMissing : Bool) (c : Char) : Option SS :=
  match C16Alphabets.alphabets.find? (fun a => a.1 == alph) with
  | none => none
  | some (_, tab) =>
    match tab.find? (fun e => e.1 == c.toNat) with
    | none => none
    | some (_, full, miss) => some (if gapsAsMissing then miss else full)

def rowOfSymbols (alph : String) (gapsAsMissing : Bool) (syms : List Char) : Option Row :=
  syms.mapM (symbolSet alph gapsAsMissing)

/-! ### matrices whose columns have their own state alphabets

`taxon_state_sets_map` asks every CELL for its own state's fundamental indexes, so in a matrix with several state alphabets
(the normal shape of a NeXML standard matrix: each `<char>` refers to its own `<states>`; or several `CharacterType`s) one symbol
may denote different sets in different columns.  A column is described either by the name of a fixed alphabet (generated table)
or by a custom alphabet written out: fundamental symbols in order, named ambiguity codes with their member symbols, and whether
it has the gap state `-` (one more fundamental state) and the missing-data state `?` as `StateAlphabet(gap_symbol="-",
no_data_symbol="?")` / `new_standard_state_alphabet` create them. -/

inductive ColAlph where
  | table (name : String)
  | custom (gapMissing : Bool) (fund : List Char) (amb : List (Char × List Char))

def idxOf (c : Char) : List Char → Option Nat
  | [] => none
  | x :: xs => if x == c then some 0 else (idxOf c xs).map (· + 1)

/-- union of the singletons of the member symbols (`none` if a member is not a fundamental symbol) -/
def fundMask (fund : List Char) : List Char → Option SS
  | [] => some 0
  | c :: cs =>
    match idxOf c fund, fundMask fund cs with
    | some i, some m => some ((1 <<< i) ||| m)
    | _, _ => none

def customSet (gm : Bool) (fund : List Char) (amb : List (Char × List Char)) (gapsAsMissing : Bool) (c : Char) : Option SS :=
  let k := fund.length
  let all := (1 <<< k) - 1
  if gm && c == '-' then some (if gapsAsMissing then all else 1 <<< k)
  else if gm && c == '?' then some (if gapsAsMissing then all else all ||| (1 <<< k))
  else match idxOf c fund with
    | some i => some (1 <<< i)
    | none =>
      match amb.find? (fun a => a.1 == c) with
      | some (_, ms) => fundMask fund ms
      | none => none

/-- a custom alphabet has at least one fundamental state and no ambiguity code without members (what `StateAlphabet` can
    express: a multistate with no member states denotes nothing); the driver refuses other descriptors -/
def ColAlph.wf : ColAlph → Bool
  | .table _ => true
  | .custom _ fund amb => !fund.isEmpty && amb.all (fun a => !a.2.isEmpty)

def colSymbolSet (col : ColAlph) (gapsAsMissing : Bool) (c : Char) : Option SS :=
  match col with
  | .table name => symbolSet name gapsAsMissing c
  | .custom gm fund amb => customSet gm fund amb gapsAsMissing c

/-- one row of a matrix with per-column alphabets (`none` on a length mismatch or an unknown symbol) -/
def rowOfCols : List ColAlph → Bool → List Char → Option Row
  | [], _, [] => some []
  | col :: cols, g, c :: cs =>
    match colSymbolSet col g c, rowOfCols cols g cs with
    | some v, some vs => some (v :: vs)
    | _, _ => none
  | _, _, _ => none

/-- `taxon_state_sets_map(gaps_as_missing=g)` of a matrix given by its rows of symbols and its column alphabets -/
def matrixOf (cols : List ColAlph) (g : Bool) : List (Nat × List Char) → Option Matrix
  | [] => some []
  | (b, cs) :: rest =>
    match rowOfCols cols g cs, matrixOf cols g rest with
    | some row, some m => some ((b, row) :: m)
    | _, _ => none

/-! ### root positions: sliding the (degree-two) root of a bifurcating tree onto a neighbouring edge -/

inductive Step where
  | LL | LR | RL | RR
deriving DecidableEq, Repr

/-- `root[A[a1,a2], b]`: `LL` puts the root on the edge `A–a1`, `LR` on `A–a2`;
    `root[a, B[b1,b2]]`: `RL` on `B–b1`, `RR` on `B–b2`.  The internal node keeps its identity and
    gets the other side as a child.  A step towards a leaf (or on a non-bifurcating root) changes nothing. -/
def rootStep : Step → T → T
  | .LL, .node r x l s [.node a xa la sa [a1, a2], b] => .node r x l s [a1, .node a xa la sa [a2, b]]
  | .LR, .node r x l s [.node a xa la sa [a1, a2], b] => .node r x l s [.node a xa la sa [a1, b], a2]
  | .RL, .node r x l s [a, .node b xb lb sb [b1, b2]] => .node r x l s [.node b xb lb sb [a, b2], b1]
  | .RR, .node r x l s [a, .node b xb lb sb [b1, b2]] => .node r x l s [.node b xb lb sb [a, b1], b2]
  | _, t => t

def reroot (path : List Step) (t : T) : T := path.foldl (fun t s => rootStep s t) t

/-! ### histories: several tree objects of one topology, each with its own attributes -/

inductive Op where
  | score (obj : Nat) (m : Matrix) (weights : Option (List Nat))
  | clone (obj : Nat)

inductive Res where
  | ok (score : Nat) (bychar : List Nat)
  | err (e : Err)
  | cloned
  | badObj

/-- run a history; `objs` = attribute store of every live tree object (`clone` appends a copy).
    After an exception the model keeps the object's previous attributes (the code keeps those written before the
    exception; with leaf sets reloaded on every call no later result depends on either). -/
def runHist (t : T) : List Attrs → List Op → List Res
  | _, [] => []
  | objs, .clone j :: rest =>
    match objs[j]? with
    | none => .badObj :: runHist t objs rest
    | some a => .cloned :: runHist t (objs ++ [a]) rest
  | objs, .score j m w :: rest =>
    match objs[j]? with
    | none => .badObj :: runHist t objs rest
    | some a =>
      match parsimony m w a t with
      | .error e => .err e :: runHist t objs rest
      | .ok st => .ok st.score st.bychar :: runHist t (objs.set j st.attrs) rest

/-! ### histories with matrix OBJECTS that are edited in place

A matrix object is its column alphabets and its current rows of symbols; `parsimony_score(tree, chars, …)` reads the matrix through
`taxon_state_sets_map`, i.e. `matrixOf` of the content the object has at the time of the call.  Edits keep the dimensions:
`chars[taxon][idx] = state` / `seq.set_at(idx, state)` (one cell) and `chars[taxon] = <sequence of equal length>`. -/

structure MatObj where
  cols : List ColAlph
  rows : List (Nat × List Char)

def setCell (bit idx : Nat) (sym : Char) : List (Nat × List Char) → List (Nat × List Char)
  | [] => []
  | (b, cs) :: rest => if b == bit then (b, cs.set idx sym) :: rest else (b, cs) :: setCell bit idx sym rest

def setRow (bit : Nat) (syms : List Char) : List (Nat × List Char) → List (Nat × List Char)
  | [] => []
  | (b, cs) :: rest => if b == bit then (b, syms) :: rest else (b, cs) :: setRow bit syms rest

def rowOfBit (bit : Nat) : List (Nat × List Char) → Option (List Char)
  | [] => none
  | (b, cs) :: rest => if b == bit then some cs else rowOfBit bit rest

/-- one cell: the taxon must have a row, the index must be inside it, the symbol must belong to the column's alphabet -/
def MatObj.editCell (mo : MatObj) (bit idx : Nat) (sym : Char) : Option MatObj :=
  match rowOfBit bit mo.rows, mo.cols[idx]? with
  | some cs, some col =>
    if idx < cs.length && (colSymbolSet col false sym).isSome then some { mo with rows := setCell bit idx sym mo.rows }
    else none
  | _, _ => none

/-- a whole sequence, of the same length, every symbol in its column's alphabet -/
def MatObj.editSeq (mo : MatObj) (bit : Nat) (syms : List Char) : Option MatObj :=
  match rowOfBit bit mo.rows with
  | some cs =>
    if cs.length == syms.length && (rowOfCols mo.cols false syms).isSome then some { mo with rows := setRow bit syms mo.rows }
    else none
  | none => none

inductive MOp where
  | score (obj : Nat) (m : Matrix) (weights : Option (List Nat))        -- a matrix built for this call only
  | clone (obj : Nat)
  | defMat (k : Nat) (mo : MatObj)                                     -- create matrix object `k` (the next free index) or replace it
  | editCell (k bit idx : Nat) (sym : Char)
  | editSeq (k bit : Nat) (syms : List Char)
  | scoreMat (obj k : Nat) (gapsAsMissing : Bool) (weights : Option (List Nat))

inductive MRes where
  | ok (score : Nat) (bychar : List Nat)
  | err (e : Err)
  | cloned
  | badObj
  | matOk       -- a matrix object was created or edited
  | badMat      -- no such matrix object / an edit the object refuses / content that is no matrix

/-- the matrix objects after one op, and whether the op was accepted (`none` for ops that do not touch matrices) -/
def stepMats (mats : List MatObj) : MOp → List MatObj × Option Bool
  | .defMat k mo =>
    if k < mats.length then (mats.set k mo, some true)
    else if k == mats.length then (mats ++ [mo], some true) else (mats, some false)
  | .editCell k bit idx sym =>
    match mats[k]? with
    | none => (mats, some false)
    | some mo => match mo.editCell bit idx sym with
      | none => (mats, some false)
      | some mo' => (mats.set k mo', some true)
  | .editSeq k bit syms =>
    match mats[k]? with
    | none => (mats, some false)
    | some mo => match mo.editSeq bit syms with
      | none => (mats, some false)
      | some mo' => (mats.set k mo', some true)
  | _ => (mats, none)

/-- the matrix a scoring op passes to `parsimony_score`: built for the call, or the CURRENT content of a matrix object -/
def callMatrix (mats : List MatObj) : MOp → Option (Nat × Matrix × Option (List Nat))
  | .score j m w => some (j, m, w)
  | .scoreMat j k g w =>
    match mats[k]? with
    | none => none
    | some mo => match matrixOf mo.cols g mo.rows with
      | none => none
      | some m => some (j, m, w)
  | _ => none

def runMHist (t : T) : List Attrs → List MatObj → List MOp → List MRes
  | _, _, [] => []
  | objs, mats, op :: rest =>
    match op with
    | .clone j =>
      match objs[j]? with
      | none => .badObj :: runMHist t objs mats rest
      | some a => .cloned :: runMHist t (objs ++ [a]) mats rest
    | .defMat _ _ | .editCell _ _ _ _ | .editSeq _ _ _ =>
      (if (stepMats mats op).2 == some true then MRes.matOk else MRes.badMat) :: runMHist t objs (stepMats mats op).1 rest
    | .score _ _ _ | .scoreMat _ _ _ _ =>
      match callMatrix mats op with
      | none => .badMat :: runMHist t objs mats rest
      | some (j, m, w) =>
        match objs[j]? with
        | none => .badObj :: runMHist t objs mats rest
        | some a =>
          match parsimony m w a t with
          | .error e => .err e :: runMHist t objs mats rest
          | .ok st => .ok st.score st.bychar :: runMHist t (objs.set j st.attrs) mats rest

end DendroModel.C16
