/-! Mask-labelled rose trees: the abstract view on which the hierarchy theory (Theory/Hier*.lean) is proved,
and the executable model of `Tree.from_split_bitmasks` (greedy split insertion into a star tree).
Mathlib-free: the C01/C05 drivers run these very definitions. -/
namespace DendroModel.Hier

inductive T where
  | leaf (i : Nat)
  | node (cs : List T)
deriving Repr, Inhabited

mutual
def mask : T → Nat
  | .leaf i => 1 <<< i
  | .node cs => maskL cs
def maskL : List T → Nat
  | [] => 0
  | c :: cs => mask c ||| maskL cs
end

mutual
/-- all clades (masks of every node) -/
def clades : T → List Nat
  | .leaf i => [1 <<< i]
  | .node cs => maskL cs :: cladesL cs
def cladesL : List T → List Nat
  | [] => []
  | c :: cs => clades c ++ cladesL cs
end

mutual
/-- the inner loop of `from_split_bitmasks` for one split `S`: descend into the child whose leafset
    contains `S`; at the lowest such node, if the children meeting `S` union to exactly `S`, move them
    (in order) under a new node appended last; otherwise leave the tree alone -/
def ins (S : Nat) : T → T
  | .leaf i => .leaf i
  | .node cs =>
      if cs.any (fun c => S &&& mask c == S) then .node (insL S cs)
      else if maskL cs == S then .node cs
      else
        let inn := cs.filter (fun c => mask c &&& S != 0)
        let out := cs.filter (fun c => mask c &&& S == 0)
        if maskL inn == S then .node (out ++ [.node inn]) else .node cs
def insL (S : Nat) : List T → List T
  | [] => []
  | c :: cs => if S &&& mask c == S then ins S c :: cs else c :: insL S cs
end

/-- the star tree over the given taxon bits (namespace members, in namespace order) -/
def starOf (bits : List Nat) : T :=
  match bits with
  | [b] => .leaf b      -- a one-member namespace: the unary star is suppressed by the initial `encode_bipartitions`
  | _ => .node (bits.map .leaf)
def star (n : Nat) : T := starOf (List.range n)

def buildFrom (t : T) (ss : List Nat) : T := ss.foldl (fun t s => ins s t) t

mutual
/-- unifurcation suppression, bottom-up -/
def sup : T → T
  | .leaf i => .leaf i
  | .node cs => match supL cs with
    | [c] => c
    | cs' => .node cs'
def supL : List T → List T
  | [] => []
  | c :: cs => sup c :: supL cs
end

/-- `a & ~m` within `L` -/
def sdiff (L m : Nat) : Nat := L ^^^ (L &&& m)

/-- LSB-0 normalisation relative to the tree's own leafset `L`, `lo` = its lowest bit (as a mask) -/
def norm (L lo m : Nat) : Nat := if m &&& lo ≠ 0 then sdiff L m else m &&& L

mutual
def render : T → String
  | .leaf i => toString i
  | .node cs => "(" ++ renderL cs ++ ")"
def renderL : List T → String
  | [] => ""
  | [c] => render c
  | c :: cs => render c ++ "," ++ renderL cs
end

end DendroModel.Hier
