import DendroModel.Model.C04
/-! C05 — `SplitDistribution` / `TreeArray` summaries as they are computed: weighted split counting,
frequency normalisation with its cache, consensus (threshold filter, descending sort, greedy insertion),
support lookup, credibility scores with first-maximum selection, collapse of weakly supported edges.
Frequencies are core `Rat`; the harness only uses dyadic weights and thresholds on which binary64 agrees. -/
namespace DendroModel.C05
open DendroModel

/-- what `count_splits_on_tree` sees of one tree -/
structure TreeRec where
  rooted : Bool                 -- `tree.is_rooted` truthy
  weight : Option Rat           -- `tree.weight`
  splits : List Int             -- split masks of the encoding, in encoding order
  lens : List Rat               -- edge length per split (`None` → default_edge_length_value = 0)
  leafset : Nat

structure SD where
  useWeights : Bool
  total : Nat := 0
  sumW : Rat := 0
  counts : List (Int × Rat) := []          -- dict, insertion order
  lengths : List (Int × List Rat) := []    -- split_edge_lengths
  rootings : List Bool := []

def addCount (d : List (Int × Rat)) (k : Int) (w : Rat) : List (Int × Rat) :=
  match d with
  | [] => [(k, w)]
  | (k', v) :: rest => if k' == k then (k', v + w) :: rest else (k', v) :: addCount rest k w

def addLenRec (d : List (Int × List Rat)) (k : Int) (x : Rat) : List (Int × List Rat) :=
  match d with
  | [] => [(k, [x])]
  | (k', v) :: rest => if k' == k then (k', v ++ [x]) :: rest else (k', v) :: addLenRec rest k x

def weightOf (sd : SD) (t : TreeRec) : Rat :=
  match t.weight with
  | some w => if sd.useWeights then w else 1
  | none => 1

/-- `count_splits_on_tree` -/
def countTree (sd : SD) (t : TreeRec) : SD :=
  let w := weightOf sd t
  { sd with
    total := sd.total + 1
    sumW := sd.sumW + w
    rootings := if sd.rootings.contains t.rooted then sd.rootings else sd.rootings ++ [t.rooted]
    counts := t.splits.foldl (fun d s => addCount d s w) sd.counts
    lengths := (t.splits.zip t.lens).foldl (fun d p => addLenRec d p.1 p.2) sd.lengths }

def countAll (useWeights : Bool) (ts : List TreeRec) : SD := ts.foldl countTree { useWeights := useWeights }

/-- `calc_normalization_weight`: the sum of tree weights, or the number of trees when that sum is zero -/
def normW (sd : SD) : Rat := if sd.sumW == 0 then (sd.total : Rat) else sd.sumW

def countOf (d : List (Int × Rat)) (k : Int) : Option Rat := (d.find? (fun p => p.1 == k)).map (·.2)

/-- `SplitDistribution[split]`: weighted fraction; nothing (0) for a split that occurs in no tree -/
def freq (sd : SD) (s : Int) : Rat :=
  match countOf sd.counts s with
  | none => 0
  | some c => if sd.total == 0 then 1 else c / normW sd

/-- descending insertion sort on `(freq, split)` as Python compares tuples -/
def gtPair (a b : Rat × Int) : Bool := a.1 > b.1 || (a.1 == b.1 && a.2 > b.2)
def insertDesc (x : Rat × Int) : List (Rat × Int) → List (Rat × Int)
  | [] => [x]
  | y :: ys => if gtPair y x then y :: insertDesc x ys else x :: y :: ys
def sortDesc (l : List (Rat × Int)) : List (Rat × Int) := l.foldr insertDesc []

/-- candidate splits of `consensus_tree`: frequency ≥ threshold (or both equal 1 up to 1e-7), sorted by `(freq, split)` descending -/
def candidates (sd : SD) (minFreq : Option Rat) : List Int :=
  let almostOne := fun (x : Rat) => C04.absR (x - 1) ≤ (1 : Rat) / 10000000
  let keep := sd.counts.filter (fun p =>
    let f := freq sd p.1
    match minFreq with
    | none => true
    | some m => f ≥ m || (almostOne m && almostOne f))
  (sortDesc (keep.map (fun p => (freq sd p.1, p.1)))).map (·.2)

/-- rooting handed to `from_split_bitmasks`: all counted trees rooted → rooted; otherwise unrooted (`None` acts as unrooted) -/
def consensusRooted (sd : SD) : Bool := sd.rootings == [true]

/-- `consensus_tree` (topology): greedy insertion of the candidates into the star over the namespace -/
def consensus (sd : SD) (minFreq : Option Rat) (all : Nat) (members : List Nat) (rooted : Bool) : Hier.T :=
  C01.build all members rooted ((candidates sd minFreq).map Int.toNat)

/-! ### credibility scores -/

/-- which splits of a tree are scored: all with `include_external_splits`, else the root split and the non-trivial ones -/
def scored (inclExternal : Bool) (t : TreeRec) (s : Int) : Bool :=
  inclExternal || s == (t.leafset : Int) || !C01.isTrivial s (t.leafset : Int)

def sumSupport (sd : SD) (inclExternal : Bool) (t : TreeRec) : Rat :=
  ((t.splits.filter (scored inclExternal t)).map (freq sd)).sum

/-- product of the non-zero supports (the library adds their logarithms) -/
def prodSupport (sd : SD) (inclExternal : Bool) (t : TreeRec) : Rat :=
  ((t.splits.filter (scored inclExternal t)).map (freq sd)).foldl (fun acc f => if f == 0 then acc else acc * f) 1

/-- first index attaining the maximum (`if max_score is None or max_score < score`) -/
def argmaxFirst : List Rat → Option Nat
  | [] => none
  | x :: xs =>
    let rec go (best : Rat) (bestIdx : Nat) (i : Nat) : List Rat → Nat
      | [] => bestIdx
      | y :: ys => if best < y then go y i (i + 1) ys else go best bestIdx (i + 1) ys
    some (go x 0 1 xs)

/-! ### collapse of weakly supported edges (on a target tree with lengths) -/

def fracOfRat (q : Rat) : Frac := ⟨q.num, q.den⟩

mutual
/-- `Edge.collapse(adjust_collapsed_head_children_edge_lengths=True)` applied bottom-up to every internal non-root node
    flagged by `weak`: its children take its place and absorb its length.  (A flagged leaf makes the library raise.) -/
def collapseWeak (weak : Nat → Bool) : T → T
  | .node i x l s cs => .node i x l s (collapseWeakL weak cs)
def collapseWeakL (weak : Nat → Bool) : List T → List T
  | [] => []
  | c :: cs =>
    let c' := collapseWeak weak c
    (if weak c'.id && !c'.cs.isEmpty then c'.cs.map (fun g => g.withLen (addLen g.len c'.len)) else [c'])
      ++ collapseWeakL weak cs
end

mutual
def anyWeakLeaf (weak : Nat → Bool) : T → Bool
  | .node i _ _ _ [] => weak i
  | .node _ _ _ _ (c :: cs) => anyWeakLeafL weak (c :: cs)
def anyWeakLeafL (weak : Nat → Bool) : List T → Bool
  | [] => false
  | c :: cs => anyWeakLeaf weak c || anyWeakLeafL weak cs
end

/-! ### summaries -/
def mean (l : List Rat) : Rat := l.sum / (l.length : Rat)
def insertAsc (x : Rat) : List Rat → List Rat
  | [] => [x]
  | y :: ys => if x ≤ y then x :: y :: ys else y :: insertAsc x ys
def sortAsc (l : List Rat) : List Rat := l.foldr insertAsc []
def median (l : List Rat) : Rat :=
  let s := sortAsc l
  let n := s.length
  if n % 2 == 1 then s.getD ((n - 1) / 2) 0 else (s.getD (n / 2 - 1) 0 + s.getD (n / 2) 0) / 2
/-- sample variance `n·pop_var/(n-1)` with `pop_var = (Σv² − mean·Σv)/n` -/
def sampleVar (l : List Rat) : Rat :=
  let n : Rat := l.length
  let s := l.sum
  let ss := (l.map (fun v => v * v)).sum
  n * ((ss - (s / n) * s) / n) / (n - 1)

/-! ### what the driver runs end to end (definitions added so that the theorems speak about them) -/

/-- the record `count_splits_on_tree` takes of one input tree `t` with rooting flag `r` and weight `w`: the tree is
    encoded with default flags; the edge of a bipartition is looked up through `bipartition_edge_map` (bipartitions hash
    by split mask: two edges carrying the same split both resolve to the later one) -/
def treeRecOf (r : Option Bool) (w : Option Rat) (t : T) : TreeRec :=
  let es := C04.edgeRecs r t
  let t2 := C01.encodeTree r true true t
  let em := C04.edgeMap es
  { rooted := r == some true, weight := w, splits := es.map (·.split),
    lens := es.map (fun e => ((C04.lookup em e.split).bind (·.len)).getD 0), leafset := t2.mask }

/-- ids of the nodes of the (encoded) target whose split has frequency below the threshold -/
def weakIdsOf (sd : SD) (mf : Rat) (r : Option Bool) (t2 : T) : List Nat :=
  (t2.nodes.filter (fun nd => decide (freq sd (C01.splitOf (r == some true) t2.mask nd.mask) < mf))).map T.id

/-- `collapse_edges_with_less_than_minimum_support`: encode the target, flag, refuse (`none`) when a leaf edge is flagged,
    else collapse every flagged internal edge -/
def collapseBelow (sd : SD) (mf : Rat) (r : Option Bool) (t : T) : Option T :=
  let t2 := C01.encodeTree r true true t
  let weak := fun i => (weakIdsOf sd mf r t2).contains i
  if anyWeakLeaf weak t2 then none else some (collapseWeak weak t2)

/-- the summary of one split's value list: count, mean, median, minimum, maximum, sample variance (none below two values) -/
structure Stats where
  n : Nat
  mean : Rat
  median : Rat
  lo : Rat
  hi : Rat
  var : Option Rat

def stats (l : List Rat) : Stats :=
  let s := sortAsc l
  { n := l.length, mean := mean l, median := median l, lo := s.headD 0, hi := s.getLastD 0,
    var := if l.length ≥ 2 then some (sampleVar l) else none }

/-- support written on a node of a target tree whose split is `s`: the frequency, or a percentage -/
def supportOf (sd : SD) (asPercent : Bool) (s : Int) : Rat := if asPercent then freq sd s * 100 else freq sd s

/-! ### maximum credibility as the driver reports it -/

/-- index of the maximum-sum-of-support tree (`calculate_sum_of_split_supports`): first maximum of the per-tree scores -/
def mccSum (sd : SD) (inclExternal : Bool) (ts : List TreeRec) : Option Nat := argmaxFirst (ts.map (sumSupport sd inclExternal))
/-- index of the maximum-product-of-support tree (`calculate_log_product_of_split_supports`) -/
def mccProd (sd : SD) (inclExternal : Bool) (ts : List TreeRec) : Option Nat := argmaxFirst (ts.map (prodSupport sd inclExternal))

/-- `TreeArray.restore_tree(index)`: `from_split_bitmasks` on the split masks stored for that tree, over the whole namespace, with the
    array's rooting -/
def restoreTree (all : Nat) (members : List Nat) (rooted : Bool) (t : TreeRec) : Hier.T :=
  C01.build all members rooted (t.splits.map Int.toNat)
/-- `maximum_product_of_split_support_tree` / `maximum_sum_of_split_support_tree` (topology): the maximiser restored -/
def mccTree (idx : Option Nat) (all : Nat) (members : List Nat) (rooted : Bool) (ts : List TreeRec) : Option Hier.T :=
  idx.bind (fun i => (ts[i]?).map (restoreTree all members rooted))

/-! ### the frequency and summary caches of `SplitDistribution`

`_split_freqs` is recalculated by `_get_split_frequencies` when it is `None` or `_trees_counted_for_freqs` differs from
`total_trees_counted`; `calc_freqs` also drops the summary table.  `_split_edge_length_summaries` is recalculated when it is `None`
or `_trees_counted_for_summaries` (which the code never advances) differs from `total_trees_counted`. -/

structure Cached where
  sd : SD
  freqs : Option (List (Int × Rat)) := none
  countedForFreqs : Nat := 0
  summaries : Option (List (Int × Stats)) := none
  ages : Option Unit := none          -- `_split_node_age_summaries`: present or not (its content is not modelled)
  countedForSummaries : Nat := 0      -- ONE counter for both summary tables; the code never advances it

/-- the table `calc_freqs` builds -/
def freqTable (sd : SD) : List (Int × Rat) := sd.counts.map (fun p => (p.1, freq sd p.1))
/-- the table `calc_split_edge_length_summaries` builds (splits with an empty value list are skipped) -/
def summaryTable (sd : SD) : List (Int × Stats) := (sd.lengths.filter (fun p => !p.2.isEmpty)).map (fun p => (p.1, stats p.2))

def lookupIn {α : Type} (d : List (Int × α)) (k : Int) : Option α := (d.find? (fun p => p.1 == k)).map (·.2)

/-- `count_splits_on_tree`: the tables are NOT touched -/
def Cached.add (c : Cached) (t : TreeRec) : Cached := { c with sd := countTree c.sd t }
/-- `calc_freqs` -/
def Cached.calcFreqs (c : Cached) : Cached :=
  { c with freqs := some (freqTable c.sd), countedForFreqs := c.sd.total, summaries := none, ages := none }
/-- `_get_split_frequencies` -/
def Cached.getFreqs (c : Cached) : Cached × List (Int × Rat) :=
  match c.freqs with
  | some tbl => if c.countedForFreqs != c.sd.total then (c.calcFreqs, freqTable c.sd) else (c, tbl)
  | none => (c.calcFreqs, freqTable c.sd)
/-- `_get_split_edge_length_summaries` -/
def Cached.getSummaries (c : Cached) : Cached × List (Int × Stats) :=
  match c.summaries with
  | some tbl => if c.countedForSummaries != c.sd.total then ({ c with summaries := some (summaryTable c.sd) }, summaryTable c.sd) else (c, tbl)
  | none => ({ c with summaries := some (summaryTable c.sd) }, summaryTable c.sd)

/-- `_get_split_node_age_summaries`: same test, same (shared) counter -/
def Cached.getAges (c : Cached) : Cached :=
  match c.ages with
  | some _ => if c.countedForSummaries != c.sd.total then { c with ages := some () } else c
  | none => { c with ages := some () }

/-! ### `SplitDistribution.update(other)`: merging another distribution in -/

/-- `self.split_edge_lengths[split] += other.split_edge_lengths[split]` on default-dicts: the key is created even for an empty list -/
def appendLens (d : List (Int × List Rat)) (k : Int) (l : List Rat) : List (Int × List Rat) :=
  match d with
  | [] => [(k, l)]
  | (k', v) :: rest => if k' == k then (k', v ++ l) :: rest else (k', v) :: appendLens rest k l

/-- `update`: totals and weight sums add, rooting states unite, and for every split of `other.split_counts` (its order) the count is
    added and the value list appended -/
def mergeSD (a b : SD) : SD :=
  { a with
    total := a.total + b.total
    sumW := a.sumW + b.sumW
    rootings := b.rootings.foldl (fun r x => if r.contains x then r else r ++ [x]) a.rootings
    counts := b.counts.foldl (fun d p => addCount d p.1 p.2) a.counts
    lengths := b.counts.foldl (fun d p => appendLens d p.1 ((lookupIn b.lengths p.1).getD [])) a.lengths }

/-- `update` through the caches: both summary tables are dropped and their counter reset; the frequency table is NOT touched (it is
    recognised as stale by its counter) -/
def Cached.merge (c : Cached) (b : SD) : Cached :=
  { c with sd := mergeSD c.sd b, summaries := none, ages := none, countedForSummaries := 0 }

/-- one step of a client's history -/
inductive Ev where
  | add (t : TreeRec)          -- count one more tree
  | freq (s : Int)             -- `sd[s]`
  | summ (s : Int)             -- `sd.split_edge_length_summaries.get(s)`
  | ages                       -- `sd.split_node_age_summaries` read (answer not modelled)
  | merge (ts : List TreeRec)  -- `update(other)` with another distribution (same weight flag) that counted `ts`
  | refused (t : TreeRec)      -- an offer the library REFUSES (exception caught by the caller, who carries on): nothing may change

inductive Ans where
  | freq (q : Rat)
  | summ (o : Option Stats)

def Cached.step (c : Cached) : Ev → Cached × Option Ans
  | .add t => (c.add t, none)
  | .freq s => let r := c.getFreqs; (r.1, some (.freq ((lookupIn r.2 s).getD 0)))
  | .summ s => let r := c.getSummaries; (r.1, some (.summ (lookupIn r.2 s)))
  | .ages => (c.getAges, none)
  | .refused _ => (c, none)
  | .merge ts => (c.merge (countAll c.sd.useWeights ts), none)

/-- the answers a client sees over a history, through the caches -/
def Cached.run (c : Cached) : List Ev → List Ans
  | [] => []
  | e :: es => match (c.step e).2 with
    | some a => a :: Cached.run (c.step e).1 es
    | none => Cached.run (c.step e).1 es

/-- the answers the statement prescribes: computed afresh from all trees counted so far -/
def specRun (sd : SD) : List Ev → List Ans
  | [] => []
  | .add t :: es => specRun (countTree sd t) es
  | .freq s :: es => .freq (freq sd s) :: specRun sd es
  | .summ s :: es => .summ (lookupIn (summaryTable sd) s) :: specRun sd es
  | .ages :: es => specRun sd es
  | .refused _ :: es => specRun sd es
  | .merge ts :: es => specRun (mergeSD sd (countAll sd.useWeights ts)) es

/-! ### rooting refusals of `collapse_edges_with_less_than_minimum_support` -/

/-- `is_all_counted_trees_rooted`: `True` counted and nothing else -/
def allRooted (sd : SD) : Bool := sd.rootings.contains true && sd.rootings.length == 1
/-- `is_all_counted_trees_treated_as_unrooted`: `True` not counted (also when nothing was counted) -/
def noneRooted (sd : SD) : Bool := !sd.rootings.contains true
/-- the two `ValueError`s raised before anything is touched: a not-rooted target (`is_rooted` false or `None`) against a
    distribution of rooted trees, a rooted target against a distribution without any rooted tree -/
def collapseRefuses (sd : SD) (r : Option Bool) : Bool :=
  (!(r == some true) && allRooted sd) || ((r == some true) && noneRooted sd)
/-- the whole call: rooting refusal first, then `collapseBelow` -/
def collapseCall (sd : SD) (mf : Rat) (r : Option Bool) (t : T) : Option T :=
  if collapseRefuses sd r then none else collapseBelow sd mf r t

/-! ### `SplitDistributionSummarizer.summarize_splits_on_tree`: what is written on the nodes and edges of a target -/

/-- `set_edge_lengths` (`None` and "keep" both leave the lengths alone) -/
inductive EdgeMode where
  | keep | support | clear | meanLen | medianLen
  deriving DecidableEq, Repr

/-- the settings of ONE summarising call (`configure` resets every setting to its default on every call) -/
structure SummOpts where
  pct : Bool := false              -- support_as_percentages
  label : Bool := false            -- set_support_as_node_label
  decimals : Nat := 4              -- support_label_decimals
  mode : EdgeMode := .keep         -- set_edge_lengths
  minLen : Option Rat := none      -- minimum_edge_length

/-- the integer nearest to `q`, ties to the even one (what `'{:.Nf}'.format` does to the exact value it is given) -/
def roundHalfEven (q : Rat) : Int :=
  let f := q.num / (q.den : Int)
  let r := q.num % (q.den : Int)
  if 2 * r < (q.den : Int) then f
  else if 2 * r > (q.den : Int) then f + 1
  else if f % 2 == 0 then f else f + 1

def padLeft (n : Nat) (s : String) : String := String.ofList (List.replicate (n - s.length) (Char.ofNat 48)) ++ s

/-- `'{:.{places}f}'.format(q, places=d)` of an exactly represented value -/
def fixedPoint (q : Rat) (d : Nat) : String :=
  let k := roundHalfEven (q * ((10 : Rat) ^ d))
  let n := k.natAbs
  let sign := if k < 0 then "-" else ""
  if d == 0 then sign ++ toString n
  else sign ++ toString (n / 10 ^ d) ++ "." ++ padLeft d (toString (n % 10 ^ d))

/-- the final pass over the tree when `minimum_edge_length` is given: a missing length and a shorter one become the minimum -/
def clampLen (minLen : Option Rat) (l : Option Rat) : Option Rat :=
  match minLen with
  | none => l
  | some m => match l with
    | none => some m
    | some x => if x < m then some m else some x

/-- a field of the length summary of split `s`; the no-data value 0 when the split has no summary (`KeyError`) -/
def summaryField (sd : SD) (s : Int) (f : Stats → Rat) : Rat := ((lookupIn (summaryTable sd) s).map f).getD 0

/-- `edge.length` after the call -/
def newLength (sd : SD) (o : SummOpts) (s : Int) (sup : Rat) (old : Option Rat) : Option Rat :=
  match o.mode with
  | .keep => old
  | .clear => none
  | .support => clampLen o.minLen (some sup)
  | .meanLen => clampLen o.minLen (some (summaryField sd s (·.mean)))
  | .medianLen => clampLen o.minLen (some (summaryField sd s (·.median)))

/-- what one node of the target carries after the call -/
structure NodeAnn where
  id : Nat
  split : Int
  support : Rat                       -- node.support (fraction or percentage)
  label : Option String               -- node.label, written only when requested
  length : Option Rat                 -- node.edge.length afterwards
  summary : Option (Option Stats)     -- edge.length_*: not written (empty table) / no-data values / the split's summary

def annotNode (sd : SD) (o : SummOpts) (rooted : Bool) (L : Nat) (nd : T) : NodeAnn :=
  let s := C01.splitOf rooted L nd.mask
  let sup := supportOf sd o.pct s
  { id := nd.id, split := s, support := sup,
    label := if o.label then some (fixedPoint sup o.decimals) else none,
    length := newLength sd o s sup (nd.len.map C04.fracToRat),
    summary := if (summaryTable sd).isEmpty then none else some (lookupIn (summaryTable sd) s) }

/-- the modes that read the length summaries refuse (`ValueError("Edge lengths not available")`) when there are none -/
def annotRefuses (sd : SD) (o : SummOpts) : Bool :=
  (o.mode == .meanLen || o.mode == .medianLen) && (summaryTable sd).isEmpty

/-- `summarize_splits_on_tree(tree, **settings)`: the target is encoded with default flags, then every node (pre-order) is decorated -/
def annotate (sd : SD) (o : SummOpts) (r : Option Bool) (t : T) : Option (List NodeAnn) :=
  let t2 := C01.encodeTree r true true t
  if annotRefuses sd o then none else some (t2.nodes.map (annotNode sd o (r == some true) t2.mask))

end DendroModel.C05
