import DendroModel.Model.C20Newick
/-! C20 — the line-oriented readers: `PhylipReader._read` (strict/relaxed × sequential/interleaved) and
`FastaReader._read`, with the declared-versus-found dimension checks of the repaired code.
Only what the verdict and the matrix dimensions depend on is kept: per row, the label and the number of cells.
The accepted state symbols are a parameter (`sym`), handed over by the harness from the library's alphabet. -/
namespace DendroModel.C20
open DendroModel

/-- `re.split(r'\r\n|\n|\r', s)` -/
def splitLinesAux : List Char → List Char → List (List Char)
  | [], cur => [cur.reverse]
  | '\r' :: '\n' :: cs, cur => cur.reverse :: splitLinesAux cs []
  | '\n' :: cs, cur => cur.reverse :: splitLinesAux cs []
  | '\r' :: cs, cur => cur.reverse :: splitLinesAux cs []
  | c :: cs, cur => splitLinesAux cs (c :: cur)

def splitLines (s : List Char) : List (List Char) := splitLinesAux s []

/-- iteration over a text stream: lines end at `\n` (the terminator itself is stripped by the readers) -/
def splitNlAux : List Char → List Char → List (List Char)
  | [], cur => if cur.isEmpty then [] else [cur.reverse]
  | '\n' :: cs, cur => cur.reverse :: splitNlAux cs []
  | c :: cs, cur => splitNlAux cs (c :: cur)

def splitNl (s : List Char) : List (List Char) := splitNlAux s []

def rstrip (s : List Char) : List Char := (stripL s.reverse).reverse

/-- `re.match(r'\s*(\d+)\s+(\d+)\s*$', line)` -/
def parseHeader (l : List Char) : Option (Nat × Nat) :=
  let l1 := l.dropWhile isPySpace
  let d1 := l1.takeWhile isDigitC
  let l2 := l1.dropWhile isDigitC
  let l3 := l2.dropWhile isPySpace
  let d2 := l3.takeWhile isDigitC
  let l4 := (l3.dropWhile isDigitC).dropWhile isPySpace
  if d1.isEmpty || l3.length == l2.length || d2.isEmpty || !l4.isEmpty then none
  else some (natOfDigits d1, natOfDigits d2)

def isBlankTab (c : Char) : Bool := c == ' ' || c == '\t'

/-- `re.split('[ \t]{1,}', line, maxsplit=1)`: label part and (possibly absent) sequence part -/
def splitLabel (line : List Char) : List Char × List Char :=
  let a := line.takeWhile (fun c => !isBlankTab c)
  let r := line.dropWhile (fun c => !isBlankTab c)
  (a, r.dropWhile isBlankTab)

abbrev Rows := List (List Char × Nat)

def rowIdx (rows : Rows) (label : List Char) : Option Nat :=
  idxOf (fun r => lower r.1 == lower label) rows 0

/-- what a line reader can end with besides a matrix: a parse error of the library, or `internal` — an index that is
not there (Python's `IndexError` on `taxon_namespace[paged_row]`, or a row the model would have lost track of).
`Props/C20.lean` shows `internal` unreachable. -/
inductive LErr where
  | parse (e : PErr)
  | internal (w : String)

/-- `seq.extend(states)` on row `i`; an index out of range is an error, never a silent no-op -/
def addCells (rows : Rows) (i n : Nat) : Except LErr Rows :=
  if i < rows.length then .ok (rows.mapIdx (fun j r => if j == i then (r.1, r.2 + n) else r))
  else .error (.internal "row index out of range")

/-- `len(self.char_matrix[taxon])` -/
def cellsAt (rows : Rows) (i : Nat) : Except LErr Nat :=
  match rows[i]? with
  | some r => .ok r.2
  | none => .error (.internal "row index out of range")

def lperr {α : Type} (e : PErr) : Except LErr α := .error (.parse e)

/-- strict PHYLIP: the label is the first ten characters of the line (`line[:10]`, `line[10:]`); shown equal to the
regenerated `C20Consts.phylipLabelEnd` / `phylipSeqStart` by `phylip_width_bridge` -/
def phyLabelWidth : Nat := 10

/-- `_parse_taxon_from_line`: returns the row index, the updated rows and the rest of the line -/
def phyTaxon (strict : Bool) (ntax nchar : Nat) (rows : Rows) (line : List Char) : Except LErr (Nat × Rows × List Char) :=
  let (lab, rest) := if strict then (strip (line.take phyLabelWidth), line.drop phyLabelWidth) else
    let p := splitLabel line
    (strip p.1, p.2)
  if lab.isEmpty then lperr .data
  else
    match rowIdx rows lab with
    | some i => do
      let have_ ← cellsAt rows i
      if have_ ≥ nchar then lperr .data      -- already has the declared number of characters
      else pure (i, rows, rest)
    | none =>
      let rows' := rows ++ [(lab, 0)]
      if rows'.length > ntax then lperr .data                    -- more taxa than declared
      else pure (rows.length, rows', rest)

/-- `_parse_sequence_from_line` for discrete data: number of cells, or an invalid state symbol -/
def phyCells (sym : Char → Bool) (line : List Char) : Except LErr Nat :=
  let cs := line.filter (fun c => !isBlankTab c)
  if cs.all sym then pure cs.length else lperr .data

def phySequential (sym : Char → Bool) (strict : Bool) (ntax nchar : Nat) : List (List Char) → Rows → Option Nat → Except LErr Rows
  | [], rows, _ => pure rows
  | line :: ls, rows, cur =>
    let line := rstrip line
    if line.isEmpty then phySequential sym strict ntax nchar ls rows cur
    else do
      let (i, rows, line) ← (match cur with
        | some i => pure (i, rows, line)
        | none => phyTaxon strict ntax nchar rows line : Except LErr (Nat × Rows × List Char))
      let n ← phyCells sym line
      let rows ← addCells rows i n
      let have_ ← cellsAt rows i
      phySequential sym strict ntax nchar ls rows (if have_ ≥ nchar then none else some i)

/-- `_parse_interleaved`: once all declared taxa have been named, rows are assigned cyclically (`paged`);
`taxon_namespace[paged_row]` is a list index -/
def phyInterleaved (sym : Char → Bool) (strict : Bool) (ntax nchar : Nat) : List (List Char) → Rows → Bool → Int → Except LErr Rows
  | [], rows, _, _ => pure rows
  | line :: ls, rows, paged, pagedRow =>
    let line := rstrip line
    if line.isEmpty then phyInterleaved sym strict ntax nchar ls rows paged pagedRow
    else
      let pagedRow := if pagedRow + 1 ≥ (ntax : Int) then 0 else pagedRow + 1
      if paged then do
        if pagedRow < 0 then .error (.internal "negative row index") else
        let n ← phyCells sym line
        let rows ← addCells rows pagedRow.toNat n
        phyInterleaved sym strict ntax nchar ls rows paged pagedRow
      else do
        let (i, rows, line) ← phyTaxon strict ntax nchar rows line
        let nowPaged := rows.length == ntax
        let n ← phyCells sym line
        let rows ← addCells rows i n
        phyInterleaved sym strict ntax nchar ls rows nowPaged (if nowPaged then -1 else pagedRow)

inductive MatRes where
  | ok (rows : Rows)
  | err (e : PErr)
  | internal (w : String)

/-- `PhylipReader._read` (repaired: every row must have exactly the declared number of characters) -/
def readPhylip (sym : Char → Bool) (strict interleaved : Bool) (text : List Char) : MatRes :=
  let lines := splitLines text
  if lines.length ≤ 2 then .err .data
  else
    match lines with
    | [] => .err .data
    | desc :: body =>
      match parseHeader desc with
      | none => .err .data
      | some (ntax, nchar) =>
        if ntax == 0 || nchar == 0 then .err .data
        else
          let r := if interleaved then phyInterleaved sym strict ntax nchar body [] false (-1)
                   else phySequential sym strict ntax nchar body [] none
          match r with
          | .error (.parse e) => .err e
          | .error (.internal w) => .internal w
          | .ok rows =>
            if rows.length != ntax then .err .data                      -- `_taxon_error`
            else if rows.all (fun r => r.2 == nchar) then .ok rows      -- the declared-versus-found check
            else .err .data

/-- `FastaReader._read`.  `cur` = index of the row being filled (`curr_vec`). -/
def fastaLines (sym : Char → Bool) : List (List Char) → Rows → Option Nat → Except LErr Rows
  | [], rows, _ => pure rows
  | line :: ls, rows, cur =>
    let s := strip line
    if s.isEmpty then fastaLines sym ls rows cur
    else
      match s with
      | '>' :: nm =>
        let name := strip nm
        match rowIdx rows name with
        | some _ => lperr .data                                   -- repeated sequence name
        | none =>
          match cur with
          | some i => do
            let have_ ← cellsAt rows i
            if have_ == 0 then lperr .data    -- expected sequence, found another name
            else fastaLines sym ls (rows ++ [(name, 0)]) (some rows.length)
          | none => fastaLines sym ls (rows ++ [(name, 0)]) (some rows.length)
      | _ =>
        match cur with
        | none => lperr .data                                     -- sequence before any name
        | some i =>
          let cs := s.filter (fun c => !isPySpace c)
          if cs.all sym then do
            let rows ← addCells rows i cs.length
            fastaLines sym ls rows cur
          else lperr .data

def readFasta (sym : Char → Bool) (text : List Char) : MatRes :=
  match fastaLines sym (splitNl text) [] none with
  | .error (.parse e) => .err e
  | .error (.internal w) => .internal w
  | .ok rows => .ok rows

end DendroModel.C20
