import DendroModel.Model.C04
/-! C04 — the intermediate result of `treecompare._get_length_diffs(..., bipartition_length_diff_map=True)`: the (length1, length2)
pair of every split, keyed by the split.  `lengthDiffsK` is `lengthDiffs` with the key kept (`Props/C04.lean: lengthDiffsK_values`);
the driver prints it, and the harness compares it with the dictionary the library returns — the pairing itself, not only the sums
`wrf` / `euclidSq` make of it.  (Mathlib-free: the driver runs these definitions.) -/
namespace DendroModel.C04
open DendroModel

def pass1K (m2 : List (Int × EdgeRec)) : List (Int × EdgeRec) → Option (List (Int × Rat × Rat))
  | [] => some []
  | p :: rest =>
    match entry m2 p, pass1K m2 rest with
    | some d, some ds => some ((p.1, d.1, d.2) :: ds)
    | _, _ => none

def pass2K (m1 m2 : List (Int × EdgeRec)) : List (Int × Rat × Rat) :=
  (m2.filter (fun p => (lookup m1 p.1).isNone)).map (fun p => (p.1, (0 : Rat), p.2.len.getD 0))

/-- `_get_length_diffs(tree1, tree2, bipartition_length_diff_map=True)[1]` as an association list in insertion order -/
def lengthDiffsK (m1 m2 : List (Int × EdgeRec)) : Option (List (Int × Rat × Rat)) :=
  (pass1K m2 m1).map (· ++ pass2K m1 m2)

/-- insertion into a list sorted by key (for printing in a canonical order) -/
def insK (x : Int × Rat × Rat) : List (Int × Rat × Rat) → List (Int × Rat × Rat)
  | [] => [x]
  | y :: ys => if x.1 ≤ y.1 then x :: y :: ys else y :: insK x ys

def sortK (l : List (Int × Rat × Rat)) : List (Int × Rat × Rat) := l.foldr insK []

def renderDiffs : Option (List (Int × Rat × Rat)) → String
  | none => "E"
  | some l => " ".intercalate ((sortK l).map (fun x => s!"{x.1}:{renderRat x.2.1}:{renderRat x.2.2}"))

end DendroModel.C04
