import DendroModel.Basic.Tree
import DendroModel.Model.TreeOps
/-! C07 — re-seeding, re-rooting and re-ordering of `Tree`, as the library performs them.
Mathlib-free and executable (the driver `drv_c07` runs exactly these definitions).

A model state is a tree `T` (node ids = protocol indices, `len` = edge length of the node's own edge, the
seed's own length included) and the rooting flag `Option Bool` (`none` = undefined, which every
`not self._is_rooted` test treats like unrooted). -/
namespace DendroModel.C07
open DendroModel

/-- `keep.length += del.length` with the library's `None` rules (suppress_unifurcations and the repaired
    collapse_basal_bifurcation): None+x = x, x+None = x, None+None = None -/
def mergeLen (keep del : Option Frac) : Option Frac :=
  match del with
  | none => keep
  | some y => match keep with
    | none => some y
    | some x => some (x + y)

mutual
def contains (x : Nat) : T → Bool
  | .node i _ _ _ cs => i == x || containsL x cs
def containsL (x : Nat) : List T → Bool
  | [] => false
  | c :: cs => contains x c || containsL x cs
end

mutual
/-- parent id of the (first, pre-order) node with id `x` -/
def parentOf (x : Nat) : T → Option Nat
  | .node i _ _ _ cs => parentOfL x i cs
def parentOfL (x : Nat) (p : Nat) : List T → Option Nat
  | [] => none
  | c :: cs => if c.id == x then some p else
    match parentOf x c with
    | some r => some r
    | none => parentOfL x p cs
end

/-! ## the chain of edge inversions (`Tree.reseed_at` + `Edge.invert`)

`inv tgt t l ups` re-hangs `t` (given its own edge length `l` separately, and `ups` = the already inverted old
parent, to be appended as LAST child — `old_head_node.add_child(old_tail_node)`) so that the node with id `tgt`
becomes the root; `none` when `tgt` does not occur in `t`.  One recursion step is one `Edge.invert`:
the old tail loses the head from its child list and takes the head's edge length, the head takes the tail's
edge length and gets the tail appended as its last child.  Inversions happen from the old seed downwards, as the
library pops `edges_to_invert`. -/
mutual
def inv (tgt : Nat) : T → Option Frac → List T → Option T
  | .node i x _ s cs, l, ups =>
    if i == tgt then some (.node i x l s (cs ++ ups))
    else invL tgt i x s l [] cs ups
def invL (tgt : Nat) (i : Nat) (x : Option Nat) (s : Option String) (l : Option Frac) (pre : List T) :
    List T → List T → Option T
  | [], _ => none
  | c :: post, ups =>
    match inv tgt c l [.node i x c.len s (pre ++ post ++ ups)] with
    | some r => some r
    | none => invL tgt i x s l (pre ++ [c]) post ups
end

/-- the pure re-hanging: all inversions from the seed down to `tgt`; the tree itself when `tgt` is absent or is the seed -/
def invertTo (tgt : Nat) (t : T) : T := (inv tgt t t.len []).getD t

/-- `collapse_basal_bifurcation` (repaired length merging): seed with exactly two children; dissolve child 1 if it has
    ≥ 2 children, else child 0 if it has ≥ 2 children; the dissolved node's children take its place, the kept sibling
    absorbs its length -/
def collapseBasal : T → T
  | .node i x l s [a, b] =>
    if b.cs.length ≥ 2 then .node i x l s (a.withLen (mergeLen a.len b.len) :: b.cs)
    else if a.cs.length ≥ 2 then .node i x l s (a.cs ++ [b.withLen (mergeLen b.len a.len)])
    else .node i x l s [a, b]
  | t => t

mutual
/-- `Tree.suppress_unifurcations`: post-order; a node left with exactly one child is replaced by that child, which keeps
    the node's position and absorbs its edge length -/
def sup : T → T
  | .node i x l s cs => match supL cs with
    | [c] => c.withLen (mergeLen c.len l)
    | cs' => .node i x l s cs'
def supL : List T → List T
  | [] => []
  | c :: cs => sup c :: supL cs
end

def unrootedFlag (flag : Option Bool) : Bool := flag != some true

/-- does `collapse_basal_bifurcation` dissolve a node (and hence execute `self.is_rooted = False`)? -/
def collapses : T → Bool
  | .node _ _ _ _ [a, b] => decide (b.cs.length ≥ 2) || decide (a.cs.length ≥ 2)
  | _ => false

/-- the clean-up shared by `reseed_at` (both the `encode_bipartitions` and the explicit branch act alike on the tree);
    a collapse that dissolves a node sets the flag to unrooted (only observable when it was undefined) -/
def cleanup (flag : Option Bool) (collapse suppress : Bool) (t : T) : T × Option Bool :=
  let doC := collapse && unrootedFlag flag && t.cs.length == 2
  let t1 := if doC then collapseBasal t else t
  let f1 := if doC && collapses t then some false else flag
  (if suppress then sup t1 else t1, f1)

/-- the leaf-target special case of `reseed_at`: the new seed's only child (its old parent) is removed and that
    node's children are adopted (their lengths kept, the removed node's length dropped) -/
def dissolveOnlyChild : T → T
  | .node i x l s [c] => .node i x l s c.cs
  | t => t

/-- `Tree.reseed_at(new_seed_node, collapse_unrooted_basal_bifurcation, suppress_unifurcations)`; soft: flag unchanged -/
def reseedAt (flag : Option Bool) (collapse suppress : Bool) (tgt : Nat) (t : T) : T × Option Bool :=
  let moved := t.id != tgt
  let wasLeaf := match t.find? tgt with | some n => n.cs.isEmpty | none => false
  let t1 := invertTo tgt t
  let t2 := if moved && wasLeaf && suppress then dissolveOnlyChild t1 else t1
  cleanup flag collapse suppress t2

/-- `Tree.reroot_at_node`: re-seed without basal collapse, then `is_rooted = True` (hard) -/
def rerootAtNode (suppress : Bool) (tgt : Nat) (t : T) : T × Option Bool :=
  ((reseedAt none false suppress tgt t).1, some true)

mutual
/-- replace the child `h` of its parent by nothing and append a new node `nw` (own length `lTail`) holding `h`
    (with length `lHead`) as LAST child of that parent: `old_tail.new_child(...)`, `remove_child(old_head)`,
    `new.add_child(old_head)` -/
def splitEdge (h nw : Nat) (lTail lHead : Option Frac) : T → T
  | .node i x l s cs =>
    match cs.find? (fun c => c.id == h) with
    | some c => .node i x l s (cs.filter (fun c => c.id != h) ++ [.node nw none lTail none [c.withLen lHead]])
    | none => .node i x l s (splitEdgeL h nw lTail lHead cs)
def splitEdgeL (h nw : Nat) (lTail lHead : Option Frac) : List T → List T
  | [] => []
  | c :: cs => splitEdge h nw lTail lHead c :: splitEdgeL h nw lTail lHead cs
end

/-- `Tree.reroot_at_edge(edge, length1, length2)`; the edge is named by its head node `h`, `nw` is the id of the new node -/
def rerootAtEdge (suppress : Bool) (h nw : Nat) (l1 l2 : Option Frac) (t : T) : T × Option Bool :=
  rerootAtNode suppress nw (splitEdge h nw l1 l2 t)

/-- the guard of the basal collapse in `to_outgroup_position`: not rooted, two children, the second (the sister of the
    outgroup) has ≥ 2 children -/
def sisterCollapses (uf : Bool) : List T → Bool
  | [_, b] => uf && decide (b.cs.length ≥ 2)
  | _ => false

/-- `Tree.to_outgroup_position(outgroup_node)`: re-seed at the parent without clean-up, move the outgroup to the
    front, collapse an unrooted basal bifurcation only when that dissolves the sister, suppress unifurcations -/
def toOutgroup (flag : Option Bool) (suppress : Bool) (og : Nat) (t : T) : Option (T × Option Bool) :=
  match parentOf og t with
  | none => none
  | some p =>
    match invertTo p t with
    | .node i x l s cs =>
      match cs.find? (fun c => c.id == og) with
      | none => none
      | some o =>
        let cs' := o :: cs.filter (fun c => c.id != og)
        let t2 := T.node i x l s cs'
        let doC := sisterCollapses (unrootedFlag flag) cs'
        let t3 := if doC then collapseBasal t2 else t2
        some (if suppress then sup t3 else t3, if doC then some false else flag)

/-! ## midpoint rooting -/

def lenOr0 (l : Option Frac) : Frac := l.getD Frac.zero

mutual
/-- root path of the node `x`: the nodes from the seed (inclusive) down to `x` (inclusive), as (id, own edge length) -/
def rootPath (x : Nat) : T → Option (List (Nat × Option Frac))
  | .node i _ l _ cs =>
    if i == x then some [(i, l)] else
    match rootPathL x cs with
    | some p => some ((i, l) :: p)
    | none => none
def rootPathL (x : Nat) : List T → Option (List (Nat × Option Frac))
  | [] => none
  | c :: cs => match rootPath x c with
    | some p => some p
    | none => rootPathL x cs
end

/-- drop the common prefix of two root paths, remembering the last common node (the MRCA) -/
def dropCommon : Nat → List (Nat × Option Frac) → List (Nat × Option Frac) → Nat × List (Nat × Option Frac) × List (Nat × Option Frac)
  | m, (i, l) :: p, (j, k) :: q => if i == j then dropCommon i p q else (m, (i, l) :: p, (j, k) :: q)
  | m, p, q => (m, p, q)

def pathSum (p : List (Nat × Option Frac)) : Frac := p.foldl (fun acc e => acc + lenOr0 e.2) Frac.zero

inductive Mid where
  /-- the midpoint lies inside the edge above node `head`, at distance `headLen` from `head` -/
  | onEdge (head : Nat) (headLen : Frac)
  /-- the midpoint is exactly the node `nd` -/
  | onNode (nd : Nat)
  /-- the walk reached the MRCA without finding it (the library's `assert`) -/
  | fail
deriving DecidableEq, Repr

/-- the walk "going up ..." of `reroot_at_midpoint`: `walk` = the nodes from `n1` up to (excluding) the MRCA as
    (id, length, parent id); `plen` = the remaining half distance -/
def midWalk : List (Nat × Frac × Nat) → Frac → Mid
  | [], _ => .fail
  | (nd, l, par) :: rest, plen =>
    if Frac.lt plen l then .onEdge nd plen
    else if Frac.lt l plen then midWalk rest (plen - l)
    else .onNode par

/-- the upward walk list for a strict-descendant path `p` (top-down, below the MRCA `m`) -/
def upList (m : Nat) (p : List (Nat × Option Frac)) : List (Nat × Frac × Nat) :=
  let parents := m :: p.map (·.1)
  ((p.zip parents).map (fun (e, par) => (e.1, lenOr0 e.2, par))).reverse

/-- pre-order position of the first of `a`, `b` among the leaves -/
def firstLeafOf (a b : Nat) (t : T) : Option Nat :=
  ((t.leaves.map T.id).find? (fun i => i == a || i == b))

/-- where `reroot_at_midpoint` puts the root for the pair `(a, b)` of most distant leaves it was handed
    (edge lengths `None` count as 0, as in `PhylogeneticDistanceMatrix`) -/
def midpointOf (a b : Nat) (t : T) : Mid :=
  match firstLeafOf a b t with
  | none => .fail
  | some s0 =>
    let s1 := if s0 == a then b else a
    match rootPath s0 t, rootPath s1 t with
    | some p0, some p1 =>
      -- deeper leaf first; ties keep the first found (root distance = the edges below the seed)
      let (n1p, n2p) := if Frac.lt (pathSum (p0.drop 1)) (pathSum (p1.drop 1)) then (p1, p0) else (p0, p1)
      let (m, q1, q2) := dropCommon t.id n1p n2p
      let plen := Frac.half (pathSum q1 + pathSum q2)
      midWalk (upList m q1) plen
    | _, _ => .fail

/-- `Tree.reroot_at_midpoint` for the recorded pair `(a, b)`; `nw` = id of the node created inside an edge.  Hard.
    The existing-node branch re-seeds WITHOUT basal collapse (repaired; collapsing would move the root off the midpoint). -/
def rerootAtMidpoint (suppress : Bool) (a b nw : Nat) (t : T) : Option (T × Option Bool) :=
  match midpointOf a b t with
  | .fail => none
  | .onNode nd => some ((reseedAt none false suppress nd t).1, some true)
  | .onEdge h headLen =>
    match t.find? h with
    | none => none
    | some hn =>
      let tailLen := lenOr0 hn.len - headLen
      some ((reseedAt none false suppress nw (splitEdge h nw (some tailLen) (some headLen) t)).1, some true)

/-! ## re-ordering -/

/-- stable insertion of `x` in front of a list sorted by the strict order `before` -/
def insStable (before : T → T → Bool) (x : T) : List T → List T
  | [] => [x]
  | y :: r => if before y x then y :: insStable before x r else x :: y :: r

/-- `list.sort(key=…, reverse=…)`: stable in both directions -/
def sortStable (before : T → T → Bool) (l : List T) : List T := l.foldr (insStable before) []

mutual
/-- `Tree.ladderize(ascending)`: children sorted by total number of descendants (= size − 1), stable, post-order -/
def ladderize (asc : Bool) : T → T
  | .node i x l s cs =>
    .node i x l s (sortStable (fun a b => if asc then a.size < b.size else b.size < a.size) (ladderizeL asc cs))
def ladderizeL (asc : Bool) : List T → List T
  | [] => []
  | c :: cs => ladderize asc c :: ladderizeL asc cs
end

/-- sort key of `Tree.reorder`: the taxon label, `""` without taxon; carried in the protocol's label column -/
def keyOf (t : T) : String := t.label.getD ""

mutual
/-- `Tree.reorder(ascending)`: children sorted by taxon label, stable, at every node -/
def reorder (asc : Bool) : T → T
  | .node i x l s cs =>
    .node i x l s (sortStable (fun a b => if asc then keyOf a < keyOf b else keyOf b < keyOf a) (reorderL asc cs))
def reorderL (asc : Bool) : List T → List T
  | [] => []
  | c :: cs => reorder asc c :: reorderL asc cs
end

mutual
/-- `Tree.randomly_rotate` with the recorded shuffles: `rank[id]` = position of the node among its siblings afterwards -/
def rotate (rank : Nat → Nat) : T → T
  | .node i x l s cs => .node i x l s (sortStable (fun a b => rank a.id < rank b.id) (rotateL rank cs))
def rotateL (rank : Nat → Nat) : List T → List T
  | [] => []
  | c :: cs => rotate rank c :: rotateL rank cs
end

/-- `Tree.randomly_reorient` with the recorded draws: `pick` = the sampled node, then rotation by `rank` -/
def reorient (flag : Option Bool) (pick : Nat) (rank : Nat → Nat) (t : T) : Option (T × Option Bool) :=
  match t.find? pick with
  | none => none
  | some n =>
    if n.cs.isEmpty && pick != t.id then (toOutgroup flag true pick t).map (fun r => (rotate rank r.1, r.2))
    else let r := reseedAt flag true true pick t; some (rotate rank r.1, r.2)

end DendroModel.C07
