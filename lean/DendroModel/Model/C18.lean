/-! C18 — the tree simulators as event loops driven by an explicit list of draws (no RNG in the model).
Mathlib-free and executable (the driver `drv_c18` runs exactly these definitions).

Numbers: every time (waiting time, edge length, `max_time`, period) is an `Int` in one common unit and every
rate an `Int` in one common rate unit; any finite list of rational draws has such a unit, so the loops below are
the code's loops on *every* rational draw list.  A uniform draw `u ∈ [0,1)` travels as `num/den`.

Mirrored code: `birthdeath.birth_death_tree` (new tree, default flags, stops `num_extant_tips` / `max_time`, no GSA),
`fast_birth_death_tree`, `uniform_pure_birth_tree`, `probability.weighted_index_choice`,
`coalescent.coalesce_nodes` / `pure_kingman_tree` / `contained_coalescent_tree` / `constrained_kingman_tree`. -/
namespace DendroModel.C18

/-- one logged call of the generator -/
inductive Draw where
  | w (v : Int)                 -- expovariate(rate) -> v
  | u (num den : Int)           -- random() -> num/den
  | g (v : Int)                 -- gauss(0, sd) -> v   (rate unit)
  | perm (p : List Nat)         -- shuffle(x): x[:] = [x[i] for i in p]
  | samp (i j : Nat)            -- sample(pop, 2) -> [pop[i], pop[j]]
  | choice (i : Nat)            -- choice(seq) -> seq[i]
  | rint (v : Int)              -- randint(a, b) -> v
deriving Repr, DecidableEq

inductive Err where
  | draws     -- the draw list ended inside a run
  | kind      -- the next draw is of another kind than the call the code makes here (or an impossible value)
  | fuel      -- loop fuel exhausted (never: `bd_only_script_errors`, `fbd_only_script_errors`, `pb_only_script_errors`,
              --   `kingman_only_script_errors`, `contained_never_internal_error`, `coalesce_fuel_suffices`)
  | state     -- an internal failure.  Never for admissible rates (same theorems); with evolving rates gone negative exactly the
              --   code's ZeroDivisionError (rates summing to zero, `bd_state_error_iff_zero_rate_sum`); for GSA also the code's assert
  | arg       -- inadmissible argument: the code raises (empty namespace, no genes, birth + death <= 0)
deriving Repr, DecidableEq

/-! ## `probability.weighted_index_choice` in exact arithmetic

```
rnd = rng.random() * sum(weights)
for i, w in enumerate(weights):
    rnd -= w
    if rnd < 0: return i
```
Everything is multiplied by the (positive) denominator `ud` of the uniform draw. -/
def wicLoop (ud : Int) : Int → Nat → List Int → Option Nat
  | _, _, [] => none
  | rnd, i, w :: ws =>
    let rnd' := rnd - w * ud
    if rnd' < 0 then some i else wicLoop ud rnd' (i + 1) ws

def wic (un ud : Int) (ws : List Int) : Option Nat := wicLoop ud (un * ws.sum) 0 ws

/-- the event choice of `birth_death_tree` on possibly negative rates (evolving rates may go below zero).  The code first normalises:
`event_rates[i] / rate_of_any_event` — a `ZeroDivisionError` when the rates sum to zero (`none`) — and then runs
`weighted_index_choice` on the normalised weights, whose sum is 1: index `i` is returned as soon as `u - Σ_{j≤i} w_j/S < 0`.
For `S > 0` that is `wic` on the raw rates; for `S < 0` the inequality flips, i.e. `wic` on the negated rates.  In exact
arithmetic the loop always returns by the last index (`(u-1)·S/S < 0`), so the fall-through is not reached. -/
def wicN (p q : Int) (ws : List Int) : Option Nat :=
  if ws.sum = 0 then none
  else if 0 < ws.sum then wic p q ws
  else wic p q (ws.map (fun w => -w))

/-! ## growing trees -/

/-- a growing tree: `tip` carries the `is_extinct`-style flag (`alive`), `un` only arises while extinct tips are pruned -/
inductive BT where
  | tip (id : Nat) (len : Int) (alive : Bool)
  | un (id : Nat) (len : Int) (c : BT)
  | bin (id : Nat) (len : Int) (l r : BT)
deriving Repr, Inhabited

namespace BT
def len : BT → Int
  | tip _ l _ => l
  | un _ l _ => l
  | bin _ l _ _ => l

/-- add `w` to the node's own edge -/
def addLen (w : Int) : BT → BT
  | tip i l a => tip i (l + w) a
  | un i l c => un i (l + w) c
  | bin i l x y => bin i (l + w) x y

/-- `for nd in extant_tips: nd.edge.length += waiting_time` -/
def addAlive (w : Int) : BT → BT
  | tip i l a => tip i (if a then l + w else l) a
  | un i l c => un i l (addAlive w c)
  | bin i l x y => bin i l (addAlive w x) (addAlive w y)

/-- number of tips flagged alive -/
def aliveCount : BT → Nat
  | tip _ _ a => if a then 1 else 0
  | un _ _ c => aliveCount c
  | bin _ _ x y => aliveCount x + aliveCount y

def nLeaves : BT → Nat
  | tip _ _ _ => 1
  | un _ _ c => nLeaves c
  | bin _ _ x y => nLeaves x + nLeaves y

/-- birth: the first alive tip with id `i` (pre-order) gets two fresh alive children of length `l0` -/
def splitFirst (i c1 c2 : Nat) (l0 : Int) : BT → Option BT
  | tip j l a => if a && j == i then some (bin j l (tip c1 l0 true) (tip c2 l0 true)) else none
  | un j l c => (splitFirst i c1 c2 l0 c).map (un j l)
  | bin j l x y =>
    match splitFirst i c1 c2 l0 x with
    | some x' => some (bin j l x' y)
    | none => (splitFirst i c1 c2 l0 y).map (bin j l x)

/-- death: the first alive tip with id `i` becomes extinct -/
def killFirst (i : Nat) : BT → Option BT
  | tip j l a => if a && j == i then some (tip j l false) else none
  | un j l c => (killFirst i c).map (un j l)
  | bin j l x y =>
    match killFirst i x with
    | some x' => some (bin j l x' y)
    | none => (killFirst i y).map (bin j l x)

/-- pure birth: the `k`-th leaf in tree order gets two zero-length children -/
def splitNth (k c1 c2 : Nat) : BT → Option BT
  | tip j l _ => if k == 0 then some (bin j l (tip c1 0 true) (tip c2 0 true)) else none
  | un j l c => (splitNth k c1 c2 c).map (un j l)
  | bin j l x y =>
    if k < nLeaves x then (splitNth k c1 c2 x).map (fun x' => bin j l x' y)
    else (splitNth (k - nLeaves x) c1 c2 y).map (bin j l x)

/-- removal of the extinct tips (`prune_subtree(nd, suppress_unifurcations=False)` for every extinct tip,
climbing over parents left with a single child): an emptied node disappears, a node left with one child stays unary -/
def prune : BT → Option BT
  | tip i l a => if a then some (tip i l a) else none
  | un i l c => (prune c).map (un i l)
  | bin i l x y =>
    match prune x, prune y with
    | some x', some y' => some (bin i l x' y')
    | some x', none => some (un i l x')
    | none, some y' => some (un i l y')
    | none, none => none

/-- `Tree.suppress_unifurcations`: a unary node is spliced out and its child absorbs its edge length
(also at the seed, where the child becomes the new seed) -/
def suppress : BT → BT
  | tip i l a => tip i l a
  | un _ l c => addLen l (suppress c)
  | bin i l x y => bin i l (suppress x) (suppress y)

def noUn : BT → Bool
  | tip _ _ _ => true
  | un _ _ _ => false
  | bin _ _ x y => noUn x && noUn y

/-- depths of the alive tips, measured from the top of this node's own edge (own edge included), tree order -/
def aliveDepths : BT → List Int
  | tip _ l a => if a then [l] else []
  | un _ l c => (aliveDepths c).map (· + l)
  | bin _ l x y => (aliveDepths x ++ aliveDepths y).map (· + l)

/-- fast_birth_death_tree stores the creation time in `edge.length` of an open tip and closes it with
`length = total_time - length` -/
def closeAlive (total : Int) : BT → BT
  | tip i l a => tip i (if a then total - l else l) a
  | un i l c => un i l (closeAlive total c)
  | bin i l x y => bin i l (closeAlive total x) (closeAlive total y)

/-- fast birth: first alive tip `i` is closed (`length = total - length`) and gets two children opened at `total` -/
def splitFast (i c1 c2 : Nat) (total : Int) : BT → Option BT
  | tip j l a => if a && j == i then some (bin j (total - l) (tip c1 total true) (tip c2 total true)) else none
  | un j l c => (splitFast i c1 c2 total c).map (un j l)
  | bin j l x y =>
    match splitFast i c1 c2 total x with
    | some x' => some (bin j l x' y)
    | none => (splitFast i c1 c2 total y).map (bin j l x)
end BT
open BT

/-! ## taxon assignment (shared tail of `birth_death_tree` and `fast_birth_death_tree`) -/

def nodupB : List Nat → Bool
  | [] => true
  | x :: xs => !xs.contains x && nodupB xs

/-- `p` lists every index below `n` exactly once -/
def isPerm (n : Nat) (p : List Nat) : Bool := p.length == n && p.all (· < n) && nodupB p

/-- `for nd in shuffled_leaves: taxon = taxon_pool.pop() if taxon_pool else <new taxon>`;
`pool` is held reversed (head = end of the Python list); new taxa receive the next accession indices -/
def assignLoop : List Nat → Nat → List Nat → List (Nat × Nat)
  | _, _, [] => []
  | t :: pool, next, l :: ls => (l, t) :: assignLoop pool next ls
  | [], next, l :: ls => (l, next) :: assignLoop [] (next + 1) ls

/-- taxon (accession index) of each leaf in tree order.  `n0` members in the namespace; `p1` = shuffle of the pool,
`p2` = shuffle of `tree.leaf_nodes()` (positions in tree order) -/
def assignTaxa (n0 m : Nat) (p1 p2 : List Nat) : Option (List (Nat × Nat)) :=
  if isPerm n0 p1 && isPerm m p2 then some (assignLoop p1.reverse n0 p2) else none

def lookupTaxon (assoc : List (Nat × Nat)) (j : Nat) : Nat := (assoc.lookup j).getD 0

/-- `L<taxon>:<len>` (extant tip) / `X<taxon>:<len>` (retained extinct tip) / `(<len> child child)`; leaves numbered in tree order from `j` -/
def renderBT (assoc : List (Nat × Nat)) : BT → Nat → String × Nat
  | tip _ l a, j => ((if a then "L" else "X") ++ toString (lookupTaxon assoc j) ++ ":" ++ toString l, j + 1)
  | un _ l c, j => let (s, j) := renderBT assoc c j; ("(" ++ toString l ++ " " ++ s ++ ")", j)
  | bin _ l x y, j =>
    let (s1, j) := renderBT assoc x j
    let (s2, j) := renderBT assoc y j
    ("(" ++ toString l ++ " " ++ s1 ++ " " ++ s2 ++ ")", j)

/-! ## `birth_death_tree` -/

structure Tip where
  id : Nat
  br : Int
  dr : Int
deriving Repr

namespace BT
/-- depths of the extinct tips (same convention as `aliveDepths`) -/
def deadDepths : BT → List Int
  | tip _ l a => if a then [] else [l]
  | un _ l c => (deadDepths c).map (· + l)
  | bin _ l x y => (deadDepths x ++ deadDepths y).map (· + l)

/-- some tip flagged alive carries id `i` -/
def hasAlive (i : Nat) : BT → Bool
  | tip j _ a => a && j == i
  | un _ _ c => hasAlive i c
  | bin _ _ x y => hasAlive i x || hasAlive i y

def maxId : BT → Nat
  | tip i _ _ => i
  | un i _ c => Nat.max i (maxId c)
  | bin i _ x y => Nat.max i (Nat.max (maxId x) (maxId y))

/-- ids of the extant tips in `for nd in tree` (pre-order) order -/
def aliveIds : BT → List Nat
  | tip i _ a => if a then [i] else []
  | un _ _ c => aliveIds c
  | bin _ _ x y => aliveIds x ++ aliveIds y

def deadIds : BT → List Nat
  | tip i _ a => if a then [] else [i]
  | un _ _ c => deadIds c
  | bin _ _ x y => deadIds x ++ deadIds y
end BT

structure BDParams where
  nTips : Option Nat      -- num_extant_tips
  maxTime : Option Int    -- max_time
  b : Int
  d : Int
  nExtinct : Option Nat := none   -- num_extinct_tips
  nTotal : Option Nat := none     -- num_total_tips
  retain : Bool := false          -- is_retain_extinct_tips
  start : BT := .tip 0 0 true     -- the `tree=` argument (a tree to continue); default: a fresh tree, one seed node of length 0.0

structure BDState where
  tree : BT
  extant : List Tip
  extinct : List Nat
  total : Int
  next : Nat

inductive Step (σ : Type) where
  | done (s : σ) (rest : List Draw)
  | cont (s : σ) (rest : List Draw)

/-- the initial state: the leaves of the start tree not flagged extinct are the extant tips (in `for nd in tree` order), every
one with the given rates; the flagged ones the extinct tips -/
def bdInit (P : BDParams) : BDState :=
  { tree := P.start, extant := P.start.aliveIds.map (fun i => ⟨i, P.b, P.d⟩), extinct := P.start.deadIds, total := 0,
    next := P.start.maxId + 1 }

/-- the termination tests at the head of the loop -/
def bdStop (P : BDParams) (nExtant : Nat) (total : Int) : Bool :=
  (match P.nTips with | some n => decide (nExtant ≥ n) | none => false) ||
  (match P.maxTime with | some t => decide (total ≥ t) | none => false)

/-- the two further termination tests: `len(extinct_tips) >= num_extinct_tips`, `len(extant_tips) + len(extinct_tips) >= num_total_tips` -/
def xStop (P : BDParams) (nExtant nExtinct : Nat) : Bool :=
  (match P.nExtinct with | some k => decide (nExtinct ≥ k) | none => false) ||
  (match P.nTotal with | some k => decide (nExtant + nExtinct ≥ k) | none => false)

/-- `if max_time is None or total_time <= max_time` -/
def eventAllowed (P : BDParams) (total : Int) : Bool :=
  match P.maxTime with | some t => decide (total ≤ t) | none => true

/-- `event_rates`: birth, death of each extant tip in list order -/
def rates : List Tip → List Int
  | [] => []
  | t :: ts => t.br :: t.dr :: rates ts

/-- `extant_tips.remove(nd)` -/
def removeTip (i : Nat) : List Tip → List Tip
  | [] => []
  | t :: ts => if t.id == i then ts else t :: removeTip i ts

/-- the restart after total extinction: the initial tip sets again, their children cleared, the clock zeroed and — as the
property demands (equidistant extant tips) and as `fast_birth_death_tree` does — the initial tips' edge lengths restored, i.e.
the start tree again.  (The unrepaired `birth_death_tree` leaves the lengths the failed run had given them.) -/
def bdRestart (P : BDParams) (s : BDState) : BDState :=
  { bdInit P with next := s.next }

/-- birth: four `gauss` draws give the daughters' rates; `extant_tips.append(c1); extant_tips.append(c2)` -/
def bdBirth (s : BDState) (nd : Tip) (rest : List Tip) (ds : List Draw) : Except Err (Step BDState) :=
  match ds with
  | .g g1 :: .g g2 :: .g g3 :: .g g4 :: ds =>
    match s.tree.splitFirst nd.id s.next (s.next + 1) 0 with
    | none => .error .state
    | some t =>
      .ok (.cont { tree := t,
                   extant := rest ++ [⟨s.next, nd.br + g1, nd.dr + g2⟩, ⟨s.next + 1, nd.br + g3, nd.dr + g4⟩],
                   extinct := s.extinct, total := s.total, next := s.next + 2 } ds)
  | _ => .error (if ds.length < 4 then .draws else .kind)

/-- death: either other lineages remain (the tip joins `extinct_tips`) or the process restarts -/
def bdDeath (P : BDParams) (s : BDState) (nd : Tip) (rest : List Tip) (ds : List Draw) : Except Err (Step BDState) :=
  if rest.isEmpty then .ok (.cont (bdRestart P s) ds)
  else
    match s.tree.killFirst nd.id with
    | none => .error .state
    | some t => .ok (.cont { tree := t, extant := rest, extinct := s.extinct ++ [nd.id], total := s.total, next := s.next } ds)

/-- `nd, birth_event = probability.weighted_choice(event_nodes, event_rates, rng=rng); extant_tips.remove(nd)` -/
def bdEvent (P : BDParams) (s : BDState) (ds : List Draw) : Except Err (Step BDState) :=
  -- `event_rates[i] / rate_of_any_event`: ZeroDivisionError when the rates sum to zero, before the uniform draw is taken
  if (rates s.extant).sum == 0 then .error .state else
  match ds with
  | [] => .error .draws
  | .u p q :: ds =>
    if q ≤ 0 || p < 0 || p ≥ q then .error .kind else
    match wicN p q (rates s.extant) with
    | none => .error .state
    | some k =>
      match s.extant[k / 2]? with
      | none => .error .state
      | some nd =>
        if k % 2 == 0 then bdBirth s nd (removeTip nd.id s.extant) ds
        else bdDeath P s nd (removeTip nd.id s.extant) ds
  | _ => .error .kind

/-- one pass through the `while True` body -/
def bdIter (P : BDParams) (s : BDState) (ds : List Draw) : Except Err (Step BDState) :=
  if bdStop P s.extant.length s.total || xStop P s.extant.length s.extinct.length then .ok (.done s ds) else
  match ds with
  | [] => .error .draws
  | .w w :: ds =>
    if w < 0 then .error .kind else
    let s1 := { s with tree := s.tree.addAlive w, total := s.total + w }
    if eventAllowed P s1.total then bdEvent P s1 ds else .ok (.cont s1 ds)
  | _ => .error .kind

def bdLoop (P : BDParams) : Nat → BDState → List Draw → Except Err (BDState × List Draw)
  | 0, _, _ => .error .fuel
  | f + 1, s, ds =>
    match bdIter P s ds with
    | .error e => .error e
    | .ok (.done s' ds') => .ok (s', ds')
    | .ok (.cont s' ds') => bdLoop P f s' ds'

structure SimResult where
  tree : BT
  taxa : List (Nat × Nat)     -- (leaf position in tree order, taxon accession index)

/-- pruning of extinct tips, unifurcation suppression, the two shuffles and the assignment -/
def finish (n0 : Nat) (t : BT) (ds : List Draw) : Except Err SimResult :=
  match prune t with
  | none => .error .state
  | some t1 =>
    let t2 := suppress t1
    match ds with
    | [.perm p1, .perm p2] =>
      match assignTaxa n0 t2.nLeaves p1 p2 with
      | some a => .ok ⟨t2, a⟩
      | none => .error .kind
    | _ => .error (if ds.length < 2 then .draws else .kind)

/-- `is_retain_extinct_tips=True`: nothing is pruned; `suppress_unifurcations` still runs; every leaf, extinct ones
included, takes part in the shuffle and receives a taxon (`is_assign_extinct_taxa` defaults to True) -/
def finishRetain (n0 : Nat) (t : BT) (ds : List Draw) : Except Err SimResult :=
  let t2 := suppress t
  match ds with
  | [.perm p1, .perm p2] =>
    match assignTaxa n0 t2.nLeaves p1 p2 with
    | some a => .ok ⟨t2, a⟩
    | none => .error .kind
  | _ => .error (if ds.length < 2 then .draws else .kind)

def bdRun (P : BDParams) (n0 : Nat) (ds : List Draw) : Except Err SimResult :=
  match bdLoop P (ds.length + 1) (bdInit P) ds with
  | .error e => .error e
  | .ok (s, rest) => if P.retain then finishRetain n0 s.tree rest else finish n0 s.tree rest

/-! ## `birth_death_tree(..., num_extant_tips=N, gsa_ntax=G)`: the General Sampling Approach

The process runs until `G ≥ N` tips are extant (or dies out); every waiting time that starts with exactly `N` extant tips
is remembered as a *time slice* `(waiting_time, [(tip, its edge length at the start)])`; one slice is then selected and the
tree is cut back to it: every tip of the slice loses its descendants and gets `length = start length + waiting_time`. -/

namespace BT
/-- `(id, edge length)` of the alive tips, tree order -/
def aliveTips : BT → List (Nat × Int)
  | tip i l a => if a then [(i, l)] else []
  | un _ _ c => aliveTips c
  | bin _ _ x y => aliveTips x ++ aliveTips y

def rootId : BT → Nat
  | tip i _ _ => i
  | un i _ _ => i
  | bin i _ _ _ => i

/-- the first node (pre-order) with id `i` loses its descendants and becomes an extant tip of length `l` -/
def cutBack (i : Nat) (l : Int) : BT → Option BT
  | tip j _ _ => if j == i then some (tip j l true) else none
  | un j l0 c => if j == i then some (tip j l true) else (cutBack i l c).map (un j l0)
  | bin j l0 x y =>
    if j == i then some (tip j l true) else
    match cutBack i l x with
    | some x' => some (bin j l0 x' y)
    | none => (cutBack i l y).map (bin j l0 x)

/-- the subtree rooted at the first node with id `i` -/
def subtreeAt (i : Nat) : BT → Option BT
  | tip j l a => if j == i then some (tip j l a) else none
  | un j l c => if j == i then some (un j l c) else subtreeAt i c
  | bin j l x y =>
    if j == i then some (bin j l x y) else
    match subtreeAt i x with
    | some r => some r
    | none => subtreeAt i y

def isTip : BT → Bool
  | tip _ _ _ => true
  | _ => false
end BT

structure GState where
  st : BDState
  slices : List (Int × List (Nat × Int))

/-- death under GSA: total extinction ends the run once a slice exists, otherwise the process restarts -/
def gsaDeath (P : BDParams) (g : GState) (nd : Tip) (rest : List Tip) (ds : List Draw) : Except Err (Step GState) :=
  if rest.isEmpty then
    if !g.slices.isEmpty then .ok (.done { g with st := { g.st with extant := [] } } ds)
    else .ok (.cont { g with st := bdRestart P g.st } ds)
  else
    match g.st.tree.killFirst nd.id with
    | none => .error .state
    | some t => .ok (.cont { g with st := { g.st with tree := t, extant := rest, extinct := g.st.extinct ++ [nd.id] } } ds)

def gsaEvent (P : BDParams) (g : GState) (ds : List Draw) : Except Err (Step GState) :=
  if (rates g.st.extant).sum == 0 then .error .state else
  match ds with
  | [] => .error .draws
  | .u p q :: ds =>
    if q ≤ 0 || p < 0 || p ≥ q then .error .kind else
    match wicN p q (rates g.st.extant) with
    | none => .error .state
    | some k =>
      match g.st.extant[k / 2]? with
      | none => .error .state
      | some nd =>
        if k % 2 == 0 then
          match bdBirth g.st nd (removeTip nd.id g.st.extant) ds with
          | .error e => .error e
          | .ok (.cont s ds) => .ok (.cont { g with st := s } ds)
          | .ok (.done s ds) => .ok (.done { g with st := s } ds)
        else gsaDeath P g nd (removeTip nd.id g.st.extant) ds
  | _ => .error .kind

/-- one pass of the loop with `gsa_ntax = G`, `num_extant_tips = N` -/
def gsaIter (P : BDParams) (N G : Nat) (g : GState) (ds : List Draw) : Except Err (Step GState) :=
  if g.st.extant.length ≥ G then .ok (.done g ds) else
  match ds with
  | [] => .error .draws
  | .w w :: ds =>
    if w < 0 then .error .kind else
    let slices := if g.st.extant.length == N then g.slices ++ [(w, g.st.tree.aliveTips)] else g.slices
    let g1 : GState := { st := { g.st with tree := g.st.tree.addAlive w, total := g.st.total + w }, slices := slices }
    if eventAllowed P g1.st.total then gsaEvent P g1 ds else .ok (.cont g1 ds)
  | _ => .error .kind

def gsaLoop (P : BDParams) (N G : Nat) : Nat → GState → List Draw → Except Err (GState × List Draw)
  | 0, _, _ => .error .fuel
  | f + 1, g, ds =>
    match gsaIter P N G g ds with
    | .error e => .error e
    | .ok (.done g' ds') => .ok (g', ds')
    | .ok (.cont g' ds') => gsaLoop P N G f g' ds'

/-- `r = rng.random() * total_duration; for i in slices: r -= i[0]; if r < 0.0: selected_slice = i` — there is no
`break`, so the *last* slice for which the running remainder is negative wins.  Everything is scaled by `q > 0`. -/
def selectSlice (q : Int) : Int → List (Int × List (Nat × Int)) → Option (Int × List (Nat × Int)) → Option (Int × List (Nat × Int))
  | _, [], sel => sel
  | r, sl :: rest, sel =>
    let r' := r - sl.1 * q
    selectSlice q r' rest (if r' < 0 then some sl else sel)

/-- the code's pruning loop raises `TypeError` ("Node has no parent") when a detached child clade of a slice tip has gone
entirely extinct: its extinct tips are still listed in `extinct_tips` and the climb reaches the detached, parentless top -/
def gsaCrashAt (t : BT) (i : Nat) : Bool :=
  match t.subtreeAt i with
  | some (.bin _ _ x y) => (!x.isTip && x.aliveCount == 0) || (!y.isTip && y.aliveCount == 0)
  | _ => false

def cutBackAll (w : Int) : List (Nat × Int) → BT → Option BT
  | [], t => some t
  | (i, l) :: rest, t =>
    match t.cutBack i (l + w) with
    | none => none
    | some t' => cutBackAll w rest t'

/-- `none` = the code raises (the defect above); otherwise the tree cut back to the selected slice, then the common tail -/
def gsaRun (P : BDParams) (N G n0 : Nat) (ds : List Draw) : Except Err (Option SimResult) :=
  if G < N then .error .arg else
  match gsaLoop P N G (ds.length + 1) { st := bdInit P, slices := [] } ds with
  | .error e => .error e
  | .ok (g, rest) =>
    match rest with
    | .u p q :: rest =>
      if q ≤ 0 || p < 0 || p ≥ q then .error .kind else
      let total := (g.slices.map (·.1)).sum
      match selectSlice q (p * total) g.slices none with
      | none => .error .state
      | some (w, snap) =>
        if snap.any (fun x => gsaCrashAt g.st.tree x.1) then .ok none else
        match cutBackAll w snap g.st.tree with
        | none => .error .state
        | some t =>
          match finish n0 t rest with
          | .error e => .error e
          | .ok r => .ok (some r)
    | [] => .error .draws
    | _ => .error .kind

/-! ## `discrete_birth_death_tree` (generation-wise; constant rates, i.e. `birth_rate_sd = death_rate_sd = 0`)

Every generation visits the leaves present at its start in tree order: the leaf's edge grows by one generation, then a
uniform draw `u` decides: `u < birth` two zero-length daughters; `birth < u < birth + death` the lineage is pruned
(`prune_subtree`, which suppresses the unary parent: the sibling absorbs the parent's length) unless it is the only node
left (the seed): then `TreeSimTotalExtinctionException`, or with `repeat_until_success` only the generation counter is reset.
Because every operation is local to a leaf, the pass is a structural recursion; `outside` says whether any node exists
outside the subtree being processed (a leaf is the seed iff it is the last leaf and everything before it has died). -/

structure DParams where
  b : Int            -- birth probability per generation, in units 1/rs
  d : Int
  rs : Int           -- rate denominator
  ntax : Option Nat
  maxGens : Option Nat
  repeatOK : Bool    -- repeat_until_success

inductive DOut where
  | tree (t : Option BT) (reset : Bool)     -- what became of the subtree; was the generation counter reset
  | extinct                                 -- TreeSimTotalExtinctionException

/-- one generation over a subtree -/
def genPass (P : DParams) (outside : Bool) : BT → Nat → List Draw → Except Err (DOut × Nat × List Draw)
  | .tip i l a, next, ds =>
    match ds with
    | [] => .error .draws
    | .u p q :: ds =>
      if q ≤ 0 || p < 0 || p ≥ q then .error .kind else
      if p * P.rs < P.b * q then
        match ds with
        | .g 0 :: .g 0 :: .g 0 :: .g 0 :: ds => .ok (.tree (some (.bin i (l + 1) (.tip next 0 true) (.tip (next + 1) 0 true))) false, next + 2, ds)
        | _ => .error (if ds.length < 4 then .draws else .kind)
      else if P.b * q < p * P.rs && p * P.rs < (P.b + P.d) * q then
        if outside then .ok (.tree none false, next, ds)
        else if P.repeatOK then .ok (.tree (some (.tip i (l + 1) a)) true, next, ds)
        else .ok (.extinct, next, ds)
      else .ok (.tree (some (.tip i (l + 1) a)) false, next, ds)
    | _ => .error .kind
  | .un i l c, next, ds =>
    match genPass P outside c next ds with
    | .error e => .error e
    | .ok (.extinct, next, ds) => .ok (.extinct, next, ds)
    | .ok (.tree none r, next, ds) => .ok (.tree none r, next, ds)
    | .ok (.tree (some c') r, next, ds) => .ok (.tree (some (.un i l c')) r, next, ds)
  | .bin i l x y, next, ds =>
    match genPass P true x next ds with
    | .error e => .error e
    | .ok (.extinct, next, ds) => .ok (.extinct, next, ds)
    | .ok (.tree x' r1, next, ds) =>
      match genPass P (outside || x'.isSome) y next ds with
      | .error e => .error e
      | .ok (.extinct, next, ds) => .ok (.extinct, next, ds)
      | .ok (.tree y' r2, next, ds) =>
        .ok (.tree (match x', y' with
                    | some a, some b => some (.bin i l a b)
                    | some a, none => some (a.addLen l)
                    | none, some b => some (b.addLen l)
                    | none, none => none) (r1 || r2), next, ds)

structure DState where
  tree : BT
  gens : Nat
  next : Nat

/-- `(ntax is None or len(leaf_nodes) < ntax) and (max_time is None or num_gens < max_time)` -/
def dbdGo (P : DParams) (s : DState) : Bool :=
  (match P.ntax with | some n => decide (s.tree.nLeaves < n) | none => true) &&
  (match P.maxGens with | some m => decide (s.gens < m) | none => true)

/-- the generation loop -/
def dbdLoop (P : DParams) : Nat → DState → List Draw → Except Err (Option DState × List Draw)
  | 0, _, _ => .error .fuel
  | f + 1, s, ds =>
    if dbdGo P s then
      match genPass P false s.tree s.next ds with
      | .error e => .error e
      | .ok (.extinct, _, ds) => .ok (none, ds)
      | .ok (.tree none _, _, _) => .error .state
      | .ok (.tree (some t) r, next, ds) => dbdLoop P f { tree := t, gens := (if r then 0 else s.gens) + 1, next := next } ds
    else .ok (some s, ds)

/-- `while (max_time is None or num_gens < max_time): u = rng.uniform(0, 1); if u < birth + death: break; gens_to_add += 1` -/
def gensGo (P : DParams) (gens : Nat) : Bool :=
  match P.maxGens with | some m => decide (gens < m) | none => true

def addGens (P : DParams) (gens : Nat) : List Draw → Nat → Except Err (Nat × List Draw)
  | [], acc => if gensGo P gens then .error .draws else .ok (acc, [])
  | dr :: ds, acc =>
    if gensGo P gens then
      match dr with
      | .u p q =>
        if q ≤ 0 || p < 0 || p ≥ q then .error .kind else
        if p * P.rs < (P.b + P.d) * q then .ok (acc, ds) else addGens P gens ds (acc + 1)
      | _ => .error .kind
    else .ok (acc, dr :: ds)

/-- `none` = TreeSimTotalExtinctionException.  Taxa: with the default (empty) namespace leaf `j` gets the new taxon `T<j+1>` -/
def dbdRun (P : DParams) (ds : List Draw) : Except Err (Option SimResult) :=
  match dbdLoop P (ds.length + 1) { tree := .tip 0 0 true, gens := 0, next := 1 } ds with
  | .error e => .error e
  | .ok (none, _) => .ok none
  | .ok (some s, rest) =>
    match addGens P s.gens rest 0 with
    | .error e => .error e
    | .ok (k, []) =>
      let t := s.tree.addAlive k
      .ok (some ⟨t, (List.range t.nLeaves).map (fun j => (j, j))⟩)
    | .ok (_, _ :: _) => .error .kind

/-! ## `fast_birth_death_tree` (uniform rates; open tips store their creation time) -/

structure FState where
  tree : BT
  extant : List Nat
  total : Int
  next : Nat

def fInit : FState := { tree := .tip 0 0 true, extant := [0], total := 0, next := 1 }

/-- `taxI = rng.randint(0, len(extant_tips)-1)`; birth iff `rng.random() < birth_rate/(birth_rate+death_rate)` -/
def fbdEvent (P : BDParams) (s : FState) (ds : List Draw) : Except Err (Step FState) :=
  match ds with
  | .rint ti :: .u p q :: ds =>
    if q ≤ 0 || p < 0 || p ≥ q then .error .kind else
    if ti < 0 then .error .kind else
    match s.extant[ti.toNat]? with
    | none => .error .kind
    | some nd =>
      if p * (P.b + P.d) < P.b * q then
        match s.tree.splitFast nd s.next (s.next + 1) s.total with
        | none => .error .state
        | some t => .ok (.cont { tree := t, extant := s.extant.set ti.toNat s.next ++ [s.next + 1], total := s.total, next := s.next + 2 } ds)
      else if (s.extant.eraseIdx ti.toNat).isEmpty then
        .ok (.cont { tree := .tip 0 0 true, extant := [0], total := 0, next := s.next } ds)
      else
        match s.tree.killFirst nd with
        | none => .error .state
        | some t => .ok (.cont { tree := t, extant := s.extant.eraseIdx ti.toNat, total := s.total, next := s.next } ds)
  | _ => .error (if ds.length < 2 then .draws else .kind)

def fbdIter (P : BDParams) (s : FState) (ds : List Draw) : Except Err (Step FState) :=
  if bdStop P s.extant.length s.total then .ok (.done { s with tree := s.tree.closeAlive s.total } ds) else
  match ds with
  | [] => .error .draws
  | .w w :: ds =>
    if w < 0 then .error .kind else
    let s1 := { s with total := s.total + w }
    if eventAllowed P s1.total then fbdEvent P s1 ds else .ok (.cont s1 ds)
  | _ => .error .kind

def fbdLoop (P : BDParams) : Nat → FState → List Draw → Except Err (FState × List Draw)
  | 0, _, _ => .error .fuel
  | f + 1, s, ds =>
    match fbdIter P s ds with
    | .error e => .error e
    | .ok (.done s' ds') => .ok (s', ds')
    | .ok (.cont s' ds') => fbdLoop P f s' ds'

def fbdRun (P : BDParams) (n0 : Nat) (ds : List Draw) : Except Err SimResult :=
  if P.b + P.d ≤ 0 then .error .arg else
  match fbdLoop P (ds.length + 1) fInit ds with
  | .error e => .error e
  | .ok (s, rest) => finish n0 s.tree rest

/-! ## `uniform_pure_birth_tree` -/

/-- `while len(leaf_nodes) < len(taxon_namespace)`: wait, lengthen every leaf, split a chosen leaf -/
def pbLoop (n : Nat) : Nat → BT → Nat → List Draw → Except Err (BT × List Draw)
  | 0, _, _, _ => .error .fuel
  | f + 1, t, next, ds =>
    if t.nLeaves ≥ n then .ok (t, ds) else
    match ds with
    | .w w :: .choice k :: ds =>
      if w < 0 then .error .kind else
      match (t.addAlive w).splitNth k next (next + 1) with
      | none => .error .kind
      | some t' => pbLoop n f t' (next + 2) ds
    | _ => .error (if ds.length < 2 then .draws else .kind)

/-- leaves receive `taxon_namespace[idx]` in tree order -/
def pbRun (n : Nat) (ds : List Draw) : Except Err SimResult :=
  if n == 0 then .error .arg else   -- `taxon_namespace[0]` raises IndexError on an empty namespace
  match pbLoop n (ds.length + 1) (.tip 0 0 true) 1 ds with
  | .error e => .error e
  | .ok (t, rest) =>
    match rest with
    | [.w w] => if w < 0 then .error .kind else
      let t' := t.addAlive w
      .ok ⟨t', (List.range t'.nLeaves).map (fun j => (j, j))⟩
    | [] => .error .draws
    | _ => .error .kind

/-! ## the coalescent -/

/-- gene genealogy: `leaf a b` is gene `b` of population `a` (Kingman: taxon `a`); a fresh `Node()` has no edge length yet (0) -/
inductive GT where
  | leaf (a b : Nat) (len : Int)
  | join (len : Int) (l r : GT)
deriving Repr, Inhabited

namespace GT
def addLen (w : Int) : GT → GT
  | leaf a b l => leaf a b (l + w)
  | join l x y => join (l + w) x y

def leaves : GT → List (Nat × Nat)
  | leaf a b _ => [(a, b)]
  | join _ x y => leaves x ++ leaves y

/-- (leaf, distance from the leaf up to the top of this node's edge) -/
def depths : GT → List ((Nat × Nat) × Int)
  | leaf a b l => [((a, b), l)]
  | join l x y => (depths x ++ depths y).map (fun p => (p.1, p.2 + l))

def render : GT → (Nat × Nat → String) → String
  | leaf a b l, nm => "L" ++ nm (a, b) ++ ":" ++ toString l
  | join l x y, nm => "(" ++ toString l ++ " " ++ render x nm ++ " " ++ render y nm ++ ")"
end GT

/-- `time_units`: `1.0 if not pop_size else pop_size` -/
def timeUnits (pop : Nat) : Int := if pop == 0 then 1 else pop

/-- `nodes.remove(to_coalesce[0]); nodes.remove(to_coalesce[1])` -/
def removeTwo (i j : Nat) (l : List GT) : List GT :=
  if i < j then (l.eraseIdx j).eraseIdx i else (l.eraseIdx i).eraseIdx j

/-- `time_remaining is None or tmrca <= time_remaining` -/
def withinPeriod : Option Int → Int → Bool
  | none, _ => true
  | some r, t => decide (t ≤ r)

/-- one coalescence: every lineage is stretched by `tmrca`, two sampled lineages are joined under a new
zero-length ancestor that is appended to the pool -/
def coalEvent (tmrca : Int) (nodes : List GT) (ds : List Draw) : Except Err (List GT × List Draw) :=
  let stretched := nodes.map (GT.addLen tmrca)
  match ds with
  | [] => .error .draws
  | .samp i j :: ds =>
    match stretched[i]?, stretched[j]? with
    | some a, some b =>
      if i == j then .error .kind else .ok (removeTwo i j stretched ++ [.join 0 a b], ds)
    | _, _ => .error .kind
  | _ => .error .kind

/-- the `while len(nodes) > 1` loop of `coalesce_nodes`; `rem` is `time_remaining` (`none` = no period) -/
def coalLoop (pop : Nat) : Nat → List GT → Option Int → List Draw → Except Err (List GT × Option Int × List Draw)
  | 0, nodes, rem, ds => if nodes.length > 1 then .error .fuel else .ok (nodes, rem, ds)
  | f + 1, nodes, rem, ds =>
    if nodes.length ≤ 1 then .ok (nodes, rem, ds) else
    match ds with
    | [] => .error .draws
    | .w w :: ds =>
      if w < 0 then .error .kind else
      if withinPeriod rem (w * timeUnits pop) then
        match coalEvent (w * timeUnits pop) nodes ds with
        | .error e => .error e
        | .ok (nodes1, ds1) => coalLoop pop f nodes1 (rem.map (· - w * timeUnits pop)) ds1
      else .ok (nodes, rem, ds)
    | _ => .error .kind

/-- `coalesce_nodes(nodes, pop_size, period, rng)` -/
def coalesce (pop : Nat) (nodes : List GT) (period : Option Int) (ds : List Draw) : Except Err (List GT × List Draw) :=
  if nodes.isEmpty then .ok ([], ds) else
  match coalLoop pop nodes.length nodes period ds with
  | .error e => .error e
  | .ok (nodes', rem, ds') =>
    match rem with
    | some r => if r > 0 then .ok (nodes'.map (GT.addLen r), ds') else .ok (nodes', ds')
    | none => .ok (nodes', ds')

/-- `pure_kingman_tree(taxon_namespace, pop_size, rng)`: one fresh node per taxon, no period -/
def kingman (n pop : Nat) (ds : List Draw) : Except Err GT :=
  match coalesce pop ((List.range n).map (fun k => GT.leaf k 0 0)) none ds with
  | .error e => .error e
  | .ok ([t], []) => .ok t
  | .ok (_ :: _ :: _, _) => .error .state
  | .ok ([], _) => .error .arg
  | .ok ([_], _ :: _) => .error .kind

/-- population / species tree: node index, length of the edge above (`none` = `None`), population size of that edge,
the genes sampled at this node (leaves only), children -/
inductive ST where
  | node (idx : Nat) (len : Option Int) (pop : Nat) (genes : List (Nat × Nat)) (cs : List ST)
deriving Inhabited

mutual
/-- `for edge in containing_tree.postorder_edge_iter()`: the lineages present at the top of the edge above this node -/
def containedEdge : ST → List Draw → Except Err (List GT × List Draw)
  | .node _ len pop genes cs, ds =>
    match containedKids cs ds with
    | .error e => .error e
    | .ok (inc, ds) => coalesce pop (genes.map (fun g => GT.leaf g.1 g.2 0) ++ inc) len ds
/-- uncoalesced lineages handed up by the children, in child order (`pop_node_genes[tail].extend(uncoal)`) -/
def containedKids : List ST → List Draw → Except Err (List GT × List Draw)
  | [], ds => .ok ([], ds)
  | c :: cs, ds =>
    match containedEdge c ds with
    | .error e => .error e
    | .ok (up, ds) =>
      match containedKids cs ds with
      | .error e => .error e
      | .ok (ups, ds) => .ok (up ++ ups, ds)
end

/-- the root edge: unconstrained coalescence of everything that arrives (`period=None`), `seed_node = final[0]` -/
def contained : ST → List Draw → Except Err GT
  | .node _ _ pop genes cs, ds =>
    match containedKids cs ds with
    | .error e => .error e
    | .ok (inc, ds) =>
      match coalesce pop (genes.map (fun g => GT.leaf g.1 g.2 0) ++ inc) none ds with
      | .error e => .error e
      | .ok ([t], []) => .ok t
      | .ok ([], _) => .error .arg
      | .ok (_ :: _ :: _, _) => .error .state
      | .ok ([_], _ :: _) => .error .kind

mutual
/-- leaves of the population tree in tree order -/
def ST.leafIdx : ST → List Nat
  | .node i _ _ _ [] => [i]
  | .node _ _ _ _ (c :: cs) => ST.leafIdxL (c :: cs)
def ST.leafIdxL : List ST → List Nat
  | [] => []
  | c :: cs => ST.leafIdx c ++ ST.leafIdxL cs
end

mutual
def ST.setGenes (f : Nat → List (Nat × Nat)) : ST → ST
  | .node i l p _ [] => .node i l p (f i) []
  | .node i l p g (c :: cs) => .node i l p g (ST.setGenesL f (c :: cs))
def ST.setGenesL (f : Nat → List (Nat × Nat)) : List ST → List ST
  | [] => []
  | c :: cs => ST.setGenes f c :: ST.setGenesL f cs
end

/-- `constrained_kingman_tree(gene_sampling_strategy="random_uniform")`: gene `count` goes to `rng.choice(leaves)` -/
def sampleGenes (leaves : List Nat) : Nat → Nat → List Draw → Except Err (List (Nat × Nat) × List Draw)
  | 0, _, ds => .ok ([], ds)
  | k + 1, count, ds =>
    match ds with
    | [] => .error .draws
    | .choice i :: ds =>
      match leaves[i]? with
      | none => .error .kind
      | some lf =>
        match sampleGenes leaves k (count + 1) ds with
        | .error e => .error e
        | .ok (rest, ds) => .ok ((lf, count) :: rest, ds)
    | _ => .error .kind

def containedRU (s : ST) (numGenes : Nat) (ds : List Draw) : Except Err GT :=
  match sampleGenes s.leafIdx numGenes 1 ds with
  | .error e => .error e
  | .ok (gs, ds) => contained (s.setGenes (fun i => gs.filter (fun g => g.1 == i))) ds

end DendroModel.C18
