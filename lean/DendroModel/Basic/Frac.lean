/-! Exact rationals for edge lengths (Mathlib-free, executable).
Invariant kept by every constructor function here: `den > 0` and `gcd |num| den = 1`. -/
namespace DendroModel

structure Frac where
  num : Int
  den : Nat
deriving DecidableEq, Repr, Inhabited

namespace Frac

def mk' (n : Int) (d : Nat) : Frac :=
  if d == 0 then ⟨0, 1⟩ else
  let g := Nat.gcd n.natAbs d
  if g == 0 then ⟨0, 1⟩ else ⟨n / (g : Int), d / g⟩

def zero : Frac := ⟨0, 1⟩
def one : Frac := ⟨1, 1⟩
def ofInt (n : Int) : Frac := ⟨n, 1⟩
def ofNat (n : Nat) : Frac := ⟨n, 1⟩

def add (a b : Frac) : Frac := mk' (a.num * b.den + b.num * a.den) (a.den * b.den)
def neg (a : Frac) : Frac := ⟨-a.num, a.den⟩
def sub (a b : Frac) : Frac := add a (neg b)
def mul (a b : Frac) : Frac := mk' (a.num * b.num) (a.den * b.den)
def half (a : Frac) : Frac := mk' a.num (a.den * 2)
/-- division; division by zero yields zero (callers guard) -/
def div (a b : Frac) : Frac :=
  if b.num == 0 then zero
  else if b.num > 0 then mk' (a.num * b.den) (a.den * b.num.natAbs)
  else mk' (-(a.num * b.den)) (a.den * b.num.natAbs)
def lt (a b : Frac) : Bool := a.num * b.den < b.num * a.den
def le (a b : Frac) : Bool := a.num * b.den ≤ b.num * a.den
def beq (a b : Frac) : Bool := a.num * b.den == b.num * a.den
def abs (a : Frac) : Frac := ⟨a.num.natAbs, a.den⟩
def max (a b : Frac) : Frac := if lt a b then b else a
def min (a b : Frac) : Frac := if lt b a then b else a
def isZero (a : Frac) : Bool := a.num == 0

instance : Add Frac := ⟨add⟩
instance : Sub Frac := ⟨sub⟩
instance : Mul Frac := ⟨mul⟩
instance : Neg Frac := ⟨neg⟩

def render (a : Frac) : String :=
  let a := mk' a.num a.den
  if a.den == 1 then toString a.num else toString a.num ++ "/" ++ toString a.den

/-- parse `p`, `p/q`, `-p/q` -/
def parse (s : String) : Option Frac :=
  match s.splitOn "/" with
  | [p] => p.toInt?.map ofInt
  | [p, q] => match p.toInt?, q.toNat? with
    | some p, some q => if q == 0 then none else some (mk' p q)
    | _, _ => none
  | _ => none

def sum (l : List Frac) : Frac := l.foldl add zero

end Frac

/-- optional length rendering: `N` for none -/
def renderOLen : Option Frac → String
  | none => "N"
  | some f => f.render

def parseOLen (s : String) : Option (Option Frac) :=
  if s == "N" then some none else (Frac.parse s).map some

end DendroModel
