/-! Python's unbounded two's-complement integer operators on Lean `Int` (Mathlib-free, executable).
These four definitions are the operator mapping of the translator (`harness/extract.py`):
`&` ↦ `pyAnd`, `|` ↦ `pyOr`, `^` ↦ `pyXor`, `~` ↦ `pyNot`.  They are differential-tested
against CPython on every run (`harness/props/c01.py`, op `pyint`). -/
namespace DendroModel

/-- `a & ~b` on naturals -/
def natDiff (a b : Nat) : Nat := a ^^^ (a &&& b)

def pyNot : Int → Int
  | .ofNat n => .negSucc n
  | .negSucc n => .ofNat n

def pyAnd : Int → Int → Int
  | .ofNat m, .ofNat n => .ofNat (m &&& n)
  | .ofNat m, .negSucc n => .ofNat (natDiff m n)
  | .negSucc m, .ofNat n => .ofNat (natDiff n m)
  | .negSucc m, .negSucc n => .negSucc (m ||| n)

def pyOr : Int → Int → Int
  | .ofNat m, .ofNat n => .ofNat (m ||| n)
  | .ofNat m, .negSucc n => .negSucc (natDiff n m)
  | .negSucc m, .ofNat n => .negSucc (natDiff m n)
  | .negSucc m, .negSucc n => .negSucc (m &&& n)

def pyXor : Int → Int → Int
  | .ofNat m, .ofNat n => .ofNat (m ^^^ n)
  | .ofNat m, .negSucc n => .negSucc (m ^^^ n)
  | .negSucc m, .ofNat n => .negSucc (m ^^^ n)
  | .negSucc m, .negSucc n => .ofNat (m ^^^ n)

/-- `a << k` for non-negative `k` -/
def pyShl (a : Int) (k : Int) : Int := a * (2 : Int) ^ k.toNat

end DendroModel
