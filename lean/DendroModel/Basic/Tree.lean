import DendroModel.Basic.Frac
/-! The shared model tree type and the line-protocol encodings (Mathlib-free, executable).

A tree travels over the protocol as
  `n  p_0 … p_{n-1}  x_0 … x_{n-1}  l_0 … l_{n-1}  s_0 … s_{n-1}`
`p_i` parent index (-1 for the seed), `x_i` taxon accession index (bit number) or `-`,
`l_i` exact edge length `p/q` or `N` (None), `s_i` node label as hex or `-`.
Children of node `i` are the indices `j` with `p_j = i`, in index order. -/
namespace DendroModel

inductive T where
  | node (id : Nat) (taxon : Option Nat) (len : Option Frac) (label : Option String) (cs : List T)
deriving Inhabited

namespace T
def id : T → Nat | .node i _ _ _ _ => i
def taxon : T → Option Nat | .node _ x _ _ _ => x
def len : T → Option Frac | .node _ _ l _ _ => l
def label : T → Option String | .node _ _ _ s _ => s
def cs : T → List T | .node _ _ _ _ cs => cs
def isLeaf (t : T) : Bool := t.cs.isEmpty
def withCs : T → List T → T | .node i x l s _, cs => .node i x l s cs
def withLen : T → Option Frac → T | .node i x _ s cs, l => .node i x l s cs

mutual
def size : T → Nat
  | .node _ _ _ _ cs => 1 + sizeL cs
def sizeL : List T → Nat
  | [] => 0
  | c :: cs => size c + sizeL cs
end

mutual
/-- pre-order list of all nodes (subtrees) -/
def nodes : T → List T
  | .node i x l s cs => .node i x l s cs :: nodesL cs
def nodesL : List T → List T
  | [] => []
  | c :: cs => nodes c ++ nodesL cs
end

mutual
def leaves : T → List T
  | .node i x l s [] => [.node i x l s []]
  | .node _ _ _ _ (c :: cs) => leavesL (c :: cs)
def leavesL : List T → List T
  | [] => []
  | c :: cs => leaves c ++ leavesL cs
end

mutual
/-- leafset mask: OR of `1 <<< taxon` over the leaves below (a leaf without taxon gives 0;
    taxa on internal nodes are ignored, as `encode_bipartitions` does) -/
def mask : T → Nat
  | .node _ x _ _ [] => match x with | some k => 1 <<< k | none => 0
  | .node _ _ _ _ (c :: cs) => maskL (c :: cs)
def maskL : List T → Nat
  | [] => 0
  | c :: cs => mask c ||| maskL cs
end

mutual
def find? (i : Nat) : T → Option T
  | .node j x l s cs => if i == j then some (.node j x l s cs) else findL? i cs
def findL? (i : Nat) : List T → Option T
  | [] => none
  | c :: cs => match find? i c with
    | some r => some r
    | none => findL? i cs
end

mutual
/-- canonical order-revealing text: `(id taxon len child …)` -/
def render : T → String
  | .node i x l _ cs =>
    "(" ++ toString i ++ " " ++ (match x with | some k => toString k | none => "-") ++ " " ++ renderOLen l
      ++ renderL cs ++ ")"
def renderL : List T → String
  | [] => ""
  | c :: cs => " " ++ render c ++ renderL cs
end
end T

/-! ### protocol helpers -/

def hexVal (c : Char) : Option Nat :=
  if '0' ≤ c ∧ c ≤ '9' then some (c.toNat - '0'.toNat)
  else if 'a' ≤ c ∧ c ≤ 'f' then some (c.toNat - 'a'.toNat + 10)
  else if 'A' ≤ c ∧ c ≤ 'F' then some (c.toNat - 'A'.toNat + 10)
  else none

/-- hex of UTF-32 code points, 6 hex digits per character (so any Python `str` travels) -/
def unhex6 : List Char → Option (List Char)
  | [] => some []
  | a :: b :: c :: d :: e :: f :: rest =>
    match hexVal a, hexVal b, hexVal c, hexVal d, hexVal e, hexVal f, unhex6 rest with
    | some a, some b, some c, some d, some e, some f, some r =>
      some (Char.ofNat (((((a * 16 + b) * 16 + c) * 16 + d) * 16 + e) * 16 + f) :: r)
    | _, _, _, _, _, _, _ => none
  | _ => none

def hexDigit (n : Nat) : Char := if n < 10 then Char.ofNat (48 + n) else Char.ofNat (87 + n)

def hex6 : List Char → List Char
  | [] => []
  | c :: cs =>
    let n := c.toNat
    [hexDigit (n / 1048576 % 16), hexDigit (n / 65536 % 16), hexDigit (n / 4096 % 16),
     hexDigit (n / 256 % 16), hexDigit (n / 16 % 16), hexDigit (n % 16)] ++ hex6 cs

/-- decode a protocol string field: `-` is none, `=` is the empty string, else hex6 -/
def decodeStr (s : String) : Option (Option String) :=
  if s == "-" then some none
  else if s == "=" then some (some "")
  else (unhex6 s.toList).map (fun cs => some (String.ofList cs))

def encodeStr : Option String → String
  | none => "-"
  | some s => if s.isEmpty then "=" else String.ofList (hex6 s.toList)

def buildTree (fuel : Nat) (par : Array Int) (tax : Array (Option Nat)) (lens : Array (Option Frac))
    (labs : Array (Option String)) (i : Nat) : T :=
  match fuel with
  | 0 => .node i none none none []
  | f + 1 =>
    let kids := (List.range par.size).filter (fun j => par[j]! == (i : Int))
    .node i (tax[i]!) (lens[i]!) (labs[i]!) (kids.map (buildTree f par tax lens labs))

/-- parse a tree from the token list, returning the remaining tokens -/
def parseTree (toks : List String) : Option (T × List String) :=
  match toks with
  | [] => none
  | n :: rest =>
    match n.toNat? with
    | none => none
    | some n =>
      if rest.length < 4 * n then none else
      let ps := rest.take n
      let xs := (rest.drop n).take n
      let ls := (rest.drop (2 * n)).take n
      let ss := (rest.drop (3 * n)).take n
      match ps.mapM String.toInt?,
            xs.mapM (fun x => if x == "-" then some none else x.toNat?.map some),
            ls.mapM parseOLen, ss.mapM decodeStr with
      | some ps, some xs, some ls, some ss =>
        let par := ps.toArray
        match (List.range n).find? (fun j => par[j]! == -1) with
        | none => none
        | some root => some (buildTree (n + 1) par xs.toArray ls.toArray ss.toArray root, rest.drop (4 * n))
      | _, _, _, _ => none

def words (line : String) : List String :=
  (line.trimAscii.toString.splitOn " ").filter (fun s => !s.isEmpty)

/-- generic driver loop: one line in, one line out -/
partial def driverLoop (h : IO.FS.Stream) (handle : List String → String) : IO Unit := do
  let out ← IO.getStdout
  let rec go : IO Unit := do
    let line ← h.getLine
    if line.isEmpty then return ()
    out.putStrLn (handle (words line))
    go
  go
  out.flush

def natList (l : List Nat) : String := " ".intercalate (l.map toString)

def insertSortedNat (x : Nat) : List Nat → List Nat
  | [] => [x]
  | y :: ys => if x ≤ y then x :: y :: ys else y :: insertSortedNat x ys
def sortNat (l : List Nat) : List Nat := l.foldr insertSortedNat []
def dedupSorted : List Nat → List Nat
  | [] => []
  | [x] => [x]
  | x :: y :: r => if x == y then dedupSorted (y :: r) else x :: dedupSorted (y :: r)

end DendroModel
