import DendroModel.Basic.Tree
import DendroModel.Model.C18
import DendroModel.Model.C18Rates
open DendroModel DendroModel.C18

/-! Line protocol of `drv_c18` (all numbers are integers in the harness's time / rate units):
  bd   <N|-> <maxtime|-> <b> <d> <n0> <draws…>      birth_death_tree
  fbd  <N|-> <maxtime|-> <b> <d> <n0> <draws…>      fast_birth_death_tree
  pb   <n> <draws…>                                 uniform_pure_birth_tree
  king <n> <pop> <draws…>                           pure_kingman_tree
  cont <fix|ru<k>> <m> <par×m> <len×m> <pop×m> <ngenes×m> <draws…>   contained_coalescent_tree / constrained_kingman_tree
  mking <n> <pop> <L> <draws…>                      mean_kingman_tree (expected waiting times, lengths in units 1/L)
  frames <n> <pop> <draws…>                         extract_coalescent_frames of the pure_kingman_tree of that script: `ok k:t …`
  rates bd|bdx|bdt|fbd <same arguments as the op>   the arguments of rng.expovariate along the run, in call order: `ok r …`
  rates pb <n> <b>   /   rates king <n>             `ok num/den …`  /  `ok r …`
draws: w<int> u<num>/<den> g<int> p<i,j,…> s<i>,<j> c<i> i<int>.  Answer: `ok <tree>` or `err <kind>`. -/

def natsCsv (s : String) : Option (List Nat) :=
  if s.isEmpty then some [] else (s.splitOn ",").mapM String.toNat?

def parseDraw (s : String) : Option Draw :=
  let body := (s.drop 1).toString
  match s.front with
  | 'w' => body.toInt?.map Draw.w
  | 'g' => body.toInt?.map Draw.g
  | 'i' => body.toInt?.map Draw.rint
  | 'c' => body.toNat?.map Draw.choice
  | 'p' => (natsCsv body).map Draw.perm
  | 's' => match natsCsv body with
    | some [i, j] => some (Draw.samp i j)
    | _ => none
  | 'u' => match body.splitOn "/" with
    | [a, b] => match a.toInt?, b.toInt? with
      | some a, some b => some (Draw.u a b)
      | _, _ => none
    | _ => none
  | _ => none

def optNat (s : String) : Option (Option Nat) := if s == "-" then some none else s.toNat?.map some
def optInt (s : String) : Option (Option Int) := if s == "-" || s == "N" then some none else s.toInt?.map some

def errName : Err → String
  | .draws => "draws" | .kind => "kind" | .fuel => "fuel" | .state => "state" | .arg => "arg"

def showSim : Except Err SimResult → String
  | .error e => "err " ++ errName e
  | .ok r => "ok " ++ (renderBT r.taxa r.tree 0).1

def showGT (nm : Nat × Nat → String) : Except Err GT → String
  | .error e => "err " ++ errName e
  | .ok t => "ok " ++ t.render nm

def buildST (fuel : Nat) (par : Array Int) (lens : Array (Option Int)) (pops : Array Nat) (ng : Array Nat) (i : Nat) : ST :=
  match fuel with
  | 0 => .node i none 1 [] []
  | f + 1 =>
    let kids := (List.range par.size).filter (fun j => par[j]! == (i : Int))
    .node i (lens[i]!) (pops[i]!) ((List.range (ng[i]!)).map (fun k => (i, k + 1)))
      (kids.map (buildST f par lens pops ng))

def showRates (rs : List Int) : String := " ".intercalate ("ok" :: rs.map toString)

def runBD (tr fast : Bool) (n mt b d n0 : String) (rest : List String) : String :=
  match optNat n, optInt mt, b.toInt?, d.toInt?, n0.toNat?, rest.mapM parseDraw with
  | some n, some mt, some b, some d, some n0, some ds =>
    let P : BDParams := { nTips := n, maxTime := mt, b := b, d := d }
    if tr then showRates (if fast then fbdRates P ds else bdRates P ds)
    else if fast then showSim (fbdRun P n0 ds) else showSim (bdRun P n0 ds)
  | _, _, _, _, _, _ => "bad-op"

/-- `bdx N|- maxT|- nExtinct|- nTotal|- retain(0|1) b d n0 draws…` -/
def runBDX (tr : Bool) (n mt nx nt ret b d n0 : String) (rest : List String) : String :=
  match optNat n, optInt mt, optNat nx, optNat nt, b.toInt?, d.toInt?, n0.toNat?, rest.mapM parseDraw with
  | some n, some mt, some nx, some nt, some b, some d, some n0, some ds =>
    if ret != "0" && ret != "1" then "bad-op" else
    let P : BDParams := { nTips := n, maxTime := mt, b := b, d := d, nExtinct := nx, nTotal := nt, retain := ret == "1" }
    if tr then showRates (bdRates P ds) else showSim (bdRun P n0 ds)
  | _, _, _, _, _, _, _, _ => "bad-op"

/-- `gsa N G b d n0 draws…`; answer `ok <tree>`, `raises` (the code's TypeError), or `err <kind>` -/
def runGSA (n g b d n0 : String) (rest : List String) : String :=
  match n.toNat?, g.toNat?, b.toInt?, d.toInt?, n0.toNat?, rest.mapM parseDraw with
  | some n, some g, some b, some d, some n0, some ds =>
    match gsaRun { nTips := some n, maxTime := none, b := b, d := d } n g n0 ds with
    | .error e => "err " ++ errName e
    | .ok none => "raises"
    | .ok (some r) => "ok " ++ (renderBT r.taxa r.tree 0).1
  | _, _, _, _, _, _ => "bad-op"

/-- a start tree for `tree=`: pre-order numbered parent array (node 0 the root), every node with 0 or 2 children -/
def buildBT (fuel : Nat) (par : Array Int) (lens : Array Int) (i : Nat) : Option BT :=
  match fuel with
  | 0 => none
  | f + 1 =>
    match (List.range par.size).filter (fun j => par[j]! == (i : Int)) with
    | [] => some (.tip i (lens[i]!) true)
    | [a, b] =>
      match buildBT f par lens a, buildBT f par lens b with
      | some x, some y => some (.bin i (lens[i]!) x y)
      | _, _ => none
    | _ => none

/-- `bdt N|- maxT|- b d n0 m par×m len×m draws…`: `birth_death_tree(..., tree=<start>)` -/
def runBDT (tr : Bool) (n mt b d n0 m : String) (toks : List String) : String :=
  match optNat n, optInt mt, b.toInt?, d.toInt?, n0.toNat?, m.toNat? with
  | some n, some mt, some b, some d, some n0, some m =>
    if toks.length < 2 * m || m == 0 then "bad-op" else
    match (toks.take m).mapM String.toInt?, ((toks.drop m).take m).mapM String.toInt?, (toks.drop (2 * m)).mapM parseDraw with
    | some par, some lens, some ds =>
      let ok := par.head? == some (-1) && (List.range m).all (fun j => j == 0 || (0 ≤ par.toArray[j]! && par.toArray[j]! < (j : Int)))
      if !ok then "bad-op" else
      match buildBT (m + 1) par.toArray lens.toArray 0 with
      | none => "bad-op"
      | some t =>
        let P : BDParams := { nTips := n, maxTime := mt, b := b, d := d, start := t }
        if tr then showRates (bdRates P ds) else showSim (bdRun P n0 ds)
    | _, _, _ => "bad-op"
  | _, _, _, _, _, _ => "bad-op"

/-- `dbd b d rs ntax|- maxgens|- repeat(0|1) draws…`; answer `ok <tree>`, `extinct` (TreeSimTotalExtinctionException) or `err` -/
def runDBD (b d rs n mg rep : String) (rest : List String) : String :=
  match b.toInt?, d.toInt?, rs.toInt?, optNat n, optNat mg, rest.mapM parseDraw with
  | some b, some d, some rs, some n, some mg, some ds =>
    if (rep != "0" && rep != "1") || rs ≤ 0 then "bad-op" else
    match dbdRun { b := b, d := d, rs := rs, ntax := n, maxGens := mg, repeatOK := rep == "1" } ds with
    | .error e => "err " ++ errName e
    | .ok none => "extinct"
    | .ok (some r) => "ok " ++ (renderBT r.taxa r.tree 0).1
  | _, _, _, _, _, _ => "bad-op"

def runCont (mode m : String) (toks : List String) : String :=
  match m.toNat? with
  | none => "bad-op"
  | some m =>
    if toks.length < 4 * m then "bad-op" else
    match (toks.take m).mapM String.toInt?, ((toks.drop m).take m).mapM optInt,
          ((toks.drop (2 * m)).take m).mapM String.toNat?, ((toks.drop (3 * m)).take m).mapM String.toNat?,
          (toks.drop (4 * m)).mapM parseDraw with
    | some par, some lens, some pops, some ng, some ds =>
      -- nodes are numbered in pre-order: node 0 is the root and every other parent index precedes its child;
      -- anything else (cycles, several roots, dangling parents) is refused rather than truncated
      let wellNumbered := par.length == m && m > 0 && par.head? == some (-1) &&
        (List.range m).all (fun j => j == 0 || (0 ≤ par.toArray[j]! && par.toArray[j]! < (j : Int)))
      if !wellNumbered then "bad-op" else
      match (List.range m).find? (fun j => par.toArray[j]! == -1) with
      | none => "bad-op"
      | some root =>
        let st := buildST (m + 1) par.toArray lens.toArray pops.toArray ng.toArray root
        let nm := fun (p : Nat × Nat) => toString p.1 ++ "." ++ toString p.2
        if mode == "fix" then showGT nm (contained st ds)
        else if mode.startsWith "ru" then
          match (mode.drop 2).toString.toNat? with
          | some k => showGT nm (containedRU st k ds)
          | none => "bad-op"
        else "bad-op"
    | _, _, _, _, _ => "bad-op"

def handle (ws : List String) : String :=
  match ws with
  | "bd" :: n :: mt :: b :: d :: n0 :: rest => runBD false false n mt b d n0 rest
  | "fbd" :: n :: mt :: b :: d :: n0 :: rest => runBD false true n mt b d n0 rest
  | "rates" :: "bd" :: n :: mt :: b :: d :: n0 :: rest => runBD true false n mt b d n0 rest
  | "rates" :: "fbd" :: n :: mt :: b :: d :: n0 :: rest => runBD true true n mt b d n0 rest
  | "rates" :: "bdt" :: n :: mt :: b :: d :: n0 :: m :: toks => runBDT true n mt b d n0 m toks
  | "rates" :: "bdx" :: n :: mt :: nx :: nt :: ret :: b :: d :: n0 :: rest => runBDX true n mt nx nt ret b d n0 rest
  | ["rates", "pb", n, b] =>
    match n.toNat?, b.toInt? with
    | some n, some b => " ".intercalate ("ok" :: (pbRates n b).map (fun r => toString r.1 ++ "/" ++ toString r.2))
    | _, _ => "bad-op"
  | ["rates", "king", n] =>
    match n.toNat? with
    | some n => showRates (kingRates n)
    | none => "bad-op"
  | "rt" :: k :: sh :: n :: mt :: b :: d :: n0 :: rest =>
    -- `rt <k> <shared 0|1> <N|-> <maxT|-> <b> <d> <n0> draws…`: rand_trees(rng, birth_death_tree, kwargs, k); trees joined by " | "
    match k.toNat?, optNat n, optInt mt, b.toInt?, d.toInt?, n0.toNat?, rest.mapM parseDraw with
    | some k, some n, some mt, some b, some d, some n0, some ds =>
      if sh != "0" && sh != "1" then "bad-op" else
      match randTrees { nTips := n, maxTime := mt, b := b, d := d } (sh == "1") k n0 ds with
      | .error e => "err " ++ errName e
      | .ok (rs, []) => "ok " ++ " | ".intercalate (rs.map (fun r => (renderBT r.taxa r.tree 0).1))
      | .ok (_, _ :: _) => "err kind"
    | _, _, _, _, _, _, _ => "bad-op"
  | "mking" :: n :: pop :: l :: rest =>
    match n.toNat?, pop.toNat?, l.toInt?, rest.mapM parseDraw with
    | some n, some pop, some l, some ds => showGT (fun p => toString p.1) (meanKingman n pop l ds)
    | _, _, _, _ => "bad-op"
  | "frames" :: n :: pop :: rest =>
    match n.toNat?, pop.toNat?, rest.mapM parseDraw with
    | some n, some pop, some ds =>
      match kingman n pop ds with
      | .error e => "err " ++ errName e
      | .ok t => " ".intercalate ("ok" :: (frames t).map (fun f => toString f.1 ++ ":" ++ toString f.2))
    | _, _, _ => "bad-op"
  | "dbd" :: b :: d :: rs :: n :: mg :: rep :: rest => runDBD b d rs n mg rep rest
  | "bdt" :: n :: mt :: b :: d :: n0 :: m :: toks => runBDT false n mt b d n0 m toks
  | "gsa" :: n :: g :: b :: d :: n0 :: rest => runGSA n g b d n0 rest
  | "bdx" :: n :: mt :: nx :: nt :: ret :: b :: d :: n0 :: rest => runBDX false n mt nx nt ret b d n0 rest
  | "pb" :: n :: rest =>
    match n.toNat?, rest.mapM parseDraw with
    | some n, some ds => showSim (pbRun n ds)
    | _, _ => "bad-op"
  | "king" :: n :: pop :: rest =>
    match n.toNat?, pop.toNat?, rest.mapM parseDraw with
    | some n, some pop, some ds => showGT (fun p => toString p.1) (kingman n pop ds)
    | _, _, _ => "bad-op"
  | "cont" :: mode :: m :: toks => runCont mode m toks
  | _ => "bad-op"

def main : IO Unit := do driverLoop (← IO.getStdin) handle
