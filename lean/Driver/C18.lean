import DendroModel.Basic.Tree
import DendroModel.Model.C18
open DendroModel DendroModel.C18

/-! Line protocol of `drv_c18` (all numbers are integers in the harness's time / rate units):
  bd   <N|-> <maxtime|-> <b> <d> <n0> <draws…>      birth_death_tree
  fbd  <N|-> <maxtime|-> <b> <d> <n0> <draws…>      fast_birth_death_tree
  pb   <n> <draws…>                                 uniform_pure_birth_tree
  king <n> <pop> <draws…>                           pure_kingman_tree
  cont <fix|ru<k>> <m> <par×m> <len×m> <pop×m> <ngenes×m> <draws…>   contained_coalescent_tree / constrained_kingman_tree
draws: w<int> u<num>/<den> g<int> p<i,j,…> s<i>,<j> c<i> i<int>.  Answer: `ok <tree>` or `err <kind>`. -/

def natsCsv (s : String) : Option (List Nat) :=
  if s.isEmpty then some [] else (s.splitOn ",").mapM String.toNat?

def parseDraw (s : String) : Option Draw :=
  let body := (s.drop 1).toString
  match s.front with
  | 'w' => body.toInt?.map Draw.w
  | 'g' => body.toInt?.map Draw.g
  | 'i' => body.toInt?.map Draw.rint
  | 'c' => body.toNat?.map Draw.choice
  | 'p' => (natsCsv body).map Draw.perm
  | 's' => match natsCsv body with
    | some [i, j] => some (Draw.samp i j)
    | _ => none
  | 'u' => match body.splitOn "/" with
    | [a, b] => match a.toInt?, b.toInt? with
      | some a, some b => some (Draw.u a b)
      | _, _ => none
    | _ => none
  | _ => none

def optNat (s : String) : Option (Option Nat) := if s == "-" then some none else s.toNat?.map some
def optInt (s : String) : Option (Option Int) := if s == "-" || s == "N" then some none else s.toInt?.map some

def errName : Err → String
  | .draws => "draws" | .kind => "kind" | .fuel => "fuel" | .state => "state" | .arg => "arg"

def showSim : Except Err SimResult → String
  | .error e => "err " ++ errName e
  | .ok r => "ok " ++ (renderBT r.taxa r.tree 0).1

def showGT (nm : Nat × Nat → String) : Except Err GT → String
  | .error e => "err " ++ errName e
  | .ok t => "ok " ++ t.render nm

def buildST (fuel : Nat) (par : Array Int) (lens : Array (Option Int)) (pops : Array Nat) (ng : Array Nat) (i : Nat) : ST :=
  match fuel with
  | 0 => .node i none 1 [] []
  | f + 1 =>
    let kids := (List.range par.size).filter (fun j => par[j]! == (i : Int))
    .node i (lens[i]!) (pops[i]!) ((List.range (ng[i]!)).map (fun k => (i, k + 1)))
      (kids.map (buildST f par lens pops ng))

def runBD (fast : Bool) (n mt b d n0 : String) (rest : List String) : String :=
  match optNat n, optInt mt, b.toInt?, d.toInt?, n0.toNat?, rest.mapM parseDraw with
  | some n, some mt, some b, some d, some n0, some ds =>
    let P : BDParams := { nTips := n, maxTime := mt, b := b, d := d }
    if fast then showSim (fbdRun P n0 ds) else showSim (bdRun P n0 ds)
  | _, _, _, _, _, _ => "bad-op"

def runCont (mode m : String) (toks : List String) : String :=
  match m.toNat? with
  | none => "bad-op"
  | some m =>
    if toks.length < 4 * m then "bad-op" else
    match (toks.take m).mapM String.toInt?, ((toks.drop m).take m).mapM optInt,
          ((toks.drop (2 * m)).take m).mapM String.toNat?, ((toks.drop (3 * m)).take m).mapM String.toNat?,
          (toks.drop (4 * m)).mapM parseDraw with
    | some par, some lens, some pops, some ng, some ds =>
      -- nodes are numbered in pre-order: node 0 is the root and every other parent index precedes its child;
      -- anything else (cycles, several roots, dangling parents) is refused rather than truncated
      let wellNumbered := par.length == m && m > 0 && par.head? == some (-1) &&
        (List.range m).all (fun j => j == 0 || (0 ≤ par.toArray[j]! && par.toArray[j]! < (j : Int)))
      if !wellNumbered then "bad-op" else
      match (List.range m).find? (fun j => par.toArray[j]! == -1) with
      | none => "bad-op"
      | some root =>
        let st := buildST (m + 1) par.toArray lens.toArray pops.toArray ng.toArray root
        let nm := fun (p : Nat × Nat) => toString p.1 ++ "." ++ toString p.2
        if mode == "fix" then showGT nm (contained st ds)
        else if mode.startsWith "ru" then
          match (mode.drop 2).toString.toNat? with
          | some k => showGT nm (containedRU st k ds)
          | none => "bad-op"
        else "bad-op"
    | _, _, _, _, _ => "bad-op"

def handle (ws : List String) : String :=
  match ws with
  | "bd" :: n :: mt :: b :: d :: n0 :: rest => runBD false n mt b d n0 rest
  | "fbd" :: n :: mt :: b :: d :: n0 :: rest => runBD true n mt b d n0 rest
  | "pb" :: n :: rest =>
    match n.toNat?, rest.mapM parseDraw with
    | some n, some ds => showSim (pbRun n ds)
    | _, _ => "bad-op"
  | "king" :: n :: pop :: rest =>
    match n.toNat?, pop.toNat?, rest.mapM parseDraw with
    | some n, some pop, some ds => showGT (fun p => toString p.1) (kingman n pop ds)
    | _, _, _ => "bad-op"
  | "cont" :: mode :: m :: toks => runCont mode m toks
  | _ => "bad-op"

def main : IO Unit := do driverLoop (← IO.getStdin) handle
