import DendroModel.Model.C07
open DendroModel DendroModel.C07

/-- rooting flag: `R` rooted, `U` unrooted, `N` undefined -/
def parseFlag (s : String) : Option (Option Bool) :=
  if s == "R" then some (some true) else if s == "U" then some (some false) else if s == "N" then some none else none

def showFlag : Option Bool → String
  | some true => "R"
  | some false => "U"
  | none => "N"

def parseBit (s : String) : Option Bool :=
  if s == "1" then some true else if s == "0" then some false else none

def out (flag : Option Bool) (t : T) : String := showFlag flag ++ " " ++ t.render

def parseRanks (s : String) : Option (Nat → Nat) :=
  match (s.splitOn ",").mapM String.toNat? with
  | some l => let arr := l.toArray; some (fun i => arr.getD i 0)
  | none => none

def handle (ws : List String) : String :=
  match ws with
  | "reseed" :: f :: c :: s :: tgt :: rest =>
    match parseFlag f, parseBit c, parseBit s, tgt.toNat?, parseTree rest with
    | some f, some c, some s, some tgt, some (t, []) =>
      if contains tgt t then let r := reseedAt f c s tgt t; out r.2 r.1 else "bad-target"
    | _, _, _, _, _ => "bad-op"
  | "rerootnode" :: f :: s :: tgt :: rest =>
    match parseFlag f, parseBit s, tgt.toNat?, parseTree rest with
    | some _, some s, some tgt, some (t, []) =>
      if contains tgt t then let r := rerootAtNode s tgt t; out r.2 r.1 else "bad-target"
    | _, _, _, _ => "bad-op"
  | "rerootedge" :: f :: s :: h :: l1 :: l2 :: nw :: rest =>
    match parseFlag f, parseBit s, h.toNat?, parseOLen l1, parseOLen l2, nw.toNat?, parseTree rest with
    | some _, some s, some h, some l1, some l2, some nw, some (t, []) =>
      if contains nw t then "bad-newid"
      else match parentOf h t with
        | none => "bad-target"
        | some _ => let r := rerootAtEdge s h nw l1 l2 t; out r.2 r.1
    | _, _, _, _, _, _, _ => "bad-op"
  | "midpoint" :: f :: s :: a :: b :: nw :: rest =>
    match parseFlag f, parseBit s, a.toNat?, b.toNat?, nw.toNat?, parseTree rest with
    | some _, some s, some a, some b, some nw, some (t, []) =>
      if contains nw t then "bad-newid"
      else match rerootAtMidpoint s a b nw t with
        | some r => out r.2 r.1
        | none => "AssertionError"
    | _, _, _, _, _, _ => "bad-op"
  | "outgroup" :: f :: s :: og :: rest =>
    match parseFlag f, parseBit s, og.toNat?, parseTree rest with
    | some f, some s, some og, some (t, []) =>
      match toOutgroup f s og t with
      | some r => out r.2 r.1
      | none => "AssertionError"
    | _, _, _, _ => "bad-op"
  | "reorient" :: f :: pick :: ranks :: rest =>
    match parseFlag f, pick.toNat?, parseRanks ranks, parseTree rest with
    | some f, some pick, some rk, some (t, []) =>
      match reorient f pick rk t with
      | some r => out r.2 r.1
      | none => "bad-target"
    | _, _, _, _ => "bad-op"
  | "rotate" :: f :: ranks :: rest =>
    match parseFlag f, parseRanks ranks, parseTree rest with
    | some f, some rk, some (t, []) => out f (rotate rk t)
    | _, _, _ => "bad-op"
  | "ladderize" :: f :: asc :: rest =>
    match parseFlag f, parseBit asc, parseTree rest with
    | some f, some asc, some (t, []) => out f (ladderize asc t)
    | _, _, _ => "bad-op"
  | "reorder" :: f :: asc :: rest =>
    match parseFlag f, parseBit asc, parseTree rest with
    | some f, some asc, some (t, []) => out f (reorder asc t)
    | _, _, _ => "bad-op"
  | "midwhere" :: a :: b :: rest =>
    match a.toNat?, b.toNat?, parseTree rest with
    | some a, some b, some (t, []) =>
      -- the intermediate observable of `reroot_at_midpoint`: where the walk stops, and for an in-edge answer the two sub-edge
      -- lengths (towards the old tail / towards the old head) that `rerootAtMidpoint` hands to `splitEdge`
      match midpointOf a b t with
      | .onEdge h x =>
        match t.find? h with
        | some hn => s!"edge {h} {(lenOr0 hn.len - x).render} {x.render}"
        | none => "fail"
      | .onNode n => s!"node {n}"
      | .fail => "fail"
    | _, _, _ => "bad-op"
  | "suppress" :: f :: rest =>
    match parseFlag f, parseTree rest with
    | some f, some (t, []) => out f (sup t)
    | _, _ => "bad-op"
  | "collapse" :: f :: u :: rest =>
    match parseFlag f, parseBit u, parseTree rest with
    | some f, some u, some (t, []) => out (if u && collapses t then some false else f) (collapseBasal t)
    | _, _, _ => "bad-op"
  | _ => "bad-op"

def main : IO Unit := do driverLoop (← IO.getStdin) handle
