import DendroModel.Basic.Tree
import DendroModel.Model.C20
open DendroModel DendroModel.C20

def decodeText (s : String) : Option (List Char) :=
  if s == "=" then some [] else unhex6 s.toList

def encTok (t : List Char) : String := if t.isEmpty then "=" else String.ofList (hex6 t)

def matRes : MatRes → String
  | .ok rows => "ok " ++ " ".intercalate (rows.map (fun r => toString r.2))
  | .err _ => "parse"
  | .internal w => "internal " ++ w

def handle (ws : List String) : String :=
  match ws with
  | ["tok", pu, text] =>
    match decodeText text with
    | none => "bad-op"
    | some cs =>
      if pu != "0" && pu != "1" then "bad-op" else
      let r := allTokens { pu := pu == "1" } cs
      let toks := r.1.map (fun (t, q) => (if q then "q" else "p") ++ encTok t)
      " ".intercalate (toks ++ [if r.2 then "Q" else "E"])
  | ["newick", text] =>
    match decodeText text with
    | none => "bad-op"
    | some cs =>
      match readNewick cs with
      | .ok trees => s!"ok {trees.length} " ++ " ".intercalate (trees.map NTree.render)
      | .err e => "parse:" ++ (match e with
          | .eos => "eos" | .unterminated => "unterminated" | .malformed => "malformed" | .incomplete => "incomplete"
          | .duplicate => "duplicate" | .nexus => "nexus" | .data => "data"
          | .tooManyTaxa => "toomany" | .undefinedTaxon => "undefined" | .outOfFuel => "internal-out-of-fuel")
      | .internal w => "internal " ++ w
  | ["phylip", strict, inter, syms, text] =>
    match decodeText syms, decodeText text with
    | some sy, some cs =>
      if (strict != "0" && strict != "1") || (inter != "0" && inter != "1") then "bad-op" else
      matRes (readPhylip (fun c => sy.contains c) (strict == "1") (inter == "1") cs)
    | _, _ => "bad-op"
  | ["fasta", syms, text] =>
    match decodeText syms, decodeText text with
    | some sy, some cs => matRes (readFasta (fun c => sy.contains c) cs)
    | _, _ => "bad-op"
  | ["nexus", dna, rna, nuc, prot, text] =>
    match decodeText dna, decodeText rna, decodeText nuc, decodeText prot, decodeText text with
    | some a, some b, some c, some d, some cs =>
      match readNexus { dna := a, rna := b, nuc := c, prot := d } cs with
      | .ok s =>
        "ok tns=" ++ ",".intercalate (s.tns.map (fun t => toString t.labels.length)) ++
        " trees=" ++ ",".intercalate (s.treeLists.map toString) ++
        " mats=" ++ "/".intercalate (s.mats.map (fun m => ".".intercalate (m.map toString))) ++
        " sets=" ++ "/".intercalate ((List.range s.mats.length).map (fun i =>
          ".".intercalate ((s.charsets.filter (fun c => c.1 == i)).map (fun c => toString c.2.2)))) ++
        s!" rounds={nexusFuel cs.length - s.fuel}/{nexusFuel cs.length}"
      | .error (.parse .tooManyTaxa) => "parse:toomany"
      | .error (.parse .undefinedTaxon) => "parse:undefined"
      | .error (.parse _) => "parse"
      | .error (.internal w) => "internal " ++ w
      | .error .fuel => "internal out of fuel"
    | _, _, _, _, _ => "bad-op"
  | _ => "bad-op"

def main : IO Unit := do driverLoop (← IO.getStdin) handle
