import DendroModel.Model.C04
import DendroModel.Model.C04State
import DendroModel.Model.C04Root
import DendroModel.Model.C04Diffs
open DendroModel DendroModel.C04

def parseRooted (s : String) : Option (Option Bool) :=
  if s == "R" then some (some true) else if s == "U" then some (some false) else if s == "N" then some none else none

def optRat : Option Rat → String
  | none => "E"
  | some q => renderRat q

/-- `n` events: `A <tree>` / `B <tree>` (edit of the first / second tree: its new structure), `RA <rooting> <tree>` / `RB …` (its rooting state changed: new flag and structure), `F0` `F1` (false positives and
    negatives with is_bipartitions_updated False / True), `M0` `M1` (find_missing_bipartitions), `W` (both weighted functions, default: wRF, Euclid², ⌊2^60·Euclid⌋) -/
def parseEvs : Nat → List String → Option (List Ev × List String)
  | 0, ws => some ([], ws)
  | n + 1, "A" :: ws => match parseTree ws with
    | some (t, r) => (parseEvs n r).map (fun p => (Ev.editA t :: p.1, p.2))
    | none => none
  | n + 1, "B" :: ws => match parseTree ws with
    | some (t, r) => (parseEvs n r).map (fun p => (Ev.editB t :: p.1, p.2))
    | none => none
  | n + 1, "RA" :: r :: ws => match parseRooted r, parseTree ws with
    | some r, some (t, rest) => (parseEvs n rest).map (fun p => (Ev.rootA r t :: p.1, p.2))
    | _, _ => none
  | n + 1, "RB" :: r :: ws => match parseRooted r, parseTree ws with
    | some r, some (t, rest) => (parseEvs n rest).map (fun p => (Ev.rootB r t :: p.1, p.2))
    | _, _ => none
  | n + 1, "F0" :: ws => (parseEvs n ws).map (fun p => (Ev.fpfn false :: p.1, p.2))
  | n + 1, "F1" :: ws => (parseEvs n ws).map (fun p => (Ev.fpfn true :: p.1, p.2))
  | n + 1, "M0" :: ws => (parseEvs n ws).map (fun p => (Ev.missing false :: p.1, p.2))
  | n + 1, "M1" :: ws => (parseEvs n ws).map (fun p => (Ev.missing true :: p.1, p.2))
  | n + 1, "W" :: ws => (parseEvs n ws).map (fun p => (Ev.weighted :: p.1, p.2))
  | _, _ => none

/-- what each call event of a history returns, the state threaded through `step` -/
def histOut (st : TreeObj × TreeObj) : List Ev → List String
  | [] => []
  | e :: es =>
    (match e with
      | .fpfn u => [match (fpfnCall u st.1 st.2).1 with | some (a, b) => s!"{a} {b}" | none => "refused"]
      | .missing u => [match (missingCall u st.1 st.2).1 with
          | some ms => "m " ++ " ".intercalate (ms.map toString) | none => "refused"]
      | .weighted => [match (weightedCall st.1 st.2).1 with
          | some (w, e) => s!"{optRat w} {optRat e} {match e with | some q => toString (rootFix rootBits q) | none => "E"}"
          | none => "refused"]
      | _ => []) ++ histOut (step st e) es

def handle (ws : List String) : String :=
  match ws with
  -- dist <rooting1> <rooting2> <tree1> <tree2>  ->  fp fn wrf euclid² ⌊2^60·euclid⌋ | sorted missing(ref=tree1, cmp=tree2)
  | "dist" :: r1 :: r2 :: rest =>
    match parseRooted r1, parseRooted r2, parseTree rest with
    | some r1, some r2, some (t1, rest2) =>
      match parseTree rest2 with
      | some (t2, []) =>
        let e1 := edgeRecs r1 t1
        let e2 := edgeRecs r2 t2
        let s1 := e1.map (·.split)
        let s2 := e2.map (·.split)
        let m1 := edgeMap e1
        let m2 := edgeMap e2
        let (fp, fn) := fpfn s1 s2
        let root : String := match euclidSq m1 m2 with | some w => toString (rootFix rootBits w) | none => "E"
        s!"{fp} {fn} {optRat (wrf m1 m2)} {optRat (euclidSq m1 m2)} {root} | " ++ " ".intercalate ((missing s1 s2).map toString)
      | _ => "bad-op"
    | _, _, _ => "bad-op"
  -- diffs <rooting1> <rooting2> <tree1> <tree2>  ->  E | `split:length1:length2` of every split of either tree, sorted by split
  --   (the dictionary `_get_length_diffs(..., bipartition_length_diff_map=True)` returns)
  | "diffs" :: r1 :: r2 :: rest =>
    match parseRooted r1, parseRooted r2, parseTree rest with
    | some r1, some r2, some (t1, rest2) =>
      match parseTree rest2 with
      | some (t2, []) => renderDiffs (lengthDiffsK (edgeMap (edgeRecs r1 t1)) (edgeMap (edgeRecs r2 t2)))
      | _ => "bad-op"
    | _, _, _ => "bad-op"
  -- sdist <updated 0|1> <ns1> <ns2> <rooting1> <rooting2> <enc1 0|1> <enc2 0|1> <cur1> <cur2> [<tree1 as last encoded>] [<tree2 as last encoded>]
  --   ->  refused | fp fn | missing     (the unweighted functions on two tree OBJECTS with stored encodings)
  | "sdist" :: upd :: ns1 :: ns2 :: r1 :: r2 :: h1 :: h2 :: rest =>
    let flag (s : String) : Option Bool := if s == "1" then some true else if s == "0" then some false else none
    match flag upd, ns1.toNat?, ns2.toNat?, parseRooted r1, parseRooted r2, flag h1, flag h2, parseTree rest with
    | some upd, some ns1, some ns2, some r1, some r2, some h1, some h2, some (c1, rest1) =>
      match parseTree rest1 with
      | some (c2, rest2) =>
        let old (h : Bool) (r : Option Bool) (ws : List String) : Option (Option (List Int) × List String) :=
          if h then (parseTree ws).map (fun p => (some ((edgeRecs r p.1).map (·.split)), p.2)) else some (none, ws)
        match old h1 r1 rest2 with
        | some (e1, rest3) =>
          match old h2 r2 rest3 with
          | some (e2, []) =>
            let a : TreeObj := ⟨ns1, r1, c1, e1⟩
            let b : TreeObj := ⟨ns2, r2, c2, e2⟩
            match (fpfnCall upd a b).1, (missingCall upd a b).1 with
            | some (fp, fn), some ms => s!"{fp} {fn} | " ++ " ".intercalate (ms.map toString)
            | _, _ => "refused"
          | _ => "bad-op"
        | none => "bad-op"
      | none => "bad-op"
    | _, _, _, _, _, _, _, _ => "bad-op"
  -- hist <ns1> <ns2> <rooting1> <rooting2> <tree1> <tree2> <n> <event>*n  ->  result of every call event, `;`-separated, then
  --   `| e1 e2`: whether each tree object carries a stored encoding after `run`ning the whole history
  | "hist" :: ns1 :: ns2 :: r1 :: r2 :: rest =>
    match ns1.toNat?, ns2.toNat?, parseRooted r1, parseRooted r2, parseTree rest with
    | some ns1, some ns2, some r1, some r2, some (t1, rest1) =>
      match parseTree rest1 with
      | some (t2, n :: rest2) =>
        match n.toNat? with
        | some n =>
          match parseEvs n rest2 with
          | some (evs, []) =>
            let st : TreeObj × TreeObj := (⟨ns1, r1, t1, none⟩, ⟨ns2, r2, t2, none⟩)
            let fin := run evs st
            ";".intercalate (histOut st evs) ++ s!" | {if fin.1.enc.isSome then 1 else 0} {if fin.2.enc.isSome then 1 else 0}"
          | _ => "bad-op"
        | none => "bad-op"
      | _ => "bad-op"
    | _, _, _, _, _ => "bad-op"
  | _ => "bad-op"

def main : IO Unit := do driverLoop (← IO.getStdin) handle
