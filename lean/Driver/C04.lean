import DendroModel.Model.C04
import DendroModel.Model.C04State
open DendroModel DendroModel.C04

def parseRooted (s : String) : Option (Option Bool) :=
  if s == "R" then some (some true) else if s == "U" then some (some false) else if s == "N" then some none else none

def optRat : Option Rat → String
  | none => "E"
  | some q => renderRat q

def handle (ws : List String) : String :=
  match ws with
  -- dist <rooting1> <rooting2> <tree1> <tree2>  ->  fp fn wrf euclid² | sorted missing(ref=tree1, cmp=tree2)
  | "dist" :: r1 :: r2 :: rest =>
    match parseRooted r1, parseRooted r2, parseTree rest with
    | some r1, some r2, some (t1, rest2) =>
      match parseTree rest2 with
      | some (t2, []) =>
        let e1 := edgeRecs r1 t1
        let e2 := edgeRecs r2 t2
        let s1 := e1.map (·.split)
        let s2 := e2.map (·.split)
        let m1 := edgeMap e1
        let m2 := edgeMap e2
        let (fp, fn) := fpfn s1 s2
        s!"{fp} {fn} {optRat (wrf m1 m2)} {optRat (euclidSq m1 m2)} | " ++ " ".intercalate ((missing s1 s2).map toString)
      | _ => "bad-op"
    | _, _, _ => "bad-op"
  -- sdist <updated 0|1> <ns1> <ns2> <rooting1> <rooting2> <enc1 0|1> <enc2 0|1> <cur1> <cur2> [<tree1 as last encoded>] [<tree2 as last encoded>]
  --   ->  refused | fp fn | missing     (the unweighted functions on two tree OBJECTS with stored encodings)
  | "sdist" :: upd :: ns1 :: ns2 :: r1 :: r2 :: h1 :: h2 :: rest =>
    let flag (s : String) : Option Bool := if s == "1" then some true else if s == "0" then some false else none
    match flag upd, ns1.toNat?, ns2.toNat?, parseRooted r1, parseRooted r2, flag h1, flag h2, parseTree rest with
    | some upd, some ns1, some ns2, some r1, some r2, some h1, some h2, some (c1, rest1) =>
      match parseTree rest1 with
      | some (c2, rest2) =>
        let old (h : Bool) (r : Option Bool) (ws : List String) : Option (Option (List Int) × List String) :=
          if h then (parseTree ws).map (fun p => (some ((edgeRecs r p.1).map (·.split)), p.2)) else some (none, ws)
        match old h1 r1 rest2 with
        | some (e1, rest3) =>
          match old h2 r2 rest3 with
          | some (e2, []) =>
            let a : TreeObj := ⟨ns1, r1, c1, e1⟩
            let b : TreeObj := ⟨ns2, r2, c2, e2⟩
            match (fpfnCall upd a b).1, (missingCall upd a b).1 with
            | some (fp, fn), some ms => s!"{fp} {fn} | " ++ " ".intercalate (ms.map toString)
            | _, _ => "refused"
          | _ => "bad-op"
        | none => "bad-op"
      | none => "bad-op"
    | _, _, _, _, _, _, _, _ => "bad-op"
  | _ => "bad-op"

def main : IO Unit := do driverLoop (← IO.getStdin) handle
