import DendroModel.Model.C04
open DendroModel DendroModel.C04

def parseRooted (s : String) : Option (Option Bool) :=
  if s == "R" then some (some true) else if s == "U" then some (some false) else if s == "N" then some none else none

def optRat : Option Rat → String
  | none => "E"
  | some q => renderRat q

def handle (ws : List String) : String :=
  match ws with
  -- dist <rooting1> <rooting2> <tree1> <tree2>  ->  fp fn wrf euclid² | sorted missing(ref=tree1, cmp=tree2)
  | "dist" :: r1 :: r2 :: rest =>
    match parseRooted r1, parseRooted r2, parseTree rest with
    | some r1, some r2, some (t1, rest2) =>
      match parseTree rest2 with
      | some (t2, []) =>
        let e1 := edgeRecs r1 t1
        let e2 := edgeRecs r2 t2
        let s1 := e1.map (·.split)
        let s2 := e2.map (·.split)
        let m1 := edgeMap e1
        let m2 := edgeMap e2
        let (fp, fn) := fpfn s1 s2
        s!"{fp} {fn} {optRat (wrf m1 m2)} {optRat (euclidSq m1 m2)} | " ++ " ".intercalate ((missing s1 s2).map toString)
      | _ => "bad-op"
    | _, _, _ => "bad-op"
  | _ => "bad-op"

def main : IO Unit := do driverLoop (← IO.getStdin) handle
