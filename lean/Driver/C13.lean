import DendroModel.Basic.Tree
import DendroModel.Model.C13
import DendroModel.Model.C13Ext
open DendroModel DendroModel.C13

/-! line protocol of `drv_c13`
  `op schema cfg nstitle nslabels existing coll tree label tail tok tok …`
  op ∈ blocks | list | tree | yield | dataset | nosets | setsclean | charsclean | yieldfiles | readmany | array | src:<spec>:<op>
  schema ∈ newick | nexus
  several sources (yieldfiles, readmany, array): `tail tok … // tail tok … // …` (one group per source, in order)
  array: `existing` = entries already in the array, `coll` = use_tree_weights (`-`/1 yes, 0 no), `tree` = tree_offset (burn-in)
  src:<spec>:<op>: the source reaches <op> through the source-keyword dispatch; <spec> = `+`-joined items: a source keyword
        (`data`, `file`, `path`, …; `kw!` = its argument names nothing that exists), `noschema`, `read` (x.read instead of X.get)
  cfg = rooting char (n u r U R = None, default-unrooted, default-rooted, force-unrooted, force-rooted) followed by
        four 0/1 flags: store_tree_weights, suppress_internal_node_taxa, suppress_leaf_node_taxa, suppress_edge_lengths,
        optionally followed by two more: exclude_chars, attached namespace (default 1 0, what TreeList.get/Tree.get use;
        `yield` always attaches, `dataset` never excludes, as the code does)
  nstitle = string field; nslabels, tail = comment-list field (`.` empty, else comma separated string fields)
  existing = number of placeholder trees (list) / blocks (dataset) already in the target; coll, tree = `-` or integer
  label = string field (`-` = no label= argument);  tok = `text|quoted|eof|comments`
  string field: `-` None, `=` empty, else 6 hex digits per code point.
  answer: JSON `{"ns":[…],"title":…,"r":…}` or `{"err":"…"}` -/

def parseStrList (s : String) : Option (List String) :=
  if s == "." then some []
  else (s.splitOn ",").mapM fun f => match decodeStr f with
    | some (some x) => some x
    | _ => none

def parseBit (s : String) : Option Bool :=
  if s == "1" then some true else if s == "0" then some false else none

def parseTok (w : String) : Option Tok :=
  match w.splitOn "|" with
  | [t, q, e, c] =>
    match decodeStr t, parseBit q, parseBit e, parseStrList c with
    | some (some t), some q, some e, some c => some { text := t, quoted := q, coms := c, eof := e }
    | _, _, _, _ => none
  | _ => none

def parseCfg (s : String) : Option (Cfg × Flags) :=
  match s.toList with
  | r :: a :: b :: c :: d :: rest =>
    let rooting : Option Rooting := match r with
      | 'n' => some .none | 'u' => some .defU | 'r' => some .defR | 'U' => some .forceU | 'R' => some .forceR
      | _ => none
    -- optional 6th/7th flag: exclude_chars, attached namespace (defaults: what TreeList.get / Tree.get run with)
    let flags : Option Flags := match rest with
      | [] => some {}
      | [x, t] => match parseBit (String.singleton x), parseBit (String.singleton t) with
        | some x, some t => some { excludeChars := x, attached := t }
        | _, _ => none
      | _ => none
    match rooting, parseBit (String.singleton a), parseBit (String.singleton b), parseBit (String.singleton c),
          parseBit (String.singleton d), flags with
    | some r, some a, some b, some c, some d, some fl =>
      some ({ rooting := r, storeWeights := a, suppressInternalTaxa := b, suppressLeafTaxa := c, suppressLengths := d }, fl)
    | _, _, _, _, _, _ => none
  | _ => none

def parseOInt (s : String) : Option (Option Int) :=
  if s == "-" then some none else s.toInt?.map some

def q (s : String) : String := "\"" ++ s ++ "\""
def jStr (s : Option String) : String := match s with | none => "null" | some x => q (encodeStr (some x))
def jList (l : List String) : String := "[" ++ ",".intercalate l ++ "]"

mutual
def jNode : Node → String
  | .mk taxon label len coms cs =>
    jList [match taxon with | some t => toString t | none => "null", jStr label, jStr len,
           jList (coms.map fun c => jStr (some c)), "[" ++ jNodes cs ++ "]"]
def jNodes : List Node → String
  | [] => ""
  | [c] => jNode c
  | c :: d :: r => jNode c ++ "," ++ jNodes (d :: r)
end

def jTree (t : Tree) : String :=
  "{\"n\":" ++ jStr t.name ++ ",\"r\":" ++ (match t.rooted with | some true => "true" | some false => "false" | none => "null")
    ++ ",\"w\":" ++ (match t.weight with | none => "null" | some none => "\"D\"" | some (some e) => jStr (some e))
    ++ ",\"c\":" ++ jList (t.coms.map fun c => jStr (some c)) ++ ",\"t\":" ++ jNode t.root ++ "}"

def jErr : Err → String
  | .parse => "{\"err\":\"parse\"}"
  | .index => "{\"err\":\"IndexError\"}"
  | .value => "{\"err\":\"ValueError\"}"
  | .stuck => "{\"err\":\"stuck\"}"
  | .type => "{\"err\":\"TypeError\"}"
  | .mixed => "{\"err\":\"MixedRootingError\"}"
  | .io => "{\"err\":\"IOError\"}"

def answer (ns : NSObj) (r : String) : String :=
  "{\"ns\":" ++ jList (ns.labels.map fun l => jStr (some l)) ++ ",\"title\":" ++ jStr ns.title ++ ",\"r\":" ++ r ++ "}"

def placeholder (i : Nat) : Tree :=
  { name := some s!"e{i}", rooted := none, weight := none, coms := [], root := blankNode [] }

/-- split the words after the header into one group per source: `tail tok … // tail tok …` -/
def splitDocs (ws : List String) : List (List String) :=
  let rec go (cur : List String) (acc : List (List String)) : List String → List (List String)
    | [] => (cur.reverse :: acc).reverse
    | w :: r => if w == "//" then go [] (cur.reverse :: acc) r else go (w :: cur) acc r
  go [] [] ws

def parseDoc (ws : List String) : Option Content :=
  match ws with
  | tail :: toks =>
    match parseStrList tail, toks.mapM parseTok with
    | some tail, some toks => some { toks := toks, tail := tail }
    | _, _ => none
  | [] => none

def jBool (b : Bool) : String := if b then "true" else "false"

def jArr (a : Arr) (added : Nat) : String :=
  "{\"rooted\":" ++ (match a.rooted with | some true => "true" | some false => "false" | none => "null")
    ++ ",\"added\":" ++ toString added
    ++ ",\"entries\":" ++ jList (a.entries.map fun e => "{\"w\":" ++ jStr e.weight ++ ",\"t\":" ++ jTree e.tree ++ "}") ++ "}"

/-- the ops that read ONE source -/
def runOne (op : String) (sch : Schema) (cfg : Cfg) (fl : Flags) (ns : NSObj) (ex : Nat) (coll tree : Option Int) (label : Option String)
    (d : Content) : String :=
  let toks := d.toks
  let tail := d.tail
  match op with
  | "blocks" =>
    match readBlocks sch cfg fl toks tail ns with
    | .error e => jErr e
    | .ok (bs, ns') => answer ns' (jList (bs.map fun b => jList (b.map jTree)))
  | "list" =>
    match listGet sch cfg fl toks tail ns ((List.range ex).map placeholder) coll tree with
    | .error e => jErr e
    | .ok (l, ns') => answer ns' (jList (l.map jTree))
  | "tree" =>
    match treeGet sch cfg fl toks tail ns coll tree label with
    | .error e => jErr e
    | .ok (t, ns') => answer ns' (jTree t)
  | "yield" =>
    match yieldFrom sch cfg fl toks tail ns with
    | .error e => jErr e
    | .ok (l, ns') => answer ns' (jList (l.map jTree))
  | "nosets" =>
    -- is the document in the domain of `reader_eq_yielder_partial`?  (no SETS-class block at all, on the list run)
    if sch == .nexus then
      toString (Aux.noSetsBlocks cfg fl pseudoSink { (coreOf toks tail ns) with ts := (coreOf toks tail ns).ts.next } ([] : List Tree))
    else "true"
  | "setsclean" =>
    -- hypothesis `hs` of `reader_eq_yielder` / `yield_eq_list_nexus`, on the run of the iterator (attached namespace)
    if sch == .nexus then
      toString (Aux.setsClean cfg { fl with attached := true } { (coreOf toks tail ns) with ts := (coreOf toks tail ns).ts.next } [])
    else "true"
  | "charsclean" =>
    -- hypothesis `hc` of `dataset_eq_lists`, on the run of the data set route
    if sch == .nexus then
      toString (Aux.charsClean cfg fl freshSink { (coreOf toks tail ns) with ts := (coreOf toks tail ns).ts.next } [])
    else "true"
  | "dataset" =>
    match datasetRead sch cfg fl toks tail ns ((List.range ex).map fun i => [placeholder i]) with
    | .error e => jErr e
    | .ok (bs, ns') => answer ns' (jList (bs.map fun b => jList (b.map jTree)))
  | _ => "bad-op"

def parseSpecItem (content : Content) (item : String) : Option (String × SrcArg) :=
  let missing := item.endsWith "!"
  let kw := if missing then (item.dropEnd 1).toString else item
  if kw.isEmpty then none
  else if kw == "path" || kw == "url" then some (kw, .name (if missing then "missing" else "p"))
  else if missing then none
  else some (kw, .text content)

def handle (ws : List String) : String :=
  match ws with
  | op :: schema :: cfg :: nstitle :: nslabels :: existing :: coll :: tree :: label :: rest =>
    let sch : Option Schema := if schema == "newick" then some .newick else if schema == "nexus" then some .nexus else none
    match sch, parseCfg cfg, decodeStr nstitle, parseStrList nslabels, existing.toNat?, parseOInt coll, parseOInt tree,
          decodeStr label, (splitDocs rest).mapM parseDoc with
    | some sch, some (cfg, fl), some title, some labels, some ex, some coll, some tree, some label, some docs =>
      let ns : NSObj := { labels := labels, title := title }
      match op.splitOn ":" with
      | [op] =>
        match op with
        | "yieldfiles" =>
          match yieldFiles sch cfg fl docs ns with
          | .error e => jErr e
          | .ok (tss, ns') => answer ns' (jList (tss.map fun b => jList (b.map jTree)))
        | "readmany" =>
          match readMany sch cfg fl docs ns ((List.range ex).map placeholder) with
          | .error e => jErr e
          | .ok (l, ns') => answer ns' (jList (l.map jTree))
        | "array" =>
          let a0 : Arr := { useWeights := coll != some 0,
                            entries := (List.range ex).map fun i => { tree := placeholder i, weight := none } }
          match arrReadFromFiles sch cfg fl (tree.getD 0) a0 docs ns with
          | .error e => jErr e
          | .ok (a, ns') => answer ns' (jArr a (a.entries.length - ex))
        | _ =>
          match docs with
          | [d] => runOne op sch cfg fl ns ex coll tree label d
          | _ => "bad-op"
      | ["src", spec, inner] =>
        match docs with
        | [d] =>
          let items := spec.splitOn "+"
          let viaRead := items.contains "read"
          let hasSchema := !items.contains "noschema"
          match (items.filter fun i => i != "read" && i != "noschema" && i != "none").mapM (parseSpecItem d) with
          | none => "bad-op"
          | some given =>
            let w : World := { files := [("p", d)], urls := [("p", d)] }
            match (if viaRead then readFrom w given hasSchema else getFrom w given hasSchema) with
            | .error e => jErr e
            | .ok c => runOne inner sch cfg fl ns ex coll tree label c
        | _ => "bad-op"
      | _ => "bad-op"
    | _, _, _, _, _, _, _, _, _ => "bad-op"
  | _ => "bad-op"

def main : IO Unit := do driverLoop (← IO.getStdin) handle
