import DendroModel.Model.C02
import DendroModel.Model.C02Nexml
open DendroModel DendroModel.C02

def str? (s : String) : Option (Option Str) :=
  (decodeStr s).map (fun o => o.map String.toList)

def bits (s : String) : List Bool := s.toList.map (· == '1')

def wopts? (s : String) : Option WOpts :=
  match bits s with
  | [a, b, c, d, e, f, g, h, i] => some ⟨a, b, c, d, e, f, g, h, i⟩
  | _ => none

/-- case map handed over by the harness: `str.lower` on the characters that occur (pairs `c`,`lower c`; others map to themselves) -/
def caseMap? (s : String) : Option (Char → Char) :=
  if s == "-" then some id else
  match (s.splitOn ",").mapM (fun x => (decodeStr x).bind id) with
  | none => none
  | some strs =>
    let rec pairs : List String → Option (List (Char × Char))
      | [] => some []
      | a :: b :: r => match a.toList, b.toList with
        | [x], [y] => (pairs r).map ((x, y) :: ·)
        | _, _ => none
      | _ => none
    (pairs strs).map (fun ps c => match ps.find? (fun p => p.1 == c) with | some p => p.2 | none => c)

/-- `pu rooting sint sleaf stw`, rooting a digit 0..4; plus the case map -/
def ropts? (s : String) (cm : String) : Option ROpts :=
  match s.toList, caseMap? cm with
  | [a, r, c, d, e], some cf =>
    if '0' ≤ r ∧ r ≤ '4' then some ⟨a == '1', r.toNat - '0'.toNat, c == '1', d == '1', e == '1', cf⟩ else none
  | _, _ => none

/-- the reader (`reader_fuel_suffices`, `tokenizer_fuel_suffices`: its fuel is provably enough, `ERR` is always a refusal) -/
def readChecked (o : ROpts) (m : Mapper) (text : Str) : String := renderResult (parseText o m text)

/-- pre-order node records `k taxon label len` -/
def tree? : Nat → List String → Option (NT × List String)
  | 0, _ => none
  | f + 1, k :: tx :: lb :: ln :: rest =>
    match k.toNat?, str? tx, str? lb, str? ln with
    | some k, some tx, some lb, some ln =>
      let rec kids : Nat → Nat → List String → Option (List NT × List String)
        | _, 0, r => some ([], r)
        | 0, _, _ => none
        | g + 1, n + 1, r =>
          match tree? f r with
          | none => none
          | some (c, r1) =>
            match kids g n r1 with
            | none => none
            | some (cs, r2) => some (c :: cs, r2)
      match kids k k rest with
      | none => none
      | some (cs, r) => some (.node tx lb ln cs, r)
    | _, _, _, _ => none
  | _, _ => none

def strList? (s : String) : Option (List Str) :=
  if s == "-" then some [] else (s.splitOn ",").mapM (fun x => (str? x).bind id)

def pairs? : List Str → Option (List (Str × Str))
  | [] => some []
  | a :: b :: r => (pairs? r).map ((a, b) :: ·)
  | _ => none

def showTok (t : TokE) : List String :=
  t.cm.map (fun c => "C:" ++ hexS c) ++ [(if t.quoted then "Q:" else "P:") ++ hexS t.text]

/-- `n` records `name rooting weight <tree…>` -/
def namedTrees? : Nat → List String → Option (List (Str × WT))
  | 0, [] => some []
  | 0, _ => none
  | k + 1, name :: rooting :: weight :: tr =>
    match str? name, rooting.toNat?, str? weight, tree? (tr.length + 1) tr with
    | some (some nm), some r, some w, some (t, more) => (namedTrees? k more).map ((nm, r, w, t) :: ·)
    | _, _, _, _ => none
  | _ + 1, _ => none

/-- `n` records `name|- rooting <tree…>` (NeXML writer input) -/
def xwTrees? : Nat → List String → Option (List XW)
  | 0, [] => some []
  | 0, _ => none
  | k + 1, name :: rooting :: tr =>
    match str? name, rooting.toNat?, tree? (tr.length + 1) tr with
    | some nm, some r, some (t, more) => (xwTrees? k more).map ((nm, r, t) :: ·)
    | _, _, _ => none
  | _ + 1, _ => none

def natO? (s : String) : Option (Option Nat) := if s == "-" then some none else s.toNat?.map some

def xnodes? : Nat → List String → Option (List XNode × List String)
  | 0, r => some ([], r)
  | k + 1, id :: lb :: otu :: root :: r =>
    match id.toNat?, str? lb, natO? otu, xnodes? k r with
    | some i, some l, some o, some (ns, r') => some (⟨i, l, o, root == "1"⟩ :: ns, r')
    | _, _, _, _ => none
  | _ + 1, _ => none

def xedges? : Nat → List String → Option (List XEdge × List String)
  | 0, r => some ([], r)
  | k + 1, id :: src :: tgt :: ln :: r =>
    match id.toNat?, natO? src, tgt.toNat?, str? ln, xedges? k r with
    | some i, some s, some t, some l, some (es, r') => some (⟨i, s, t, l⟩ :: es, r')
    | _, _, _, _, _ => none
  | _ + 1, _ => none

def xtrees? : Nat → List String → Option (List XTree × List String)
  | 0, r => some ([], r)
  | k + 1, id :: lb :: nn :: r =>
    match id.toNat?, str? lb, nn.toNat? with
    | some i, some l, some nn =>
      match xnodes? nn r with
      | some (ns, ne :: r1) =>
        match ne.toNat? with
        | some ne =>
          match xedges? ne r1 with
          | some (es, r2) => (xtrees? k r2).map (fun p => (⟨i, l, ns, es⟩ :: p.1, p.2))
          | none => none
        | none => none
      | _ => none
    | _, _, _ => none
  | _ + 1, _ => none

def xotus? : Nat → List String → Option (List (Nat × Option Str) × List String)
  | 0, r => some ([], r)
  | k + 1, id :: lb :: r =>
    match id.toNat?, str? lb, xotus? k r with
    | some i, some l, some (os, r') => some ((i, l) :: os, r')
    | _, _, _ => none
  | _ + 1, _ => none

/-- `otusId k (id label)* treesId n (tree)*` -/
def xdoc? : List String → Option XDoc
  | oid :: k :: r =>
    match oid.toNat?, k.toNat? with
    | some oid, some k =>
      match xotus? k r with
      | some (os, tid :: n :: r1) =>
        match tid.toNat?, n.toNat? with
        | some tid, some n =>
          match xtrees? n r1 with
          | some (ts, []) => some ⟨oid, os, tid, ts⟩
          | _ => none
        | _, _ => none
      | _ => none
    | _, _ => none
  | _ => none

/-- a TRANSLATE table handed over either literally (`tok,label,…`) or as the default table of a namespace given by its
    accession indices in member order (`@i,j,…` with the labels `ns`) -/
def table? (ns : List Str) (s : String) : Option (List (Str × Str)) :=
  if s.startsWith "@" then
    match ((String.ofList (s.toList.drop 1)).splitOn ",").mapM String.toNat? with
    | some accs => if accs.length == ns.length then some (defaultTable (ns.zip accs)) else none
    | none => none
  else (strList? s).bind pairs?

def handle (ws : List String) : String :=
  match ws with
  | ["escape", ps, qu, which, lab] =>
    match str? lab, (if which == "d" then some Tables.protectDefault else if which == "n" then some Tables.protectNewick else none) with
    | some (some l), some prot => hexS (escape (ps == "1") (qu == "1") prot l)
    | _, _ => "bad-op"
  | ["nexus", ro, cm, ns, text] =>
    match ropts? ro cm, strList? ns, str? text with
    | some o, some ns, some (some s) => renderNexus (nexusBlock o ns s)
    | _, _, _ => "bad-op"
  | "nexus-text" :: wo :: tokmap :: ntrees :: rest =>
    -- per tree: name rooting weight <tree…>
    match wopts? wo, (strList? tokmap).bind pairs?, ntrees.toNat? with
    | some o, some tm, some n =>
      match namedTrees? n rest with
      | some trees => hexS (treesBlockText o tm trees)
      | none => "bad-op"
    | _, _, _ => "bad-op"
  | ["nexus-doc", ro, cm, attached, text] =>
    -- attached: `*` = none, else the caller's namespace
    match ropts? ro cm, (if attached == "*" then some none else (strList? attached).map some), str? text with
    | some o, some att, some (some s) => renderDoc (nexusDoc o att s)
    | _, _, _ => "bad-op"
  | "nexus-doc-text" :: wo :: ns :: tokmap :: ntrees :: rest =>
    match wopts? wo, strList? ns, (strList? ns).bind (fun l => table? l tokmap), ntrees.toNat? with
    | some o, some ns, some tm, some n =>
      match namedTrees? n rest with
      | some trees => hexS (nexusDocText o ns tm trees)
      | none => "bad-op"
    | _, _, _, _ => "bad-op"
  | "nexml-write" :: ns :: ntrees :: rest =>
    match strList? ns, ntrees.toNat? with
    | some ns, some n =>
      match xwTrees? n rest with
      | some trees => renderXDoc (nxWrite ns trees)
      | none => "bad-op"
    | _, _ => "bad-op"
  | "nexml-rt" :: cm :: ns :: ntrees :: rest =>
    match caseMap? cm, strList? ns, ntrees.toNat? with
    | some cf, some ns, some n =>
      match xwTrees? n rest with
      | some trees => renderDoc (nxRead cf none (nxWrite ns trees))
      | none => "bad-op"
    | _, _, _ => "bad-op"
  | "nexml-read" :: cm :: attached :: rest =>
    match caseMap? cm, (if attached == "*" then some none else (strList? attached).map some), xdoc? rest with
    | some cf, some att, some d => renderDoc (nxRead cf att d)
    | _, _, _ => "bad-op"
  | ["attr-quote", lab] =>
    match str? lab with
    | some (some l) => hexS (quoteAttr l)
    | some none => hexS (quoteAttr [])
    | none => "bad-op"
  | ["attr-parse", text] =>
    match str? text with
    | some (some t) =>
      match parseAttr t with
      | some (v, rest) => "ok " ++ hexS v ++ " " ++ hexS rest
      | none => "ERR"
    | _ => "bad-op"
  | ["taxlabels", ps, uu, ns] =>
    match strList? ns with
    | some ns => hexS (taxlabelsText (ps == "1") (uu == "1") ns)
    | none => "bad-op"
  | ["tokens", pu, text] =>
    match str? text with
    | some (some s) =>
      let ts := tokenizeAll (pu == "1") s
      " ".intercalate (ts.toks.flatMap showTok ++ [if ts.ok then (if ts.atEof then "EOF1" else "EOF0") else "ERR"])
    | _ => "bad-op"
  | "write" :: wo :: rooting :: weight :: tr =>
    match wopts? wo, rooting.toNat?, str? weight, tree? (tr.length + 1) tr with
    | some o, some r, some w, some (t, []) => hexS (writeTree o r w t)
    | _, _, _, _ => "bad-op"
  | ["parse", ro, cm, numbers, ns, tokmap, text] =>
    match ropts? ro cm, strList? ns, (strList? tokmap).bind pairs?, str? text with
    | some o, some ns, some tm, some (some s) => readChecked o ⟨tm, ns, numbers == "1"⟩ s
    | _, _, _, _ => "bad-op"
  | "rt" :: wo :: ro :: cm :: rooting :: weight :: tr =>
    match wopts? wo, ropts? ro cm, rooting.toNat?, str? weight, tree? (tr.length + 1) tr with
    | some o, some ro, some r, some w, some (t, []) => readChecked ro {} (writeTree o r w t ++ ['\n'])
    | _, _, _, _, _ => "bad-op"
  | _ => "bad-op"

def main : IO Unit := do driverLoop (← IO.getStdin) handle
