import DendroModel.Model.C12
open DendroModel DendroModel.C12

/-! Line protocol of `drv_c12`.

`copy <root> <npre> (<i> <tgt>)* <nobj> (<kind> <cls> <nfields> (<name-hex> <val>)*)*`
  val  = `r<index>` | `a<hex6 text>` (`a=` empty text);  tgt = `r<index>` | `+` (new taxon) | `=<i>` (same target as `i`)
  kind = A annotable | X taxon | N namespace | S annotation set | P plain | T tuple
  →  `ok <root'> <n_new> <obj>*` (the objects allocated by the copy, in allocation order, same encoding) | `err <what>`

`shallow M <src> <blank> <member-attr-hex> <nobj> <obj>*` (TreeList / CharacterMatrix `__copy__`) and
`shallow N <src> - - <nobj> <obj>*` (`TaxonNamespace(ns)`)  →  as `copy`;  `clone-depth <n>` → `shallow|scoped|deep|TypeError`

`extract <0|1> <tree tokens> <edge label>*n <taxon label>*n`  →  rendering of the extracted tree -/

def parseVal (t : String) : Option Val :=
  match t.toList with
  | 'r' :: ds => (String.ofList ds).toNat?.map Val.ref
  | 'a' :: rest =>
    if rest == ['='] then some (.atom "") else (unhex6 rest).map (fun cs => Val.atom (String.ofList cs))
  | _ => none

def showVal : Val → String
  | .ref i => "r" ++ toString i
  | .atom s => if s.isEmpty then "a=" else "a" ++ String.ofList (hex6 s.toList)

def parseKind : String → Option Kind
  | "A" => some .annotable | "X" => some .taxon | "N" => some .namespace
  | "S" => some .annset | "P" => some .plain | "T" => some .tuple
  | _ => none

def showKind : Kind → String
  | .annotable => "A" | .taxon => "X" | .namespace => "N" | .annset => "S" | .plain => "P" | .tuple => "T"

def parseFieldsN : Nat → List String → Option (List (String × Val) × List String)
  | 0, ws => some ([], ws)
  | n + 1, name :: v :: ws =>
    match decodeStr name, parseVal v, parseFieldsN n ws with
    | some (some nm), some v, some (fs, rest) => some ((nm, v) :: fs, rest)
    | some none, _, _ => none
    | _, _, _ => none
  | _, _ => none

def parseObjsN : Nat → List String → Option (List Obj × List String)
  | 0, ws => some ([], ws)
  | n + 1, k :: cls :: nf :: ws =>
    match parseKind k, nf.toNat? with
    | some k, some nf =>
      match parseFieldsN nf ws with
      | some (fs, rest) =>
        match parseObjsN n rest with
        | some (os, rest') => some ({ kind := k, cls := cls, fields := fs } :: os, rest')
        | none => none
      | none => none
    | _, _ => none
  | _, _ => none

def parsePreN : Nat → List String → Option (List (Nat × PreTarget) × List String)
  | 0, ws => some ([], ws)
  | n + 1, i :: t :: ws =>
    let tgt : Option PreTarget :=
      match t.toList with
      | ['+'] => some .fresh
      | 'r' :: ds => (String.ofList ds).toNat?.map PreTarget.existing
      | '=' :: ds => (String.ofList ds).toNat?.map PreTarget.sameAs
      | _ => none
    match i.toNat?, tgt, parsePreN n ws with
    | some i, some t, some (ps, rest) => some ((i, t) :: ps, rest)
    | _, _, _ => none
  | _, _ => none

def showObj (o : Obj) : String :=
  " ".intercalate ([showKind o.kind, o.cls, toString o.fields.length] ++
    o.fields.flatMap (fun f => [encodeStr (some f.1), showVal f.2]))

def objEq : Option Obj → Option Obj → Bool
  | some a, some b => a.kind == b.kind && a.cls == b.cls && a.fields == b.fields
  | none, none => true
  | _, _ => false

def showErr : Err → String
  | .fuel => "err fuel" | .dangling => "err dangling" | .malformed => "err malformed"

/-- the objects allocated (in allocation order), the old objects whose content differs after the copy (the subject of
copy_no_write*), and the final memo (copy_fresh) -/
def showResult (h : Heap) (s : St) (v : Val) : String :=
  let new := (s.h.toList.drop h.size)
  let changed := (List.range h.size).filter (fun x => !(objEq s.h[x]? h[x]?))
  " ".intercalate (["ok", showVal v, toString new.length] ++ new.map showObj
    ++ ["changed", toString changed.length] ++ changed.map toString
    ++ ["memo", toString s.m.length] ++ s.m.flatMap (fun p => [toString p.1, toString p.2]))

def handle (ws : List String) : String :=
  match ws with
  | "copy" :: root :: npre :: rest =>
    match parseVal root, npre.toNat? with
    | some root, some npre =>
      match parsePreN npre rest with
      | some (pre, nobj :: rest') =>
        match nobj.toNat? with
        | some nobj =>
          match parseObjsN nobj rest' with
          | some (objs, []) =>
            let h : Heap := objs.toArray
            match copyRoute h pre root with
            | .error e => showErr e
            | .ok (s, v) => showResult h s v
          | _ => "bad-op"
        | none => "bad-op"
      | _ => "bad-op"
    | _, _ => "bad-op"
  | "shallow" :: which :: src :: b :: mem :: nobj :: rest =>
    match src.toNat?, nobj.toNat? with
    | some src, some nobj =>
      match parseObjsN nobj rest with
      | some (objs, []) =>
        let h : Heap := objs.toArray
        let res : Option (Except Err (St × Val)) :=
          match which, b.toNat?, decodeStr mem with
          | "M", some b, some (some mem) => some (shallowMembers h src b mem)
          | "N", none, _ => if b == "-" && mem == "-" then some (shallowNs h src) else none
          | _, _, _ => none
        match res with
        | none => "bad-op"
        | some (.error e) => showErr e
        | some (.ok (s, v)) => showResult h s v
      | _ => "bad-op"
    | _, _ => "bad-op"
  | "clone-depth" :: [d] =>
    match d.toNat? with
    | some d =>
      match cloneDepth d with
      | some .shallow => "shallow" | some .scoped => "scoped" | some .deep => "deep" | none => "TypeError"
    | none => "bad-op"
  | "extract" :: sup :: rest =>
    match parseTree rest with
    | some (tree, more) =>
      let n := tree.size
      if more.length != 2 * n || (sup != "0" && sup != "1") || !(tree.nodes.all (fun x => x.id < n)) then "bad-op" else
      let el := (more.take n).toArray
      let tl := (more.drop n).toArray
      (extract (sup == "1") (fun i => tl[i]?.getD "?") (fun i => el[i]?.getD "?") tree).render
    | none => "bad-op"
  | _ => "bad-op"

def main : IO Unit := do driverLoop (← IO.getStdin) handle
