import DendroModel.Model.C03Heap
open DendroModel DendroModel.C03

/-! Line protocol of `drv_c03`
  `step <R|U|N> <op> <args…> <tree> [<tree2>]`  →  `ok <R|U|N> <tree>` | `err <class> <R|U|N> <tree left behind>` | `err bad-input`
      nodes created by the operation print as `*` (their ids are not observable on the Python side)
      `resolverng <limit> <ub> <script: comma list or -> <tree>` = `resolve_polytomies(rng=<scripted rng>)`
  `heap <prim> <args…> <tree>`                   →  `ok <shape> | <i:parent:children …>` | `err`
      the pointer primitive run on the heap of `<tree>`, read back from the top-most ancestor of the old root, followed by the
      parent pointer and child list of EVERY node `0 … size` (size = the id a new node gets), detached ones included -/

def pBool (s : String) : Option Bool := if s == "1" then some true else if s == "0" then some false else none
def pONat (s : String) : Option (Option Nat) := if s == "-" then some none else s.toNat?.map some
def pList (s : String) : Option (List Nat) :=
  if s == "-" then some [] else (s.splitOn ",").mapM String.toNat?
def pRooted (s : String) : Option (Option Bool) :=
  if s == "R" then some (some true) else if s == "U" then some (some false) else if s == "N" then some none else none
def rRooted : Option Bool → String
  | some true => "R" | some false => "U" | none => "N"

mutual
/-- `T.render` with ids `≥ star` printed as `*` -/
def renderStar (star : Nat) : T → String
  | .node i x l _ cs =>
    "(" ++ (if i ≥ star then "*" else toString i) ++ " " ++ (match x with | some k => toString k | none => "-") ++ " "
      ++ renderOLen l ++ renderStarL star cs ++ ")"
def renderStarL (star : Nat) : List T → String
  | [] => ""
  | c :: cs => " " ++ renderStar star c ++ renderStarL star cs
end

/-- parse `<op> <args…>` followed by the tree(s); returns the operation, the tree and the `*` threshold -/
def parseOp (ws : List String) : Option (Op × T × Nat) :=
  let one (rest : List String) (mk : T → Option Op) : Option (Op × T × Nat) :=
    match parseTree rest with
    | some (t, []) => (mk t).map (fun op => (op, t, maxId t + 1))
    | _ => none
  match ws with
  | "remove" :: p :: c :: s :: rest => one rest fun _ => do some (.removeChild (← p.toNat?) (← c.toNat?) (← pBool s))
  | "newchild" :: p :: x :: l :: rest => one rest fun _ => do some (.newChild (← p.toNat?) (← pONat x) (← parseOLen l))
  | "insertnew" :: p :: i :: x :: l :: rest =>
    one rest fun _ => do some (.insertNewChild (← p.toNat?) (← i.toNat?) (← pONat x) (← parseOLen l))
  | "addsub" :: p :: rest =>
    match parseTree rest with
    | some (t, rest2) => match parseTree rest2 with
      | some (sub, []) => p.toNat?.map fun p => (.addSub p sub, t, maxId t + 1 + sub.size)
      | _ => none
    | none => none
  | "insertsub" :: p :: i :: rest =>
    match parseTree rest with
    | some (t, rest2) => match parseTree rest2, p.toNat?, i.toNat? with
      | some (sub, []), some p, some i => some (.insertSub p i sub, t, maxId t + 1 + sub.size)
      | _, _, _ => none
    | none => none
  | "insertmove" :: p :: i :: c :: rest => one rest fun _ => do some (.insertMove (← p.toNat?) (← i.toNat?) (← c.toNat?))
  | "setparent" :: c :: q :: rest => one rest fun _ => do some (.setParent (← c.toNat?) (← q.toNat?))
  | "edgecollapse" :: c :: a :: rest => one rest fun _ => do some (.edgeCollapse (← c.toNat?) (← pBool a))
  | "collapseclade" :: c :: rest => one rest fun _ => do some (.collapseClade (← c.toNat?))
  | "reseed" :: n :: c :: s :: rest => one rest fun _ => do some (.reseedAt (← n.toNat?) (← pBool c) (← pBool s))
  | "rerootnode" :: n :: ub :: s :: c :: rest =>
    one rest fun _ => do some (.rerootAtNode (← n.toNat?) (← pBool ub) (← pBool s) (← pBool c))
  | "rerootedge" :: n :: l1 :: l2 :: ub :: s :: rest =>
    one rest fun _ => do some (.rerootAtEdge (← n.toNat?) (← parseOLen l1) (← parseOLen l2) (← pBool ub) (← pBool s))
  | "outgroup" :: n :: s :: rest => one rest fun _ => do some (.toOutgroup (← n.toNat?) (← pBool s))
  | "suppress" :: rest => one rest fun _ => some .suppressUnif
  | "collapsebasal" :: su :: rest => one rest fun _ => do some (.collapseBasal (← pBool su))
  | "polytomize" :: su :: rest => one rest fun _ => do some (.polytomize (← pBool su))
  | "collapseunweighted" :: thr :: ub :: rest =>
    one rest fun _ => do some (.collapseUnweighted (← Frac.parse thr) (← pBool ub))
  | "resolve" :: lim :: ub :: rest => one rest fun _ => do some (.resolve (← lim.toNat?) (← pBool ub))
  | "resolverng" :: lim :: ub :: sc :: rest =>
    one rest fun _ => do some (.resolveRng (← lim.toNat?) (← pBool ub) (← pList sc))
  | "prunesubtree" :: c :: ub :: s :: rest => one rest fun _ => do some (.pruneSubtree (← c.toNat?) (← pBool ub) (← pBool s))
  | "filterleaves" :: keep :: r :: ub :: s :: rest =>
    one rest fun _ => do some (.filterLeaves (← pList keep) (← pBool r) (← pBool ub) (← pBool s))
  | "prunenotaxa" :: r :: ub :: s :: rest => one rest fun _ => do some (.pruneNoTaxa (← pBool r) (← pBool ub) (← pBool s))
  | "prunetaxa" :: bits :: ub :: s :: rest => one rest fun _ => do some (.pruneTaxa (← pList bits) (← pBool ub) (← pBool s))
  | "retaintaxa" :: bits :: ub :: s :: rest => one rest fun _ => do some (.retainTaxa (← pList bits) (← pBool ub) (← pBool s))
  | "ladderize" :: a :: rest => one rest fun _ => do some (.ladderize (← pBool a))
  | "reorder" :: rest => one rest fun _ => some .reorder
  | "rotate" :: m :: rest => one rest fun _ => do some (.rotate (← m.toNat?))
  | "shuffle" :: rs :: rest => one rest fun _ => do some (.shuffleTaxa (← pList rs))
  | "reorient" :: k :: m :: rest => one rest fun _ => do some (.reorient (← k.toNat?) (← m.toNat?))
  | "setseed" :: n :: rest => one rest fun _ => do some (.setSeed (← n.toNat?))
  | "encode" :: s :: c :: rest => one rest fun _ => do some (.encode (← pBool s) (← pBool c))
  | _ => none

def top (h : Heap) : Nat → Nat → Nat
  | 0, i => i
  | f + 1, i => match h.par i with
    | some p => top h f p
    | none => i

/-- the complete pointer state of the nodes `0 … n-1`: `i:parent:children`, detached nodes included (what `remove_child`
leaves in the removed node, what `Edge.collapse` leaves in the dissolved one, the emptied child list of a suppressed node) -/
def heapDump (h : Heap) (n : Nat) : String :=
  " ".intercalate ((List.range n).map fun i =>
    toString i ++ ":" ++ (match h.par i with | some p => toString p | none => "-") ++ ":" ++
      (if (h.ch i).isEmpty then "-" else ",".intercalate ((h.ch i).map toString)))

def heapOut (t : T) (root : Nat) : Option Heap → String
  | none => "err"
  | some h => "ok " ++ (Heap.readback h (t.size + 2) (top h (t.size + 2) root)).render ++ " | " ++ heapDump h (t.size + 1)

def handleHeap (ws : List String) : String :=
  let withTree (rest : List String) (f : T → Heap → Option String) : String :=
    match parseTree rest with
    | some (t, []) => (f t (Heap.ofTree none Heap.empty t)).getD "bad-op"
    | _ => "bad-op"
  match ws with
  | "add" :: self :: node :: rest => withTree rest fun t h => do
      some (heapOut t t.id (some (Heap.addChild h (← self.toNat?) (← node.toNat?))))
  | "insert" :: self :: idx :: node :: rest => withTree rest fun t h => do
      some (heapOut t t.id (some (Heap.insertChild h (← self.toNat?) (← idx.toNat?) (← node.toNat?))))
  | "remove" :: self :: node :: s :: rest => withTree rest fun t h => do
      let self ← self.toNat?; let node ← node.toNat?
      some (heapOut t t.id (if (← pBool s) then Heap.removeChildSuppress h self node else Heap.removeChild h self node))
  | "setparent" :: node :: q :: rest => withTree rest fun t h => do
      some (heapOut t t.id (some (Heap.setParent h (← node.toNat?) (some (← q.toNat?)))))
  | "collapse" :: node :: rest => withTree rest fun t h => do
      some (heapOut t t.id (Heap.edgeCollapse h (← node.toNat?)))
  | "invert" :: head :: rest => withTree rest fun t h => do
      let head ← head.toNat?
      some (heapOut t head (Heap.edgeInvert h head))
  | "suppress" :: rest => withTree rest fun t h =>
      -- the loop of `suppress_unifurcations` over the post-order of the tree; read back from the node that is the seed afterwards
      some (heapOut t (sup t).id (some (Heap.supLoop h (Heap.postIds t))))
  | "reseed" :: target :: rest => withTree rest fun t h => do
      let target ← target.toNat?
      some (heapOut t target (Heap.reseedChain h (t.size + 2) target))
  | _ => "bad-op"

/-- split a token list at the `|` tokens -/
def splitBar : List String → List (List String)
  | [] => [[]]
  | w :: ws =>
    match splitBar ws with
    | [] => [[w]]
    | seg :: segs => if w == "|" then [] :: seg :: segs else (w :: seg) :: segs

def handle (ws : List String) : String :=
  match ws with
  | "step" :: r :: rest =>
    match pRooted r, parseOp rest with
    | some rooted, some (op, t, star) =>
      match step { t := t, rooted := rooted } op with
      | .ok s => "ok " ++ rRooted s.rooted ++ " " ++ renderStar star s.t
      | .error e =>
        -- a documented error: the class, then the state the operation leaves behind (`errState`)
        if e == .badInput then "err " ++ e.render else
        let se := errState { t := t, rooted := rooted } op
        "err " ++ e.render ++ " " ++ rRooted se.rooted ++ " " ++ renderStar star se.t
    | _, _ => "bad-op"
  | "run" :: r :: rest =>
    -- `run <R|U|N> <tree> | <op> <args…> | <op> <args…> …`: a whole history through `C03.runE` (operations that do not
    -- create nodes, so that the ids of the start tree stay valid along the history)
    match pRooted r, parseTree rest with
    | some rooted, some (t, rest2) =>
      let segs := (splitBar rest2).filter (fun l => !l.isEmpty)
      match segs.mapM (fun seg => (parseOp (seg ++ ["1", "-1", "-", "N", "-"])).map (fun x => x.1)) with
      | some ops =>
        let s := runE ops { t := t, rooted := rooted }
        "ok " ++ rRooted s.rooted ++ " " ++ renderStar (maxId t + 1) s.t
      | none => "bad-op"
    | _, _ => "bad-op"
  | "heap" :: rest => handleHeap rest
  | _ => "bad-op"

def main : IO Unit := do driverLoop (← IO.getStdin) handle
