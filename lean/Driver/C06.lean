import DendroModel.Model.C06
import DendroModel.Model.C06Proto
open DendroModel DendroModel.C06

/-! line protocol of C06 (see harness/props/c06.py):
  hist  THETA NOPS op*          -> NRES res* NREGS dump*
  sched THETA R il ia uw  NARR arrival*  NFILES assign*  (NTREES trec*)*   -> par: res [dump]  ser: res [dump]
 op   := new R il ia uw | add d TREC | ins d i TREC | upd d s | ext d s | iadd d s | plus a b
 TREC := R W leafset K (split len age)*K        R in N,T,F; W,len,age exact rationals or N
 schedb / asyncf: see `pSchedB`, `pAsyncF` (burn-in inside the model; failing reads; what every worker posts)
 dump := flat token stream, see `dumpTA` -/

abbrev P := StateT (List String) Option

def tok : P String := fun s => match s with
  | [] => none
  | t :: r => some (t, r)

def pNat : P Nat := do let t ← tok; match t.toNat? with | some n => pure n | none => failure
def pInt : P Int := do let t ← tok; match t.toInt? with | some n => pure n | none => failure
def pOFrac : P (Option Frac) := do let t ← tok; match parseOLen t with | some x => pure x | none => failure
def pFrac : P Frac := do let t ← tok; match Frac.parse t with | some x => pure x | none => failure
def pBool : P Bool := do let t ← tok; if t == "1" then pure true else if t == "0" then pure false else failure
def pRooting : P (Option Bool) := do
  let t ← tok
  if t == "N" then pure none else if t == "T" then pure (some true) else if t == "F" then pure (some false) else failure

def pRep {α : Type} (p : P α) : Nat → P (List α)
  | 0 => pure []
  | n + 1 => do let x ← p; let xs ← pRep p n; pure (x :: xs)

def pFlags : P Flags := do
  let a ← pBool; let b ← pBool; let c ← pBool
  pure ⟨a, b, c⟩

def pEntry : P Entry := do
  let s ← pNat; let l ← pOFrac; let a ← pOFrac
  pure ⟨s, l, a⟩

def pTRec : P TRec := do
  let r ← pRooting; let w ← pOFrac; let ls ← pNat; let k ← pNat
  let es ← pRep pEntry k
  pure ⟨r, w, ls, es⟩

def pOp : P Op := do
  let t ← tok
  match t with
  | "new" => do let r ← pRooting; let f ← pFlags; pure (.new r f)
  | "add" => do let d ← pNat; let t ← pTRec; pure (.add d t)
  | "ins" => do let d ← pNat; let i ← pInt; let t ← pTRec; pure (.ins d i t)
  | "upd" => do let d ← pNat; let s ← pNat; pure (.upd d s)
  | "ext" => do let d ← pNat; let s ← pNat; pure (.ext d s)
  | "iadd" => do let d ← pNat; let s ← pNat; pure (.iadd d s)
  | "plus" => do let a ← pNat; let b ← pNat; pure (.plus a b)
  | _ => failure

def rRooting : Option Bool → String
  | none => "N" | some true => "T" | some false => "F"
def rBool (b : Bool) : String := if b then "1" else "0"
def rErr : Err → String
  | .mixedRooting => "MixedRooting" | .incRooting => "IncRooting" | .incLens => "IncLens"
  | .incAges => "IncAges" | .incWeights => "IncWeights" | .assertion => "Assertion" | .badReg => "BadReg"

def rList {α : Type} (f : α → List String) (l : List α) : List String :=
  toString l.length :: l.flatMap f

def rQs : Option (List Q) → List String
  | none => ["-1"]
  | some l => rList (fun q => [q.render]) l

/-- flat dump of an array: settings, the four lists separately, the distribution, frequencies,
    credibility scores, support sums, consensus split order at `theta` -/
def dumpTA (theta : Q) (a : TA) : List String :=
  ["A", rRooting a.rooting, rBool a.flags.ignoreLens, rBool a.flags.ignoreAges, rBool a.flags.useWeights]
  ++ rList (fun sp => rList (fun s => [toString s]) sp) a.splits
  ++ rList (fun el => rList (fun l => [renderOLen l]) el) a.elens
  ++ rList (fun s => [toString s]) a.leafsets
  ++ rList (fun w => [w.render]) a.weights
  ++ [toString a.sd.total, a.sd.sumW.render, rBool a.sd.sawRooted, rBool a.sd.sawUnrooted]
  ++ rList (fun kc => [toString kc.1, kc.2.render]) a.sd.counts
  ++ rList (fun kl => toString kl.1 :: rList (fun l => [l.render]) kl.2) a.sd.lens
  ++ rList (fun kl => toString kl.1 :: rList (fun l => [renderOLen l]) kl.2) a.sd.ages
  ++ rList (fun kc => [toString kc.1, (a.sd.freq kc.1).render]) a.sd.counts
  ++ rList (fun kc => [toString kc.1, match a.sd.meanLen kc.1 with | some q => q.render | none => "N",
                       match a.sd.meanAge kc.1 with | some q => q.render | none => "N"]) a.sd.counts
  ++ rList (fun kc => [toString kc.1, match a.sd.varLen kc.1 with | some q => q.render | none => "N",
                       match a.sd.varAge kc.1 with | some q => q.render | none => "N",
                       renderOLen (a.sd.rangeLen kc.1).1, renderOLen (a.sd.rangeLen kc.1).2,
                       renderOLen (a.sd.rangeAge kc.1).1, renderOLen (a.sd.rangeAge kc.1).2]) a.sd.counts
  ++ rQs (scores a) ++ rQs (sums a)
  ++ [match mccIndex a with | some i => toString i | none => "-1"]
  ++ rList (fun s => [toString s]) (consensusOrder a.sd theta)

def join (l : List String) : String := " ".intercalate l

def pHist : P String := do
  let theta ← pFrac
  let n ← pNat
  let ops ← pRep pOp n
  let rest ← get
  if !rest.isEmpty then failure
  let (regs, log) := run [] ops
  let res := log.map fun | none => "ok" | some e => rErr e
  -- the ghost semantics of the same history: which trees (their split lists) every array should hold
  let ghost := rList (fun ts => rList (fun (t : TRec) => rList (fun e => [toString e.split]) t.entries) ts) (ghostRun ops)
  pure (join (toString res.length :: res ++ toString regs.length :: regs.flatMap (dumpTA (Q.ofFrac theta)) ++ "G" :: ghost))

def rRun (theta : Q) : Except Err TA → List String
  | .ok a => "ok" :: dumpTA theta a
  | .error e => [rErr e]

def pSched : P String := do
  let theta ← pFrac
  let r ← pRooting; let f ← pFlags
  let na ← pNat; let arrival ← pRep pNat na
  let nf ← pNat; let assign ← pRep pNat nf
  let files ← pRep (do let k ← pNat; pRep pTRec k) nf
  let rest ← get
  if !rest.isEmpty then failure
  pure (join (rRun (Q.ofFrac theta) (runParallel r f assign arrival files)
              ++ rRun (Q.ofFrac theta) (runSerial r f files)))

/-- `async THETA R il ia uw BLOCKING NW NCH choice* NARR arrival* NFILES (NTREES trec*)*`
    -> NW (K taken*)*  then `hang` | res [dump] -/
def pAsync : P String := do
  let theta ← pFrac
  let r ← pRooting; let f ← pFlags
  let blocking ← pBool
  let nw ← pNat
  let nc ← pNat; let choices ← pRep pNat nc
  let na ← pNat; let arrival ← pRep pNat na
  let nf ← pNat
  let files ← pRep (do let k ← pNat; pRep pTRec k) nf
  let rest ← get
  if !rest.isEmpty then failure
  let fin := finalP blocking nw files.length choices
  let taken := rList (fun w => rList (fun k => [toString k]) w.taken) fin.ws
  let res := match runAsync r f blocking nw choices arrival files with
    | none => ["hang"]
    | some x => rRun (Q.ofFrac theta) x
  pure (join (taken ++ res))

/-- `schedb THETA BURNIN R il ia uw NARR arrival* NFILES assign* (NTREES trec*)*` (the files complete, the burn-in applied by the
    model's reading loop)  -> par: res [dump]  ser: res [dump] -/
def pSchedB : P String := do
  let theta ← pFrac
  let burnin ← pNat
  let r ← pRooting; let f ← pFlags
  let na ← pNat; let arrival ← pRep pNat na
  let nf ← pNat; let assign ← pRep pNat nf
  let files ← pRep (do let k ← pNat; pRep pTRec k) nf
  let rest ← get
  if !rest.isEmpty then failure
  pure (join (rRun (Q.ofFrac theta) (runParallelB burnin r f assign arrival files)
              ++ rRun (Q.ofFrac theta) (runSerialB burnin r f files)))

/-- `asyncf THETA BURNIN R il ia uw NW NCH choice* NARR arrival* NFILES (NTREES trec*)*`: the end-marker protocol with failing
    reads, per-file burn-in in the workers, re-raising collation
    -> NW (K taken*)*  NW posted*  (`hang` | res [dump])  `S` serial-res     (posted = `ok` or the exception a worker posts) -/
def pAsyncF : P String := do
  let theta ← pFrac
  let burnin ← pNat
  let r ← pRooting; let f ← pFlags
  let nw ← pNat
  let nc ← pNat; let choices ← pRep pNat nc
  let na ← pNat; let arrival ← pRep pNat na
  let nf ← pNat
  let files ← pRep (do let k ← pNat; pRep pTRec k) nf
  let rest ← get
  if !rest.isEmpty then failure
  let wf := workerFiles burnin files
  let fin := finalPF (failsOf r f wf) nw wf.length choices
  let taken := rList (fun w => rList (fun k => [toString k]) w.taken) fin.ws
  let posted := rList (fun i => [match postedBy r f fin wf i with | .ok _ => "ok" | .error e => rErr e]) (List.range nw)
  let res := match runAsyncFB burnin r f nw choices arrival files with
    | none => ["hang"]
    | some x => rRun (Q.ofFrac theta) x
  let ser := match runSerialB burnin r f files with
    | .ok _ => "ok"
    | .error e => rErr e
  pure (join (taken ++ posted ++ res ++ ["S", ser]))

def handle (ws : List String) : String :=
  match ws with
  | "hist" :: rest => match pHist.run rest with
    | some (s, _) => s
    | none => "bad-op"
  | "sched" :: rest => match pSched.run rest with
    | some (s, _) => s
    | none => "bad-op"
  | "async" :: rest => match pAsync.run rest with
    | some (s, _) => s
    | none => "bad-op"
  | "schedb" :: rest => match pSchedB.run rest with
    | some (s, _) => s
    | none => "bad-op"
  | "asyncf" :: rest => match pAsyncF.run rest with
    | some (s, _) => s
    | none => "bad-op"
  | _ => "bad-op"

def main : IO Unit := do driverLoop (← IO.getStdin) handle
