import DendroModel.Model.C08
import DendroModel.Model.C08Upd
import DendroModel.Model.C08Heap
open DendroModel DendroModel.C08

/-- `<k> n_1 … n_k rest…` -/
def takeNats (ws : List String) : Option (List Nat × List String) :=
  match ws with
  | [] => none
  | k :: rest =>
    match k.toNat? with
    | none => none
    | some k =>
      if rest.length < k then none else
      match (rest.take k).mapM String.toNat? with
      | some xs => some (xs, rest.drop k)
      | none => none

def flag (s : String) : Option Bool := if s == "1" then some true else if s == "0" then some false else none

/-- a node predicate: `ids k …` (accepted node ids), `taxa k …` (taxon-less nodes pass, else taxon ∈ K: the wrappers'
    filter), `nottaxa k …` (taxon-less pass, else taxon ∉ K), `keep k …` (taxon ∈ K, taxon-less fail), `all` -/
def parseAcc (ws : List String) : Option (Acc × List String) :=
  match ws with
  | "all" :: rest => some ((fun _ _ => true), rest)
  | "hastaxon" :: rest => some (hasTaxon, rest)
  | m :: rest =>
    match takeNats rest with
    | none => none
    | some (xs, rest) =>
      if m == "ids" then some ((fun i _ => xs.contains i), rest)
      else if m == "taxa" then some (taxonFilter (fun k => xs.contains k), rest)
      else if m == "nottaxa" then some (taxonFilter (fun k => !xs.contains k), rest)
      else if m == "keep" then some (keepTaxa (fun k => xs.contains k), rest)
      else none
  | [] => none

def renderRem (r : T × List Nat) : String := r.1.render ++ " | " ++ natList (sortNat r.2)

/-- `<n> bit hexlabel …` : namespace members in order -/
def takeNs (ws : List String) : Option (Ns × List String) :=
  match ws with
  | [] => none
  | n :: rest =>
    match n.toNat? with
    | none => none
    | some n =>
      if rest.length < 2 * n then none else
      let rec go : Nat → List String → Option Ns
        | 0, _ => some []
        | k + 1, b :: l :: more =>
          match b.toNat?, decodeStr l, go k more with
          | some b, some (some l), some r => some ((b, l) :: r)
          | _, _, _ => none
        | _ + 1, _ => none
      match go n (rest.take (2 * n)) with
      | some ns => some (ns, rest.drop (2 * n))
      | none => none

def takeStrs (ws : List String) : Option (List String × List String) :=
  match ws with
  | [] => none
  | k :: rest =>
    match k.toNat? with
    | none => none
    | some k =>
      if rest.length < k then none else
      match (rest.take k).mapM (fun s => match decodeStr s with | some (some x) => some x | _ => none) with
      | some xs => some (xs, rest.drop k)
      | none => none

def parseRooted (s : String) : Option (Option Bool) :=
  if s == "R" then some (some true) else if s == "U" then some (some false) else if s == "N" then some none else none

def insertPair (x : Nat × Int) : List (Nat × Int) → List (Nat × Int)
  | [] => [x]
  | y :: ys => if x.1 < y.1 || (x.1 == y.1 && x.2 ≤ y.2) then x :: y :: ys else y :: insertPair x ys

def renderUpd (r : T × List (Nat × Int)) : String :=
  r.1.render ++ " | " ++ " ".intercalate ((r.2.foldr insertPair []).map (fun p => s!"{p.1}:{p.2}"))

def exResStr : ExRes → String
  | .ok r => r.render
  | .seedDeletion => "SeedNodeDeletion"
  | .valueError => "ValueError"

def handle (ws : List String) : String :=
  match ws with
  -- exspec <sup> <fl> <fi> <acc> <tree>: the two-flag specification of extraction
  | "exspec" :: sup :: fl :: fi :: rest =>
    match flag sup, flag fl, flag fi, parseAcc rest with
    | some sup, some fl, some fi, some (acc, rest) =>
      match checkedTree rest with
      | some (t, []) => match exSpec acc fl fi sup t with
        | some r => r.render
        | none => "none"
      | _ => "bad-op"
    | _, _, _, _ => "bad-op"
  -- bylabel <prune|retain|with|without> <sup> <case-sensitive> <namespace> <k> <labels…> <tree>
  | "bylabel" :: v :: sup :: cs :: rest =>
    match flag sup, flag cs, takeNs rest with
    | some sup, some cs, some (ns, rest) =>
      match takeStrs rest with
      | some (labels, rest) =>
        match checkedTree rest with
        | some (t, []) =>
          if !cs && !(ns.all (fun m => inFoldRange m.2) && labels.all inFoldRange) then "out-of-range"
          else if v == "prune" then (match pruneWithLabels cs ns labels sup t with | some r => r.render | none => "err")
          else if v == "retain" then (match retainWithLabels cs ns labels sup t with | some r => r.render | none => "err")
          else if v == "with" then exResStr (extractWithLabels cs ns labels sup t)
          else if v == "without" then exResStr (extractWithoutLabels cs ns labels sup t)
          else "bad-op"
        | _ => "bad-op"
      | none => "bad-op"
    | _, _, _ => "bad-op"
  -- strikespec <fl> <fi> <k> <P…> <tree>: the independent description of the first pass of prune_taxa
  | "strikespec" :: fl :: fi :: rest =>
    match flag fl, flag fi, takeNats rest with
    | some fl, some fi, some (P, rest) =>
      match checkedTree rest with
      | some (t, []) => match strikeSpec (fun k => P.contains k) fl fi t with
        | some (some r) => r.render
        | some none => "none"
        | none => "no-spec"
      | _ => "bad-op"
    | _, _, _ => "bad-op"
  -- bylabelupd <prune|retain> <R|U|N> <sup> <case-sensitive> <namespace> <k> <labels…> <tree>: by label, then re-encoding
  | "bylabelupd" :: v :: r :: sup :: cs :: rest =>
    match parseRooted r, flag sup, flag cs, takeNs rest with
    | some r, some sup, some cs, some (ns, rest) =>
      match takeStrs rest with
      | some (labels, rest) =>
        match checkedTree rest with
        | some (t, []) =>
          if !cs && !(ns.all (fun m => inFoldRange m.2) && labels.all inFoldRange) then "out-of-range"
          else if v == "prune" then (match pruneWithLabelsUpd r cs ns labels sup t with | some x => renderUpd x | none => "err")
          else if v == "retain" then (match retainWithLabelsUpd r cs ns labels sup t with | some x => renderUpd x | none => "err")
          else "bad-op"
        | _ => "bad-op"
      | none => "bad-op"
    | _, _, _, _ => "bad-op"
  -- upd <R|U|N> <sup> prune <k> <P…> <tree> | retain <m> <ns…> <k> <K…> <tree> | filter <acc> <tree> | subtree <id> <tree>
  | "upd" :: r :: sup :: "prune" :: rest =>
    match parseRooted r, flag sup, takeNats rest with
    | some r, some sup, some (P, rest) =>
      match checkedTree rest with
      | some (t, []) => match pruneTaxaUpd r (fun k => P.contains k) sup t with
        | some x => renderUpd x
        | none => "err"
      | _ => "bad-op"
    | _, _, _ => "bad-op"
  | "upd" :: r :: sup :: "retain" :: rest =>
    match parseRooted r, flag sup, takeNats rest with
    | some r, some sup, some (ns, rest) =>
      match takeNats rest with
      | some (K, rest) =>
        match checkedTree rest with
        | some (t, []) => match retainTaxaUpd r ns (fun k => K.contains k) sup t with
          | some x => renderUpd x
          | none => "err"
        | _ => "bad-op"
      | none => "bad-op"
    | _, _, _ => "bad-op"
  | "upd" :: r :: sup :: "filter" :: rest =>
    match parseRooted r, flag sup, parseAcc rest with
    | some r, some sup, some (acc, rest) =>
      match checkedTree rest with
      | some (t, []) => match filterLeavesUpd r acc sup t with
        | some x => renderUpd x
        | none => "err"
      | _ => "bad-op"
    | _, _, _ => "bad-op"
  | "upd" :: r :: sup :: "subtree" :: i :: rest =>
    match parseRooted r, flag sup, i.toNat?, checkedTree rest with
    | some r, some sup, some i, some (t, []) =>
      if (t.find? i).isNone then "bad-target" else if i == t.id then "err" else renderUpd (pruneSubtreeUpd r i sup t)
    | _, _, _, _ => "bad-op"
  -- restrict <sup> <acc> <tree>: the specification itself
  | "restrict" :: sup :: rest =>
    match flag sup, parseAcc rest with
    | some sup, some (acc, rest) =>
      match checkedTree rest with
      | some (t, []) => match restrict acc sup t with
        | some r => r.render
        | none => "none"
      | _ => "bad-op"
    | _, _ => "bad-op"
  -- prune <sup> <fl> <fi> <k> <P…> <tree>
  | "prune" :: sup :: fl :: fi :: rest =>
    match flag sup, flag fl, flag fi, takeNats rest with
    | some sup, some fl, some fi, some (P, rest) =>
      match checkedTree rest with
      | some (t, []) => match pruneTaxa (fun k => P.contains k) fl fi sup t with
        | some r => r.render
        | none => "err"
      | _ => "bad-op"
    | _, _, _, _ => "bad-op"
  -- retain <sup> <m> <namespace bits…> <k> <K…> <tree>
  | "retain" :: sup :: rest =>
    match flag sup, takeNats rest with
    | some sup, some (ns, rest) =>
      match takeNats rest with
      | some (K, rest) =>
        match checkedTree rest with
        | some (t, []) => match retainTaxa ns (fun k => K.contains k) sup t with
          | some r => r.render
          | none => "err"
        | _ => "bad-op"
      | none => "bad-op"
    | _, _ => "bad-op"
  -- filter <sup> <recursive> <acc> <tree>  ->  tree | removed ids (sorted)
  | "filter" :: sup :: rc :: rest =>
    match flag sup, flag rc, parseAcc rest with
    | some sup, some rc, some (acc, rest) =>
      match checkedTree rest with
      | some (t, []) => match filterLeaves acc rc sup t with
        | some r => renderRem r
        | none => "err"
      | _ => "bad-op"
    | _, _, _ => "bad-op"
  -- plwt <sup> <recursive> <tree>
  | "plwt" :: sup :: rc :: rest =>
    match flag sup, flag rc, checkedTree rest with
    | some sup, some rc, some (t, []) => match pruneLeavesWithoutTaxa rc sup t with
      | some r => renderRem r
      | none => "err"
    | _, _, _ => "bad-op"
  -- subtree <sup> <node id> <tree>
  | "subtree" :: sup :: i :: rest =>
    match flag sup, i.toNat?, checkedTree rest with
    | some sup, some i, some (t, []) =>
      if (t.find? i).isNone then "bad-target" else if i == t.id then "err" else (pruneSubtree i sup t).render
    | _, _, _ => "bad-op"
  -- extract <sup> <fl> <fi> <acc> <tree>
  | "extract" :: sup :: fl :: fi :: rest =>
    match flag sup, flag fl, flag fi, parseAcc rest with
    | some sup, some fl, some fi, some (acc, rest) =>
      match checkedTree rest with
      | some (t, []) => match extractTree acc fl fi sup t with
        | .ok r => r.render
        | .seedDeletion => "SeedNodeDeletion"
        | .valueError => "ValueError"
      | _ => "bad-op"
    | _, _, _, _ => "bad-op"
  -- extractheap <sup> <fl> <fi> <acc> <tree>: Tree.extract_tree run on the object store (Model/C08Heap.lean):
  -- the tree read back from the store (or the exception) | whether the source objects are what they were
  | "extractheap" :: sup :: fl :: fi :: rest =>
    match flag sup, flag fl, flag fi, parseAcc rest with
    | some sup, some fl, some fi, some (acc, rest) =>
      match checkedTree rest with
      | some (t, []) => extractHeapShow acc fl fi sup t
      | _ => "bad-op"
    | _, _, _, _ => "bad-op"
  -- restrictA <sup> <acc> <tree>: the generalised specification of recursive leaf filtering (then suppression)
  | "restrictA" :: sup :: rest =>
    match flag sup, parseAcc rest with
    | some sup, some (acc, rest) =>
      match checkedTree rest with
      | some (t, []) => match restrictA acc t with
        | some r => (supIf sup r).render
        | none => "none"
      | _ => "bad-op"
    | _, _ => "bad-op"
  -- extractnode <sup> <fl> <fi> <start id> <acc> <tree>: Node.extract_subtree on any node
  | "extractnode" :: sup :: fl :: fi :: i :: rest =>
    match flag sup, flag fl, flag fi, i.toNat?, parseAcc rest with
    | some sup, some fl, some fi, some i, some (acc, rest) =>
      match checkedTree rest with
      | some (t, []) => if (t.find? i).isNone then "bad-target" else match extractNode acc fl fi sup t i with
        | .ok r => r.render
        | .seedDeletion => "SeedNodeDeletion"
        | .valueError => "ValueError"
      | _ => "bad-op"
    | _, _, _, _, _ => "bad-op"
  -- measure <tree>: the measurement functions of the clause theorems: clade masks (sorted) | all leaf-to-leaf path lengths
  -- (a path all of whose edges lack a length has length `none`, printed as 0: for path lengths "no length" counts as 0)
  | "measure" :: rest =>
    match checkedTree rest with
    | some (t, []) =>
      natList (sortNat t.masksPost) ++ " | " ++
        " ".intercalate ((allDists t).map (fun e => s!"{e.1}:{e.2.1}:{match e.2.2 with | some f => f.render | none => "0"}"))
    | _ => "bad-op"
  | _ => "bad-op"

def main : IO Unit := do driverLoop (← IO.getStdin) handle
