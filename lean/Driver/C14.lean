import DendroModel.Model.C14NJ
open DendroModel DendroModel.C14

def showEntry (e : Entry Nat Frac) : String :=
  s!"{e.a}:{e.b}:{e.d.render}:{e.steps}:{e.mrca}"

def unwords (l : List String) : String := " ".intercalate l

/-- the library asserts `desc1.taxon is not None` for every leaf it meets in a child's table -/
def assertFails (t : T) : Bool := !t.isLeaf && t.leaves.any (fun lf => lf.taxon.isNone)

def parseKeep (s : String) : Option (Nat → Bool) :=
  if s == "*" then some (fun _ => true)
  else if s == "-" then some (fun _ => false)
  else match (s.splitOn ",").mapM String.toNat? with
    | some ks => some (fun k => ks.contains k)
    | none => none

def parseNatCsv (s : String) : Option (List Nat) :=
  if s == "-" then some [] else (s.splitOn ",").mapM String.toNat?

partial def showNT : NT Frac → List String
  | .leaf i => ["L", toString i]
  | .node f lf g lg => ["N", lf.render, lg.render] ++ showNT f ++ showNT g

def parseMatrix (n : Nat) (ws : List String) : Option (Nat → Nat → Frac) :=
  if ws.length ≠ n * n then none else
  match ws.mapM Frac.parse with
  | some vs =>
    let arr := vs.toArray
    -- total and honest outside the matrix: cells with an index ≥ n read 0 (they are never consulted: pool members < n)
    some (fun a b => if a < n ∧ b < n then arr[a * n + b]! else Frac.zero)
  | none => none

mutual
/-- structure only: `(id child …)` -/
def shape : T → String
  | .node i _ _ _ cs => "(" ++ toString i ++ shapeL cs ++ ")"
def shapeL : List T → String
  | [] => ""
  | c :: cs => " " ++ shape c ++ shapeL cs
end

def optFrac : Option Frac → String
  | some f => f.render
  | none => "Null"

def handle (ws : List String) : String :=
  match ws with
  | "pdm" :: rest =>
    match parseTree rest with
    | some (t, []) =>
      if assertFails t then "AssertionError" else
      let tbl := table fracLen taxonKey t
      unwords (["ok", (treeLength fracLen t).render, toString (numEdges t), "|"] ++ tbl.map showEntry)
    | _ => "bad-op"
  | "spec" :: rest =>
    match parseTree rest with
    | some (t, []) =>
      if assertFails t then "AssertionError" else
      let ks := mapped taxonKey t
      let cells := ks.flatMap fun a => ks.filterMap fun b =>
        if a = b then none else
        match turn fracLen taxonKey t a b with
        | some (d, n, m) => some (showEntry ⟨a, b, d, n, m⟩)
        | none => some s!"{a}:{b}:none"
      unwords ("ok" :: cells)
    | _ => "bad-op"
  | "summ" :: kind :: weighted :: norm :: keep :: rest =>
    match parseKeep keep, parseTree rest with
    | some keep, some (t, []) =>
      if assertFails t then "AssertionError" else
      let w := weighted == "1"
      let nf : Frac := if norm == "1" then (if w then treeLength fracLen t else ((numEdges t : Nat) : Frac)) else Frac.one
      if nf.isZero then "ZeroDivisionError" else
      let val : Entry Nat Frac → Frac := selVal w
      let es := entries fracLen taxonKey t
      let tbl := table fracLen taxonKey t
      match kind with
      | "mpd" => optFrac (meanPairwise val nf keep es)
      | "mntd" =>
        optFrac (meanNearest (cellOf val tbl) nf keep (mapped taxonKey t))
      | "dists" => unwords ((pairValues val keep es).map fun d => (d / nf).render)
      | _ => "bad-op"
    | _, _ => "bad-op"
  | "mrca" :: rooted :: refresh :: target :: start :: stored :: rest =>
    match target.toNat?, start.toNat?, parseNatCsv stored, parseTree rest with
    | some target, some start, some stored, some (t, []) =>
      let arr := stored.toArray
      match treeMrca (rooted == "1") (refresh == "1") (fun i => arr[i]?.getD 0) target start t with
      | .valueError => "ValueError"
      | .startGone => "start-gone"
      | .found t' r => (match r with | some u => toString u.id | none => "None") ++ " | " ++ shape t'
    | _, _, _, _ => "bad-op"
  | "tm" :: rooted :: refresh :: a :: b :: stored :: rest =>
    match a.toNat?, b.toNat?, parseNatCsv stored, parseTree rest with
    | some a, some b, some stored, some (t, []) =>
      let arr := stored.toArray
      match treePatristic fracLen (rooted == "1") (refresh == "1") (fun i => arr[i]?.getD 0) a b t with
      | .valueError => "ValueError"
      | .attributeError => "AttributeError"
      | .ok d => d.render
    | _, _, _, _ => "bad-op"
  | "ntdist" :: method :: n :: rest =>
    -- path lengths between all taxa in the tree `nj` / `upgma` returns: `i:j:len` for i < j
    match n.toNat? with
    | some n =>
      match parseMatrix n rest with
      | some d =>
        let res := if method == "nj" then njTree n d else if method == "upgma" then upgmaTree n d else none
        match res with
        | some r =>
          let ids := List.range n
          unwords (ids.flatMap fun i => (ids.filter (fun j => i < j)).map fun j =>
            match NT.dist r i j with
            | some x => s!"{i}:{j}:{x.render}"
            | none => s!"{i}:{j}:none")
        | none => "IndexError"
      | none => "bad-op"
    | none => "bad-op"
  | "njtrace" :: n :: rest =>
    -- one item per pass of the main loop: `f,g;id:xsub,id:xsub,…` (pool order; the pair picked in that pass)
    match n.toNat? with
    | some n =>
      match parseMatrix n rest with
      | some d =>
        unwords ((njStates n (njInit n d)).map fun s =>
          (match njPick s with | some (f, g) => s!"{f},{g}" | none => "none") ++ ";" ++
            ",".intercalate (s.pool.map fun k => s!"{k}:{(s.x k).render}"))
      | none => "bad-op"
    | none => "bad-op"
  | "uptrace" :: n :: rest =>
    -- one item per pass: `f,g:d(f,g);id:distance_from_tip:cluster_size,…`
    match n.toNat? with
    | some n =>
      match parseMatrix n rest with
      | some d =>
        unwords ((upStates n (upInit n d)).map fun s =>
          (match upPick s with | some (f, g) => s!"{f},{g}:{(s.d f g).render}" | none => "none") ++ ";" ++
            ",".intercalate (s.pool.map fun k => s!"{k}:{(s.h k).render}:{(s.cl k).length}"))
      | none => "bad-op"
    | none => "bad-op"
  | "nj" :: n :: rest =>
    match n.toNat? with
    | some n =>
      match parseMatrix n rest with
      | some d => (match njTree n d with | some r => unwords (showNT r) | none => "IndexError")
      | none => "bad-op"
    | none => "bad-op"
  | "upgma" :: n :: rest =>
    match n.toNat? with
    | some n =>
      match parseMatrix n rest with
      | some d => (match upgmaTree n d with | some r => unwords (showNT r) | none => "IndexError")
      | none => "bad-op"
    | none => "bad-op"
  | _ => "bad-op"

def main : IO Unit := do driverLoop (← IO.getStdin) handle
