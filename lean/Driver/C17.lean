import DendroModel.Model.C17
open DendroModel DendroModel.C17

def insById {α : Type} (x : Nat × α) : List (Nat × α) → List (Nat × α)
  | [] => [x]
  | y :: ys => if x.1 ≤ y.1 then x :: y :: ys else y :: insById x ys
def byId {α : Type} (l : List (Nat × α)) : List α := (l.foldr insById []).map (·.2)

def fracs (l : List Frac) : String := " ".intercalate (l.map Frac.render)

def out {α : Type} (f : α → String) : Except Err α → String
  | .ok a => "ok " ++ f a
  | .error e => e.render

/-- precision field: `N` none, `D` the library default, else a fraction -/
def parsePrecD (dflt : Frac) (s : String) : Option (Option Frac) :=
  if s == "D" then some (some dflt) else parseOLen s
def parsePrec (s : String) : Option (Option Frac) := parsePrecD defaultPrec s

def parseNorm (s : String) : Option Norm :=
  match s with
  | "none" => some .none
  | "mean" => some .mean
  | "yule" => some .yule
  | "pdasq" => some .pdaSq
  | "max" => some .max
  | _ => none

def parseBool (s : String) : Option Bool :=
  match s with
  | "1" => some true
  | "0" => some false
  | _ => none

def handle (ws : List String) : String :=
  match ws with
  | "ages" :: prec :: fmax :: fmin :: intOnly :: rest =>
    match parsePrec prec, parseBool fmax, parseBool fmin, parseBool intOnly, parseTree rest with
    | some p, some fx, some fn, some io, some (t, []) =>
      -- every node's age by id, then the returned list in the order `calc_node_ages` builds it (post-order)
      out (fun a => fracs (byId a.ages) ++ " | " ++ fracs (a.returned io)) (calcNodeAges ⟨p, fx, fn⟩ t)
    | _, _, _, _, _ => "bad-op"
  | "nodeages" :: prec :: fmax :: fmin :: intOnly :: rest =>
    -- `Tree.node_ages` / `Tree.internal_node_ages`: the sorted list
    match parsePrec prec, parseBool fmax, parseBool fmin, parseBool intOnly, parseTree rest with
    | some p, some fx, some fn, some io, some (t, []) => out fracs (nodeAges ⟨p, fx, fn⟩ io t)
    | _, _, _, _, _ => "bad-op"
  | "coal" :: rest =>
    match parseTree rest with
    | some (t, []) => out fracs (coalIntervals t)
    | _ => "bad-op"
  | "rdlist" :: leafOnly :: rest =>
    match parseBool leafOnly, parseTree rest with
    | some lo, some (t, []) => out fracs (rootDistList lo t)
    | _, _ => "bad-op"
  | "maxdist" :: rest =>
    match parseTree rest with
    | some (t, []) => out Frac.render (maxDistFromRoot t)
    | _ => "bad-op"
  | "tmdepths" :: intOnly :: rest =>
    match parseBool intOnly, parseTree rest with
    | some io, some (t, []) => out fracs (tmNodeDepths io t)
    | _, _ => "bad-op"
  | "tmages" :: intOnly :: rest =>
    match parseBool intOnly, parseTree rest with
    | some io, some (t, []) => out fracs (tmNodeAges io t)
    | _, _ => "bad-op"
  | "distroot" :: rest =>
    match parseTree rest with
    | some (t, []) =>
      "ok " ++ " ".intercalate ((byId (distFromRoot t)).map fun v => match v with | .ok f => f.render | .error e => e.render)
    | _ => "bad-op"
  | "disttip" :: rest =>
    match parseTree rest with
    | some (t, []) => "ok " ++ fracs (byId (distFromTip t))
    | _ => "bad-op"
  | "setlen" :: minLen :: errNeg :: ages :: rest =>
    match parsePrec minLen, parseBool errNeg, (ages.splitOn ",").mapM Frac.parse, parseTree rest with
    | some m, some en, some as, some (t, []) =>
      if as.length != t.size then "bad-op" else   -- one age per node, never a default age
      let tbl := (List.range as.length).zip as
      out (fun a => " ".intercalate ((byId a.lens).map renderOLen)) (setLens m en (withAges tbl t))
    | _, _, _, _ => "bad-op"
  | "roundtrip" :: prec :: minLen :: errNeg :: rest =>
    match parsePrec prec, parsePrec minLen, parseBool errNeg, parseTree rest with
    | some p, some m, some en, some (t, []) =>
      match calcNodeAges ⟨p, false, false⟩ t with
      | .error e => e.render
      | .ok a => out (fun a => " ".intercalate ((byId a.lens).map renderOLen)) (setLens m en a)
    | _, _, _, _ => "bad-op"
  | "depths" :: rest =>
    match parseTree rest with
    | some (t, []) => out (fun r => fracs (byId (r.map fun p => (p.1, p.2.2)))) (rootDepths t)
    | _ => "bad-op"
  | "rages" :: rest =>
    match parseTree rest with
    | some (t, []) => out (fun r => fracs (byId r)) (resolveAges t)
    | _ => "bad-op"
  | "minmax" :: rest =>
    match parseTree rest with
    | some (t, []) => out (fun r => fracs [r.1, r.2]) (minmaxLeafDist t)
    | _ => "bad-op"
  | "lineages" :: d :: rest =>
    match Frac.parse d, parseTree rest with
    | some d, some (t, []) => out toString (numLineagesAt d t)
    | _, _ => "bad-op"
  | "length" :: rest =>
    match parseTree rest with
    | some (t, []) => "ok " ++ (C17.length t).render
    | _ => "bad-op"
  | "stat" :: name :: arg :: rest =>
    match parseTree rest with
    | some (t, []) =>
      match name with
      | "nbar" => out Frac.render (nBar t)
      | "sackin" => match parseNorm arg with
        | some n => out Frac.render (sackin n t)
        | none => "bad-op"
      | "colless" => match parseNorm arg with
        | some n => out Frac.render (colless n t)
        | none => "bad-op"
      | "collessyule" =>
        -- arg = `<ln n>,<Euler - 1 - ln 2>` as exact fractions: log is evaluated outside, the rational part here
        match (arg.splitOn ",").mapM Frac.parse with
        | some [lnN, k] => out Frac.render (collessYuleWith lnN k t)
        | _ => "bad-op"
      | "collessparts" => out (fun (p : Nat × Nat) => s!"{p.2} {p.1}") (collessAcc t)
      | "b1" => "ok " ++ (b1 t).render
      | "treeness" => out Frac.render (treeness t)
      | "gamma" => match parsePrecD gammaDefaultPrec arg with
        | some p => out Frac.render (gamma p t)
        | none => "bad-op"
      | "gammaparts" => match parsePrecD gammaDefaultPrec arg with
        | some p =>
          match calcNodeAges ⟨p, false, false⟩ t with
          | .error e => e.render
          | .ok a => out (fun (r : Frac × Frac × Nat) => s!"{r.1.render} {r.2.1.render} {r.2.2}") (gammaParts a)
        | none => "bad-op"
      | _ => "bad-op"
    | _ => "bad-op"
  | _ => "bad-op"

def main : IO Unit := do driverLoop (← IO.getStdin) handle
