import DendroModel.Model.C01
import DendroModel.Model.C01Canon
import DendroModel.Model.C01Ext
open DendroModel DendroModel.C01

def insertSortedPair (x : Nat × Int) : List (Nat × Int) → List (Nat × Int)
  | [] => [x]
  | y :: ys => if x.1 < y.1 || (x.1 == y.1 && x.2 ≤ y.2) then x :: y :: ys else y :: insertSortedPair x ys
def sortPairs (l : List (Nat × Int)) : List (Nat × Int) := l.foldr insertSortedPair []

def parseRooted (s : String) : Option (Option Bool) :=
  if s == "R" then some (some true) else if s == "U" then some (some false) else if s == "N" then some none else none

def b01 (b : Bool) : String := if b then "1" else "0"

/-- steps of a `hist` line: `c <sup> <col>` | `e <tree>` | `q <updated> <split>`; fuel = number of tokens -/
def parseSteps : Nat → List String → Option (List HOp)
  | _, [] => some []
  | 0, _ => none
  | fuel + 1, "c" :: sup :: col :: rest => (parseSteps fuel rest).map (fun l => HOp.encode (sup == "1") (col == "1") :: l)
  | fuel + 1, "q" :: u :: s :: rest =>
    match s.toInt? with
    | some s => (parseSteps fuel rest).map (fun l => HOp.query (u == "1") s :: l)
    | none => none
  | fuel + 1, "e" :: rest =>
    match parseTree rest with
    | some (t, rest') => (parseSteps fuel rest').map (fun l => HOp.edit t :: l)
    | none => none
  | _, _ => none

/-- the observable after every step of a history: the answer (queries) and the tree as it stands -/
def showSteps (o : TreeObj) : List HOp → List String
  | [] => []
  | op :: ops =>
    let r := hstep o op
    let s := match op with
      | .encode _ _ => "c@" ++ r.1.tree.render
      | .edit _ => "e"
      | .query _ _ => (match r.2 with | some b => b01 b | none => "?") ++ "@" ++ r.1.tree.render
    s :: showSteps r.1 ops

def handle (ws : List String) : String :=
  match ws with
  -- encode <R|U|N> <suppress> <collapse> <tree>  ->  sorted leafset:split pairs | tree after side effects
  | "encode" :: r :: sup :: col :: rest =>
    match parseRooted r, parseTree rest with
    | some r, some (t, []) =>
      let pairs := sortPairs (encode r (sup == "1") (col == "1") t)
      " ".intercalate (pairs.map (fun p => s!"{p.1}:{p.2}")) ++ " | " ++ (encodeTree r (sup == "1") (col == "1") t).render
    | _, _ => "bad-op"
  -- build <all> <rooted 0/1> <k> <member bits…> <splits…>
  | "build" :: all :: r :: k :: rest =>
    match all.toNat?, k.toNat?, rest.mapM String.toNat? with
    | some all, some k, some xs => Hier.render (build all (xs.take k) (r == "1") (xs.drop k))
    | _, _, _ => "bad-op"
  -- pred <m1> <m2> <fill>  (any integers)  ->  trivial(m1,fill) compatible(m1,m2,fill) nested(m1 within m2)
  | ["pred", a, b, f] =>
    match a.toInt?, b.toInt?, f.toInt? with
    | some a, some b, some f => s!"{b01 (isTrivial a f)} {b01 (isCompatible a b f)} {b01 (isNested a b f)}"
    | _, _, _ => "bad-op"
  -- pyint <a> <b> <k>: the translator's operator mapping  ->  a&b a|b a^b ~a a<<k normalize(a,b,k') lsb(a)
  | ["pyint", a, b, k] =>
    match a.toInt?, b.toInt?, k.toNat? with
    | some a, some b, some k =>
      s!"{pyAnd a b} {pyOr a b} {pyXor a b} {pyNot a} {pyShl a k} {PyBits.normalize_bitmask a b (k : Int)} {PyBits.least_significant_set_bit a}"
    | _, _, _ => "bad-op"
  -- compat <R|U|N> <split> <tree>: Tree.is_compatible_with_bipartition (default flags)
  | "compat" :: r :: s :: rest =>
    match parseRooted r, s.toInt?, parseTree rest with
    | some r, some s, some (t, []) =>
      let enc := encode r true true t
      b01 (treeCompatible enc (encodeTree r true true t).mask s)
    | _, _, _ => "bad-op"
  -- ucanon <tree>: the unrooted topology as the canonical tree seeded next to the lowest leaf, children sorted
  | "ucanon" :: rest =>
    match parseTree rest with
    | some (t, []) => ucanon t
    | _ => "bad-op"
  -- ucanon2 <tree>: the same canonical unrooted tree, children in mask order, printed structurally (`ucanonT`)
  -- bip <rooted 0/1> <a> <b> <fill>: the two Bipartition objects compiled from raw leafsets a, b on tree leafset fill (≠ 0):
  --   leafset_a split_a leafset_b split_b nested_within(a,b) nested_within(a,b,masked) normalize(a,lsb0) normalize(a,lsb1)
  --   is_compatible_with(a,b) is_trivial(a) is_leafset_nested_within(a,b)
  | ["bip", r, a, b, f] =>
    match a.toInt?, b.toInt?, f.toInt? with
    | some a, some b, some f =>
      if f == 0 then "undef" else
      let rt := r == "1"
      let x := compileBip rt f a
      let y := compileBip rt f b
      let lo := PyBits.least_significant_set_bit f
      s!"{x.1} {x.2} {y.1} {y.2} {b01 (nestedWithin rt false x.1 x.2 y.1 y.2 f)} {b01 (nestedWithin rt true x.1 x.2 y.1 y.2 f)} {normalizeConv false a f lo} {normalizeConv true a f lo} {b01 (isCompatible x.2 y.2 f)} {b01 (isTrivial x.2 f)} {b01 (isNested x.1 y.1 f)}"
    | _, _, _ => "bad-op"
  -- bits <s> <fill> <one_based> <ordination_in_mask>: bitprocessing.indexes_of_set_bits
  | ["bits", s, f, ob, om] =>
    match s.toInt?, f.toInt? with
    | some s, some f => ",".intercalate ((indexesOfSetBits s f (ob == "1") (om == "1")).map toString)
    | _, _ => "bad-op"
  -- nsmask <accession count> <index>: TaxonNamespace.all_taxa_bitmask, taxon_bitmask
  | ["nsmask", c, i] =>
    match c.toNat?, i.toNat? with
    | some c, some i => s!"{allMask c} {taxonBit i}"
    | _, _ => "bad-op"
  -- hist <R|U|N> <tree> <steps…>: encode / edit / query histories, the observable after every step
  | "hist" :: r :: rest =>
    match parseRooted r, parseTree rest with
    | some r, some (t, steps) =>
      match parseSteps steps.length steps with
      | some ops => " ; ".intercalate (showSteps { tree := t, rooted := r, stored := none } ops)
      | none => "bad-op"
    | _, _ => "bad-op"
  -- maint <R|U|N> <col> <tree>: encode(suppress_unifurcations=False, collapse=col) with edge ids | after
  --   suppress_unifurcations(update_bipartitions=True): tree | stored (id:leafset:split …) | split_bitmask_edge_map (split:id, sorted)
  | "maint" :: r :: col :: rest =>
    match parseRooted r, parseTree rest with
    | some r, some (t, []) =>
      let enc := encodeIds r false (col == "1") t
      let res := suppressMaint (encodeTree r false (col == "1") t) enc
      let showE := fun (l : List (Nat × Nat × Int)) => " ".intercalate (l.map (fun e => s!"{e.1}:{e.2.1}:{e.2.2}"))
      let m := sortPairs ((edgeMap res.2).map (fun p => (p.2, p.1)))
      showE enc ++ " | " ++ res.1.render ++ " | " ++ showE res.2 ++ " | " ++ " ".intercalate (m.map (fun p => s!"{p.2}:{p.1}"))
    | _, _ => "bad-op"
  | "ucanon2" :: rest =>
    match parseTree rest with
    | some (t, []) => ucanon2 t
    | _ => "bad-op"
  | _ => "bad-op"

def main : IO Unit := do driverLoop (← IO.getStdin) handle
