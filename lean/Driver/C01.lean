import DendroModel.Model.C01
import DendroModel.Model.C01Canon
open DendroModel DendroModel.C01

def insertSortedPair (x : Nat × Int) : List (Nat × Int) → List (Nat × Int)
  | [] => [x]
  | y :: ys => if x.1 < y.1 || (x.1 == y.1 && x.2 ≤ y.2) then x :: y :: ys else y :: insertSortedPair x ys
def sortPairs (l : List (Nat × Int)) : List (Nat × Int) := l.foldr insertSortedPair []

def parseRooted (s : String) : Option (Option Bool) :=
  if s == "R" then some (some true) else if s == "U" then some (some false) else if s == "N" then some none else none

def b01 (b : Bool) : String := if b then "1" else "0"

def handle (ws : List String) : String :=
  match ws with
  -- encode <R|U|N> <suppress> <collapse> <tree>  ->  sorted leafset:split pairs | tree after side effects
  | "encode" :: r :: sup :: col :: rest =>
    match parseRooted r, parseTree rest with
    | some r, some (t, []) =>
      let pairs := sortPairs (encode r (sup == "1") (col == "1") t)
      " ".intercalate (pairs.map (fun p => s!"{p.1}:{p.2}")) ++ " | " ++ (encodeTree r (sup == "1") (col == "1") t).render
    | _, _ => "bad-op"
  -- build <all> <rooted 0/1> <k> <member bits…> <splits…>
  | "build" :: all :: r :: k :: rest =>
    match all.toNat?, k.toNat?, rest.mapM String.toNat? with
    | some all, some k, some xs => Hier.render (build all (xs.take k) (r == "1") (xs.drop k))
    | _, _, _ => "bad-op"
  -- pred <m1> <m2> <fill>  (any integers)  ->  trivial(m1,fill) compatible(m1,m2,fill) nested(m1 within m2)
  | ["pred", a, b, f] =>
    match a.toInt?, b.toInt?, f.toInt? with
    | some a, some b, some f => s!"{b01 (isTrivial a f)} {b01 (isCompatible a b f)} {b01 (isNested a b f)}"
    | _, _, _ => "bad-op"
  -- pyint <a> <b> <k>: the translator's operator mapping  ->  a&b a|b a^b ~a a<<k normalize(a,b,k') lsb(a)
  | ["pyint", a, b, k] =>
    match a.toInt?, b.toInt?, k.toNat? with
    | some a, some b, some k =>
      s!"{pyAnd a b} {pyOr a b} {pyXor a b} {pyNot a} {pyShl a k} {PyBits.normalize_bitmask a b (k : Int)} {PyBits.least_significant_set_bit a}"
    | _, _, _ => "bad-op"
  -- compat <R|U|N> <split> <tree>: Tree.is_compatible_with_bipartition (default flags)
  | "compat" :: r :: s :: rest =>
    match parseRooted r, s.toInt?, parseTree rest with
    | some r, some s, some (t, []) =>
      let enc := encode r true true t
      b01 (treeCompatible enc (encodeTree r true true t).mask s)
    | _, _, _ => "bad-op"
  -- ucanon <tree>: the unrooted topology as the canonical tree seeded next to the lowest leaf, children sorted
  | "ucanon" :: rest =>
    match parseTree rest with
    | some (t, []) => ucanon t
    | _ => "bad-op"
  -- ucanon2 <tree>: the same canonical unrooted tree, children in mask order, printed structurally (`ucanonT`)
  | "ucanon2" :: rest =>
    match parseTree rest with
    | some (t, []) => ucanon2 t
    | _ => "bad-op"
  | _ => "bad-op"

def main : IO Unit := do driverLoop (← IO.getStdin) handle
