import DendroModel.Basic.Tree
open DendroModel

def handle (ws : List String) : String :=
  match ws with
  | _ => "bad-op"

def main : IO Unit := do driverLoop (← IO.getStdin) handle
