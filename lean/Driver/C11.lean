import DendroModel.Model.C11
open DendroModel DendroModel.C11

/-- `=` empty list, else comma-separated; `-` entries are `none` -/
def parseONats (s : String) : Option (List (Option Nat)) :=
  if s == "=" then some []
  else (s.splitOn ",").mapM (fun x => if x == "-" then some none else x.toNat?.map some)

def parseNats (s : String) : Option (List Nat) :=
  if s == "=" then some [] else (s.splitOn ",").mapM String.toNat?

def parseONat (s : String) : Option (Option Nat) :=
  if s == "-" then some none else s.toNat?.map some

def parseLabels (s : String) : Option (List String) :=
  if s == "=" then some []
  else (s.splitOn ",").mapM (fun x => match decodeStr x with | some (some l) => some l | _ => none)

def parseDocs (s : String) : Option (List (List String)) :=
  if s == "=" then some [] else (s.splitOn "/").mapM parseLabels

def parseStrat (s : String) : Option Strat :=
  if s == "migrate" then some .migrate else if s == "add" then some .add else none

def parseBool (s : String) : Option Bool :=
  if s == "1" then some true else if s == "0" then some false else none

def parseSrc (kind arg : String) : Option Src :=
  if kind == "L" then arg.toNat?.map Src.list
  else if kind == "t" then (parseNats arg).map Src.trees
  else none

/-- `t.3.1.1` = tree 3 into namespace 1 with unify; items separated by `,` -/
def parseMig (w : String) : Option Mig :=
  match w.splitOn "." with
  | [k, o, n, u] => do
    let kind ← if k == "t" then some MigKind.tree else if k == "l" then some MigKind.list else if k == "m" then some MigKind.mat else none
    some { kind := kind, obj := (← o.toNat?), ns := (← n.toNat?), unify := (← parseBool u) }
  | _ => none

def parseOp (ws : List String) : Option Op :=
  match ws with
  | ["ns", cs, labs] => do some (.ns (← parseBool cs) (← parseLabels labs))
  | ["tree", n, taxa] => do some (.tree (← n.toNat?) (← parseONats taxa))
  | ["tlist", n] => do some (.tlist (← parseONat n))
  | ["mat", n, idx] => do some (.mat (← n.toNat?) (← parseNats idx))
  | ["ds"] => some .ds
  | ["append", l, t, st] => do some (.append (← l.toNat?) (← t.toNat?) (← parseStrat st))
  | ["insert", l, i, t, st] => do some (.insert (← l.toNat?) (← i.toNat?) (← t.toNat?) (← parseStrat st))
  | ["setitem", l, i, t] => do some (.setitem (← l.toNat?) (← i.toNat?) (← t.toNat?))
  | ["setslice", l, a, b, kind, arg] => do some (.setslice (← l.toNat?) (← a.toNat?) (← b.toNat?) (← parseSrc kind arg))
  | ["extend", l, kind, arg] => do some (.extend (← l.toNat?) (← parseSrc kind arg))
  | ["iadd", l, kind, arg] => do some (.extend (← l.toNat?) (← parseSrc kind arg))
  | ["add", l, kind, arg] => do some (.add (← l.toNat?) (← parseSrc kind arg))
  | ["read", l, docs] => do some (.read (← l.toNat?) (← parseDocs docs))
  | ["newtree", l, t] => do some (.newtree (← l.toNat?) (← parseONat t))
  | ["getslice", l, a, b] => do some (.getslice (← l.toNat?) (← a.toNat?) (← b.toNat?))
  | ["pop", l, i] => do some (.pop (← l.toNat?) (← i.toNat?))
  | ["remove", l, t] => do some (.remove (← l.toNat?) (← t.toNat?))
  | ["lclone", l, n] => do some (.lclone (← l.toNat?) (← parseONat n))
  | ["tclone", t, n] => do some (.tclone (← t.toNat?) (← parseONat n))
  | ["mclone", m, n] => do some (.mclone (← m.toNat?) (← parseONat n))
  | ["tmig", t, n, u] => do some (.tmig (← t.toNat?) (← n.toNat?) (← parseBool u))
  | ["trec", t, u] => do some (.trec (← t.toNat?) (← parseBool u))
  | ["lmig", l, n, u] => do some (.lmig (← l.toNat?) (← n.toNat?) (← parseBool u))
  | ["lrec", l, u] => do some (.lrec (← l.toNat?) (← parseBool u))
  | ["mmig", m, n, u] => do some (.mmig (← m.toNat?) (← n.toNat?) (← parseBool u))
  | ["mrec", m, u] => do some (.mrec (← m.toNat?) (← parseBool u))
  | ["mset", m, n, i] => do some (.mset (← m.toNat?) (← n.toNat?) (← i.toNat?))
  | ["mnew", m, n, i] => do some (.mnew (← m.toNat?) (← n.toNat?) (← i.toNat?))
  | ["dsadd", d, "n", i] => do some (.dsaddN (← d.toNat?) (← i.toNat?))
  | ["dsadd", d, "l", i] => do some (.dsaddL (← d.toNat?) (← i.toNat?))
  | ["dsadd", d, "m", i] => do some (.dsaddM (← d.toNat?) (← i.toNat?))
  | ["dsnewlist", d] => do some (.dsnewlist (← d.toNat?))
  | ["dsnewmat", d] => do some (.dsnewmat (← d.toNat?))
  | ["dsnewns", d] => do some (.dsnewns (← d.toNat?))
  | ["dsattach", d, n] => do some (.dsattach (← d.toNat?) (← n.toNat?))
  | ["dsdetach", d] => do some (.dsdetach (← d.toNat?))
  | ["dsunify", d, n] => do some (.dsunify (← d.toNat?) (← parseONat n))
  | ["dsread", d, taxa, rows, trees] => do
    let rows ← if rows == "-" then some none else (parseLabels rows).map some
    let trees ← if trees == "-" then some none else (parseDocs trees).map some
    some (.dsread (← d.toNat?) (← parseLabels taxa) rows trees)
  | ["newtreeseed", l, t] => do some (.newtreeseed (← l.toNat?) (← t.toNat?))
  | ["treeseed", n, t] => do some (.treeseed (← parseONat n) (← t.toNat?))
  | ["readx", l, pre, docs] => do some (.readx (← l.toNat?) (← parseLabels pre) (← parseDocs docs))
  | ["tlget", n, pre, docs] => do some (.tlget (← n.toNat?) (← parseLabels pre) (← parseDocs docs))
  | ["tget", n, pre, labs] => do some (.tget (← n.toNat?) (← parseLabels pre) (← parseLabels labs))
  | ["mget", n, last, pre, rows] => do some (.mget (← n.toNat?) (← parseBool last) (← parseLabels pre) (← parseLabels rows))
  | ["chain", gs] => do some (.chain (← if gs == "=" then some [] else (gs.splitOn ",").mapM parseMig))
  | ["tassign", t, n, a] => do some (.tassign (← t.toNat?) (← n.toNat?) (← parseBool a))
  | ["lassign", l, n, a] => do some (.lassign (← l.toNat?) (← n.toNat?) (← parseBool a))
  | ["massign", m, n, a] => do some (.massign (← m.toNat?) (← n.toNat?) (← parseBool a))
  | ["mcomb", m, m2, a] => do some (.mcomb (← m.toNat?) (← m2.toNat?) (← parseBool a))
  | ["setslicegen", l, a, b, ts] => do some (.setslicegen (← l.toNat?) (← a.toNat?) (← b.toNat?) (← parseNats ts))
  | ["tpurge", t] => do some (.tpurge (← t.toNat?))
  | ["lpurge", l] => do some (.lpurge (← l.toNat?))
  | ["mpurge", m] => do some (.mpurge (← m.toNat?))
  | ["taadd", n, t] => do some (.taadd (← n.toNat?) (← t.toNat?))
  | _ => none

/-- split the token list at `;` -/
def splitOps : List String → List String → List (List String)
  | [], acc => if acc.isEmpty then [] else [acc.reverse]
  | ";" :: rest, acc => acc.reverse :: splitOps rest []
  | w :: rest, acc => splitOps rest (w :: acc)

def handle (ws : List String) : String :=
  match ws with
  | "hist" :: rest =>
    match (splitOps rest []).mapM parseOp with
    | some ops => " | ".intercalate (trace init ops)
    | none => "bad-op"
  | _ => "bad-op"

def main : IO Unit := do driverLoop (← IO.getStdin) handle
