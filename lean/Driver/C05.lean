import DendroModel.Model.C05
open DendroModel DendroModel.C05

def parseRooted (s : String) : Option (Option Bool) :=
  if s == "R" then some (some true) else if s == "U" then some (some false) else if s == "N" then some none else none

def parseRat (s : String) : Option Rat := (Frac.parse s).map C04.fracToRat
def parseORat (s : String) : Option (Option Rat) := if s == "N" then some none else (parseRat s).map some
def rr := C04.renderRat

/-- one tree record: `<R|U|N> <weight|N> <tree>` -/
def parseTreeRec (ws : List String) : Option (TreeRec × List String) :=
  match ws with
  | r :: w :: rest =>
    match parseRooted r, parseORat w, parseTree rest with
    | some r, some w, some (t, rest') => some (treeRecOf r w t, rest')
    | _, _, _ => none
  | _ => none

def parseTreeRecs : Nat → List String → Option (List TreeRec × List String)
  | 0, ws => some ([], ws)
  | n + 1, ws =>
    match parseTreeRec ws with
    | some (t, rest) =>
      match parseTreeRecs n rest with
      | some (ts, rest') => some (t :: ts, rest')
      | none => none
    | none => none

/-- events of a history: `A <tree record>` | `X <tree record>` (refused offer) | `M <k> <k tree records>` (update from a distribution of k trees) | `F <split>` | `S <split>` | `G` -/
def parseEvs : Nat → List String → Option (List Ev)
  | 0, ws => if ws.isEmpty then some [] else none
  | n + 1, ws =>
    match ws with
    | "A" :: rest =>
      match parseTreeRec rest with
      | some (t, rest') => (parseEvs n rest').map (fun es => Ev.add t :: es)
      | none => none
    | "F" :: s :: rest => match s.toInt? with
      | some s => (parseEvs n rest).map (fun es => Ev.freq s :: es)
      | none => none
    | "S" :: s :: rest => match s.toInt? with
      | some s => (parseEvs n rest).map (fun es => Ev.summ s :: es)
      | none => none
    | "G" :: rest => (parseEvs n rest).map (fun es => Ev.ages :: es)
    | "M" :: k :: rest =>
      match k.toNat? with
      | some k => match parseTreeRecs k rest with
        | some (ts, rest') => (parseEvs n rest').map (fun es => Ev.merge ts :: es)
        | none => none
      | none => none
    | "X" :: rest =>
      match parseTreeRec rest with
      | some (t, rest') => (parseEvs n rest').map (fun es => Ev.refused t :: es)
      | none => none
    | _ => none

def renderStats (st : Stats) : String :=
  s!"{st.n},{rr st.mean},{rr st.median},{rr st.lo},{rr st.hi}," ++ (match st.var with | some v => rr v | none => "inf")

def renderAns : Ans → String
  | .freq q => rr q
  | .summ none => "-"
  | .summ (some st) => renderStats st

def insertSortedPair (x : Int × Rat) : List (Int × Rat) → List (Int × Rat)
  | [] => [x]
  | y :: ys => if x.1 ≤ y.1 then x :: y :: ys else y :: insertSortedPair x ys

def optNat : Option Nat → String | none => "-" | some n => toString n

def parseMode (s : String) : Option EdgeMode :=
  if s == "keep" then some .keep else if s == "support" then some .support else if s == "clear" then some .clear
  else if s == "mean-length" then some .meanLen else if s == "median-length" then some .medianLen else none

def renderAnn (a : NodeAnn) : String :=
  s!"{a.id};{a.split};{rr a.support};" ++ (a.label.getD "-") ++ ";" ++ (match a.length with | none => "N" | some l => rr l) ++ ";"
    ++ (match a.summary with | none => "none" | some none => "-" | some (some st) => renderStats st)

def handle (ws : List String) : String :=
  match ws with
  | "summ" :: useW :: mf :: incl :: all :: k :: rest =>
    match parseORat mf, all.toNat?, k.toNat? with
    | some mf, some all, some k =>
      match (rest.take k).mapM String.toNat?, (rest.drop k) with
      | some members, n :: rest2 =>
        match n.toNat? with
        | some n =>
          match parseTreeRecs n rest2 with
          | some (ts, []) =>
            let sd := countAll (useW == "1") ts
            let fs := (sd.counts.map (fun p => (p.1, freq sd p.1))).foldr insertSortedPair []
            let crooted := consensusRooted sd
            let cons := consensus sd mf all members crooted
            let sums := ts.map (sumSupport sd (incl == "1"))
            let prods := ts.map (prodSupport sd (incl == "1"))
            let lens := (sd.lengths.map (fun p => (p.1, p.2))).foldr
              (fun x acc => x :: acc) []
            "freqs " ++ " ".intercalate (fs.map (fun p => s!"{p.1}:{rr p.2}"))
              ++ " | cons " ++ Hier.render cons ++ " | crooted " ++ (if crooted then "1" else "0")
              ++ " | sums " ++ " ".intercalate (sums.map rr)
              ++ " | prods " ++ " ".intercalate (prods.map rr)
              ++ " | argsum " ++ optNat (mccSum sd (incl == "1") ts)
              ++ " | argprod " ++ optNat (mccProd sd (incl == "1") ts)
              ++ " | mcctrees " ++ (match mccTree (mccSum sd (incl == "1") ts) all members crooted ts with | some h => Hier.render h | none => "-")
              ++ " " ++ (match mccTree (mccProd sd (incl == "1") ts) all members crooted ts with | some h => Hier.render h | none => "-")
              ++ " | lens " ++ " ".intercalate (lens.map (fun p => s!"{p.1}:" ++ renderStats (stats p.2)))
          | _ => "bad-trees"
        | none => "bad-op"
      | _, _ => "bad-op"
    | _, _, _ => "bad-op"
  | "collapse" :: useW :: mf :: n :: rest =>
    match parseRat mf, n.toNat? with
    | some mf, some n =>
      match parseTreeRecs n rest with
      | some (ts, r :: rest2) =>
        match parseRooted r, parseTree rest2 with
        | some r, some (t, []) =>
          -- thresholds <= 0 are outside the model (the code flags a split ABSENT from the table whatever the threshold)
          if mf ≤ 0 then "bad-threshold" else
          match collapseCall (countAll (useW == "1") ts) mf r t with
          | none => "E"
          | some t' => t'.render
        | _, _ => "bad-target"
      | _ => "bad-trees"
    | _, _ => "bad-op"
  | "hist" :: useW :: n :: rest =>
    -- one SplitDistribution over a history of additions and queries: the answers seen through the caches
    match n.toNat? with
    | some n =>
      match parseEvs n rest with
      | some evs => " ".intercalate ((Cached.run { sd := { useWeights := useW == "1" } } evs).map renderAns)
      | none => "bad-events"
    | none => "bad-op"
  | "annot" :: useW :: pct :: n :: rest =>
    -- supports written on the nodes of a target tree (post-order of its default encoding): `split:support`
    match n.toNat? with
    | some n =>
      match parseTreeRecs n rest with
      | some (ts, r :: rest2) =>
        match parseRooted r, parseTree rest2 with
        | some r, some (t, []) =>
          let sd := countAll (useW == "1") ts
          " ".intercalate ((C04.edgeRecs r t).map (fun e => s!"{e.split}:{rr (supportOf sd (pct == "1") e.split)}"))
        | _, _ => "bad-target"
      | _ => "bad-trees"
    | none => "bad-op"
  | "annot2" :: useW :: pct :: lab :: dec :: mode :: minl :: n :: rest =>
    -- everything one summarising call writes on the nodes of a target (pre-order of its default encoding):
    -- `id;split;support;label|-;length|N;none|-|summary`, or `E` when the call refuses
    match n.toNat?, dec.toNat?, parseORat minl, parseMode mode with
    | some n, some dec, some minl, some mode =>
      match parseTreeRecs n rest with
      | some (ts, r :: rest2) =>
        match parseRooted r, parseTree rest2 with
        | some r, some (t, []) =>
          let sd := countAll (useW == "1") ts
          let o : SummOpts := { pct := pct == "1", label := lab == "1", decimals := dec, mode := mode, minLen := minl }
          match annotate sd o r t with
          | none => "E"
          | some anns => " ".intercalate (anns.map renderAnn)
        | _, _ => "bad-target"
      | _ => "bad-trees"
    | _, _, _, _ => "bad-op"
  | _ => "bad-op"

def main : IO Unit := do driverLoop (← IO.getStdin) handle
