import DendroModel.Model.C15
open DendroModel DendroModel.C15

/-- filter field: `*` no filter, `-` empty set, else comma-separated ids -/
def parseFilt (s : String) : Option (T → Bool) :=
  if s == "*" then some (fun _ => true)
  else if s == "-" then some (fun _ => false)
  else match (s.splitOn ",").mapM String.toNat? with
    | some ids => some (fun t => ids.contains t.id)
    | none => none

def ids (l : List T) : String := natList (l.map T.id)

def evs (l : List Ev) : String :=
  " ".intercalate (l.map fun
    | .before i => s!"b{i}"
    | .after i => s!"a{i}"
    | .leaf i => s!"l{i}")

def handle (ws : List String) : String :=
  match ws with
  | "iter" :: kind :: start :: excl :: filt :: ages :: rest =>
    match start.toNat?, parseFilt filt, parseTree rest with
    | some start, some keep, some (tree, []) =>
      match tree.find? start with
      | none => "bad-start"
      | some t =>
        let hasParent := start != tree.id
        let ex := excl == "1"
        match kind with
        | "pre" => ids (preIter keep t)
        | "post" => ids (postIter keep t)
        | "level" => ids (levelIter keep t)
        | "leaf" => ids (leafIter keep t)
        | "in" => match inIter keep t with
          | some l => ids l
          | none => "TypeError"
        | "preint" => ids (preIter (internalKeep ex t.id hasParent keep) t)
        | "postint" => ids (postIter (internalKeep ex t.id hasParent keep) t)
        | "preedge" => ids ((preEdgeIter (fun e => keep e.head) t).map E.head)
        | "postedge" => ids ((postEdgeIter (fun e => keep e.head) t).map E.head)
        | "preintedge" => ids ((preEdgeIter (fun e => internalKeep ex t.id hasParent keep e.head) t).map E.head)
        | "postintedge" => ids ((postEdgeIter (fun e => internalKeep ex t.id hasParent keep e.head) t).map E.head)
        | "apply" => evs (applyTrace t)
        | "len" => toString (lenTree t)
        | "ageasc" | "agedesc" | "ageascint" | "agedescint" =>
          match (ages.splitOn ",").mapM Frac.parse with
          | some as =>
            let arr := as.toArray
            let age := fun (x : T) => arr[x.id]!
            ids (ageIter age (kind == "agedesc" || kind == "agedescint") (kind == "ageasc" || kind == "agedesc") keep t)
          | none => "bad-ages"
        | _ => "bad-kind"
    | _, _, _ => "bad-op"
  | _ => "bad-op"

def main : IO Unit := do driverLoop (← IO.getStdin) handle
