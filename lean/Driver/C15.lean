import DendroModel.Model.C15
import DendroModel.Model.C15Ext
import DendroModel.Model.C15Nbr
import DendroModel.Model.C15Calls
import DendroModel.Model.C15Gen
open DendroModel DendroModel.C15

/-- filter field: `*` no filter, `-` empty set, else comma-separated ids -/
def parseFiltN (s : String) : Option (Nat → Bool) :=
  if s == "*" then some (fun _ => true)
  else if s == "-" then some (fun _ => false)
  else match (s.splitOn ",").mapM String.toNat? with
    | some ids => some (fun i => ids.contains i)
    | none => none

def parseFilt (s : String) : Option (T → Bool) := (parseFiltN s).map (fun k t => k t.id)

def parseFlag (s : String) : Option Bool :=
  if s == "1" then some true else if s == "0" then some false else none

def ids (l : List T) : String := natList (l.map T.id)
def eids (l : List E) : String := natList (l.map fun e => e.head.id)

def optId : Option T → String
  | some x => toString x.id
  | none => "-"

def opts (l : List (Option Nat)) : String :=
  " ".intercalate (l.map fun | some i => toString i | none => "-")

def evs (l : List Ev) : String :=
  " ".intercalate (l.map fun
    | .before i => s!"b{i}"
    | .after i => s!"a{i}"
    | .leaf i => s!"l{i}")

/-- `iter <kind> <start id> <det> <excl> <incl> <filter> <ages> <tree…>`
`det` = the start node has been spliced out of its parent (it is the seed of its own `Tree`),
`excl` = exclude_seed_node/edge, `incl` = `inclusive` of `ancestor_iter` -/
def handle (ws : List String) : String :=
  match ws with
  | "iter" :: kind :: start :: det :: excl :: incl :: filt :: ages :: rest =>
    match start.toNat?, parseFlag det, parseFlag excl, parseFlag incl, parseFilt filt, parseTree rest with
    | some start, some det, some ex, some inc, some keep, some (tree, []) =>
      match tree.find? start with
      | none => "bad-start"
      | some t =>
        let hasParent := start != tree.id && !det
        let ekeep := fun (e : E) => keep e.head
        match kind with
        | "pre" => ids (preIter keep t)
        | "post" => ids (postIter keep t)
        | "level" => ids (levelIter keep t)
        | "leaf" => ids (leafIter keep t)
        | "in" => match inRun keep t with
          | some l => ids l
          | none => "TypeError"
        | "preint" => ids (preIter (internalKeep ex t.id hasParent keep) t)
        | "postint" => ids (postIter (internalKeep ex t.id hasParent keep) t)
        | "preedge" => eids (preEdgeIter ekeep t)
        | "postedge" => eids (postEdgeIter ekeep t)
        | "preintedge" => eids (preEdgeIter (fun e => internalKeep ex t.id hasParent keep e.head) t)
        | "postintedge" => eids (postEdgeIter (fun e => internalKeep ex t.id hasParent keep e.head) t)
        | "leveledge" => eids (levelEdgeIter ekeep t)
        | "leafedge" => eids (leafEdgeIter ekeep t)
        | "inedge" => match inEdgeIter ekeep t with
          | some l => eids l
          | none => "TypeError"
        | "anc" => match ancIter keep inc tree start with
          | some l => ids l
          | none => "bad-start"
        | "ancptr" => match parsePar rest, parseFiltN filt with
          | some par, some keepN => natList (ancPtrIter keepN inc par tree.size start)
          | _, _ => "bad-op"
        | "callspre" => ids (shownL (preIterE (fun _ => true) keep t))
        | "callspost" => ids (shownL (postIterE (fun _ => true) keep t))
        | "callslevel" => ids (shownL (levelIterE (fun _ => true) keep t))
        | "callsleaf" => ids (shownL (leafIterE keep t))
        | "callspreint" => ids (shownL (preIterE (internalGuard ex t.id hasParent) keep t))
        | "callspostint" => ids (shownL (postIterE (internalGuard ex t.id hasParent) keep t))
        | "callschildren" => ids (shownL (childRunE keep t.cs))
        | "children" => ids (childIter keep t)
        | "childedges" => eids (childEdgeIter ekeep t)
        | "incident" => eids (incidentEdges t)
        | "adjacent" => match adjacentNodes tree start det with
          | some l => ids l
          | none => "bad-start"
        | "siblings" => match siblingNodes tree start det with
          | some l => ids l
          | none => "bad-start"
        | "adjacentptr" => match parsePar rest with
          | some par => if det then "bad-op" else natList (adjacentPtr par start)
          | none => "bad-op"
        | "siblingsptr" => match parsePar rest with
          | some par => if det then "bad-op" else natList (siblingPtr par start)
          | none => "bad-op"
        | "findnode" => optId (findNode keep t)
        | "findnodes" => ids (findNodes keep t)
        | "findlabel" => match decodeStr ages with
          | some (some lab) => optId (findLabel lab t)
          | _ => "bad-op"
        | "findtaxlabel" => match parseFiltN ages with
          | some q => optId (findTaxonPre q t)
          | none => "bad-op"
        | "findtaxon" => if ages == "-" then "-" else match ages.toNat? with
          | some k => optId (findTaxonPost k t)
          | none => "bad-op"
        | "nodes" => ids (treeNodes keep t)
        | "leafnodes" => ids (treeLeafNodes t)
        | "internalnodes" => if hasParent then "bad-start" else ids (treeInternalNodes ex t)
        | "edges" => eids (treeEdges ekeep t)
        | "leafedges" => eids (treeLeafEdges t)
        | "internaledges" => if hasParent then "bad-start" else eids (treeInternalEdges ex t)
        | "apply" => evs (applyTrace t)
        | "applyzip" => evs (applyZipTrace t)
        | "applyptr" => match parsePar rest with
          | some par => evs (applyPtrTrace par start)
          | none => "bad-op"
        | "levelgen" => match parsePar rest, ages.toNat? with
          | some par, some k => opts (lvSolo (heapOf par) ⟨0, .init start⟩ k)
          | _, _ => "bad-op"
        | "gensched" => match parsePar rest, ages.splitOn ":" with
          | some par, [kinds, b, sched] => match b.toNat?, kinds.toList with
            | some b, [k1, k2] =>
              let nx := fun (c : Char) => if c == 'p' then some pvNext else if c == 'l' then some lvNext
                else if c == 'o' then some (poNext (2 * par.size + 2)) else if c == 'f' then some (lfNext (2 * par.size + 2)) else none
              match nx k1, nx k2 with
              | some n1, some n2 =>
                if (tree.find? b).isNone then "bad-start" else
                " ".intercalate ((gSched n1 n2 (heapOf par) ⟨0, .init start⟩ ⟨1, .init b⟩ (sched.toList.map (· == '1'))).map
                  fun e => (if e.1 then "1:" else "0:") ++ (match e.2 with | some i => toString i | none => "-"))
              | _, _ => "bad-op"
            | _, _ => "bad-op"
          | _, _ => "bad-op"
        | "levelsched" => match parsePar rest, ages.splitOn ":" with
          | some par, [b, sched] => match b.toNat? with
            | some b =>
              if (tree.find? b).isNone then "bad-start" else
              " ".intercalate ((lvSched (heapOf par) ⟨0, .init start⟩ ⟨1, .init b⟩ (sched.toList.map (· == '1'))).map
                fun e => (if e.1 then "1:" else "0:") ++ (match e.2 with | some i => toString i | none => "-"))
            | none => "bad-op"
          | _, _ => "bad-op"
        | "len" => toString (lenTree t)
        | "ageasc" | "agedesc" | "ageascint" | "agedescint" =>
          match (ages.splitOn ",").mapM Frac.parse with
          | some as =>
            if !(tree.nodes.all (fun x => x.id < as.length)) then "bad-ages" else
            ids (ageIter (ageOf as) (kind == "agedesc" || kind == "agedescint") (kind == "ageasc" || kind == "agedesc") keep t)
          | none => "bad-ages"
        | _ => "bad-kind"
    | _, _, _, _, _, _ => "bad-op"
  | _ => "bad-op"

def main : IO Unit := do driverLoop (← IO.getStdin) handle
