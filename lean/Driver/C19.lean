import DendroModel.Model.C19Ext
import DendroModel.Model.C19Heap
import DendroModel.Model.C19Seq
open DendroModel DendroModel.C19

/-! line protocol of `drv_c19`.
matrix  := ns ntaxa t_1 … t_ntaxa label nrows { taxon ncells c_1 … } nsubs { label k i_1 … i_k }
           (label: hex6, `-` = None, `=` = empty; rows in dict insertion order)
ops     := concat n M_1 … M_n | export_idx M k i_1 … i_k | export_sub M label
         | fill M value size|N append | fill_taxa M | pack M value size|N append
         | add|replace|update|extend|extend_new|extend_matrix M O
         | remove|discard|keep M k t_1 … t_k
         | new_subset M label k i_1 … i_k | sizes M | contains M t
         | history M k { call }   (call = a mutating single operation without its first matrix: `add O`, `remove k t…`,
                                   `fill v size app`, `getitem t`, …; answer: the state after `run`)
         | getitem M t | setitem M t k c_1 … c_k | newseq M t k c_1 … c_k | delitem M t | clear M | items M
         | concat_streams k { n tok_1 … tok_n }   (each stream = the n tokens of a matrix; unparsable = reader error)
         | concat_streams_ns k { n tok_1 … tok_n }   (each stream = `label nrows { taxon ncells c… }`, read into ONE growing namespace)
         | concat_paths k { 0 | 1 n tok_1 … tok_n }   (0 = the path cannot be opened)
         | world k M_1 … M_k n { hcall }   (REFERENCE semantics, `Model/C19Heap.lean`: the pool as matrix objects over a heap of
                                   sequence objects; hcall names its operands by pool position: `add i j` … `extend_matrix i j`,
                                   `remove|discard|keep i k t…`, `remove_m|discard_m|keep_m i j` (the taxa argument is matrix j),
                                   `fill i v size app`, `fill_taxa i`, `pack i v size app`, `getitem i t`, `setitem i t k c…`,
                                   `newseq i t k c…`, `delitem i t`, `clear i`, `new_subset i label k idx…`, `clone i`,
                                   `export_idx i k idx…`, `export_sub i label`, `concat k j…` (new matrices are appended),
                                   `setseq i t j u` (m_i[t] = the sequence OBJECT of m_j[u]), `copy i` (shallow);
                                   answer: `ok` then for every call ` | status world`, world = `M R … S …` per pool position
                                   and `A i:t+i:t,…` = the groups of dict entries that hold one and the same sequence object)
         | seq3 nv v… nt t… na a… n { scall }   (the row OBJECT, `Model/C19Seq.lean`: values / character types / annotations, 0 = None;
                                   scall = `append v t a` | `extend k v… (N | k t…) (N | k a…)` | `del i` | `delslice lo|N hi|N`
                                   | `set i v` | `setslice lo|N hi|N k v…` | `insert i v t a` | `setat i v t a`;
                                   answer: `ok` then for every call ` | status V v.v T t.t A a.a`, status = ok | IndexError | AssertionError)
answers := `ok [size] R taxon=c.c.c … S label=i.i …` (rows sorted by taxon: the dict's insertion order is not part of the
           statement — it only decides `sequence_size` of ragged matrices — and is deliberately not compared) | `ValueError` | `KeyError [R … S …]` | `IndexError`
         | `ok len maxsize sequence_size` (sizes; sequence_size = length of the FIRST row in dict insertion order) | `ok 0|1` (contains M t) | `ok row=c.c R … S …` (getitem) | `ok t=c.c t=c.c …` (items, in iteration order) | `ParseError` | `OpenError` -/

abbrev P := StateT (List String) Option

def tok : P String := fun s =>
  match s with
  | [] => none
  | x :: r => some (x, r)

def pNat : P Nat := do
  let t ← tok
  match t.toNat? with
  | some n => pure n
  | none => failure

def pInt : P Int := do
  let t ← tok
  match t.toInt? with
  | some n => pure n
  | none => failure

def pMany {α} (p : P α) : Nat → P (List α)
  | 0 => pure []
  | n + 1 => do
    let a ← p
    let r ← pMany p n
    pure (a :: r)

def pCounted {α} (p : P α) : P (List α) := do
  let n ← pNat
  pMany p n

def pLabel : P (Option Label) := do
  let t ← tok
  match decodeStr t with
  | some o => pure (o.map String.toList)
  | none => failure

def pSomeLabel : P Label := do
  match ← pLabel with
  | some l => pure l
  | none => failure

def pMatrix : P Matrix := do
  let ns ← pNat
  let taxa ← pCounted pNat
  let label ← pLabel
  let rows ← pCounted (do
    let t ← pNat
    let cells ← pCounted pNat
    pure (t, cells))
  let subs ← pCounted (do
    let l ← pSomeLabel
    let idx ← pCounted pNat
    pure (l, idx))
  pure { ns, taxa, label, rows, subs }

def pSize : P (Option Nat) := do
  let t ← tok
  if t == "N" then pure none else
    match t.toNat? with
    | some n => pure (some n)
    | none => failure

def pBool : P Bool := do
  let t ← tok
  if t == "1" then pure true else if t == "0" then pure false else failure

def insRow (kv : Taxon × Row) : Rows → Rows
  | [] => [kv]
  | x :: xs => if kv.1 ≤ x.1 then kv :: x :: xs else x :: insRow kv xs

def dots (l : List Nat) : String := ".".intercalate (l.map toString)

def showState (rows : Rows) (subs : List (Label × List Nat)) : String :=
  " ".intercalate (["R"] ++ (rows.foldr insRow []).map (fun kv => s!"{kv.1}={dots kv.2}") ++ ["S"]
    ++ subs.map (fun s => encodeStr (some (String.ofList s.1)) ++ "=" ++ dots s.2))

def showErr : Err → String
  | .valueError => "ValueError"
  | .keyError => "KeyError"
  | .indexError => "IndexError"

def showRes : Except Err Matrix → String
  | .ok m => "ok " ++ showState m.rows m.subs
  | .error e => showErr e

def showSRes : Except SErr Matrix → String
  | .ok m => "ok " ++ showState m.rows m.subs
  | .error (.openError _) => "OpenError"
  | .error (.parseError _) => "ParseError"
  | .error (.concat e) => showErr e

/-- one stream read into the shared namespace: `label nrows { taxon ncells c_1 … }` -/
def pParsed : P Parsed := do
  let label ← pLabel
  let rows ← pCounted (do
    let t ← pNat
    let cells ← pCounted pNat
    pure (t, cells))
  pure { label, rows }

/-- a path: `0` cannot be opened, `1 n tok…` opens to a stream of n tokens -/
def pPath : P (Option (List String)) := do
  let t ← tok
  if t == "0" then pure none
  else if t == "1" then do
    let toks ← pCounted tok
    pure (some toks)
  else failure

/-- protocol invariant: the same namespace identity always comes with the same member list (one Python object);
    input that breaks it is not a state of the library and is refused as `bad-op` -/
def coherent (ms : List Matrix) : Bool :=
  ms.all (fun a => ms.all (fun b => a.ns != b.ns || a.taxa == b.taxa))

def opMatrices : Op → List Matrix
  | .add o | .replace o | .update o | .extend _ o | .extendMatrix o => [o]
  | _ => []

/-- one call of a history: the single-operation syntax without the matrix it is applied to -/
def pOp : P Op := do
  let name ← tok
  if name == "add" then return .add (← pMatrix)
  else if name == "replace" then return .replace (← pMatrix)
  else if name == "update" then return .update (← pMatrix)
  else if name == "extend" then return .extend false (← pMatrix)
  else if name == "extend_new" then return .extend true (← pMatrix)
  else if name == "extend_matrix" then return .extendMatrix (← pMatrix)
  else if name == "remove" then return .remove (← pCounted pNat)
  else if name == "discard" then return .discard (← pCounted pNat)
  else if name == "keep" then return .keep (← pCounted pNat)
  else if name == "fill" then do
    let v ← pNat; let s ← pSize; let a ← pBool
    return .fill v s a
  else if name == "pack" then do
    let v ← pNat; let s ← pSize; let a ← pBool
    return .pack v s a
  else if name == "fill_taxa" then return .fillTaxa
  else if name == "new_subset" then do
    let l ← pSomeLabel; let idx ← pCounted pNat
    return .newSubset l idx
  else if name == "getitem" then return .getItem (← pNat)
  else if name == "setitem" then do
    let t ← pNat; let r ← pCounted pNat
    return .setItem t r
  else if name == "newseq" then do
    let t ← pNat; let r ← pCounted pNat
    return .newSequence t r
  else if name == "delitem" then return .delItem (← pNat)
  else if name == "clear" then return .clear
  else failure

/-- run a parser on the whole argument list; leftovers are an error -/
def whole {α} (p : P α) (ws : List String) : Option α :=
  match p ws with
  | some (a, []) => some a
  | _ => none


/-! ### op `world` -/

def pBinOp (name : String) : Option BinOp :=
  if name == "add" then some .add else if name == "replace" then some .replace else if name == "update" then some .update
  else if name == "extend" then some .extend else if name == "extend_new" then some .extendNew
  else if name == "extend_matrix" then some .extendMatrix else none

def pHCall : P HCall := do
  let name ← tok
  match pBinOp name with
  | some op => do
    let i ← pNat; let j ← pNat
    return .bin op i j
  | none =>
    if name == "remove" then do let i ← pNat; return .remove i (← pCounted pNat)
    else if name == "discard" then do let i ← pNat; return .discard i (← pCounted pNat)
    else if name == "keep" then do let i ← pNat; return .keep i (← pCounted pNat)
    else if name == "remove_m" then do let i ← pNat; return .removeM i (← pNat)
    else if name == "discard_m" then do let i ← pNat; return .discardM i (← pNat)
    else if name == "keep_m" then do let i ← pNat; return .keepM i (← pNat)
    else if name == "fill" then do
      let i ← pNat; let v ← pNat; let s ← pSize; let a ← pBool
      return .fill i v s a
    else if name == "pack" then do
      let i ← pNat; let v ← pNat; let s ← pSize; let a ← pBool
      return .pack i v s a
    else if name == "fill_taxa" then return .fillTaxa (← pNat)
    else if name == "getitem" then do let i ← pNat; return .getItem i (← pNat)
    else if name == "setitem" then do
      let i ← pNat; let t ← pNat; let r ← pCounted pNat
      return .setItem i t r
    else if name == "newseq" then do
      let i ← pNat; let t ← pNat; let r ← pCounted pNat
      return .newSeq i t r
    else if name == "delitem" then do let i ← pNat; return .delItem i (← pNat)
    else if name == "clear" then return .clear (← pNat)
    else if name == "new_subset" then do
      let i ← pNat; let l ← pSomeLabel; let idx ← pCounted pNat
      return .newSubset i l idx
    else if name == "clone" then return .clone (← pNat)
    else if name == "export_idx" then do let i ← pNat; return .exportIdx i (← pCounted pInt)
    else if name == "export_sub" then do let i ← pNat; return .exportSub i (← pSomeLabel)
    else if name == "concat" then return .concat (← pCounted pNat)
    else if name == "setseq" then do
      let i ← pNat; let t ← pNat; let j ← pNat; let u ← pNat
      return .setSeq i t j u
    else if name == "copy" then return .copy (← pNat)
    else failure

def insRef (kv : Taxon × Nat) : Refs → Refs
  | [] => [kv]
  | x :: xs => if kv.1 ≤ x.1 then kv :: x :: xs else x :: insRef kv xs

/-- every dict entry of the pool: (address, matrix position, taxon), matrices in order, taxa ascending -/
def slotList (w : World) : List (Nat × Nat × Taxon) :=
  (List.range w.mats.length).flatMap (fun i => ((refsOf w i).foldr insRef []).map (fun p => (p.2, i, p.1)))

def showGroups (w : World) : String :=
  let sl := slotList w
  let rec go (seen : List Nat) : List (Nat × Nat × Taxon) → List String
    | [] => []
    | (a, _, _) :: rest =>
      if seen.contains a then go seen rest
      else
        let grp := sl.filter (fun s => s.1 == a)
        if grp.length ≥ 2 then "+".intercalate (grp.map (fun s => s!"{s.2.1}:{s.2.2}")) :: go (a :: seen) rest
        else go (a :: seen) rest
  ",".intercalate (go [] sl)

def showWorld (w : World) : String :=
  let g := showGroups w
  " ".intercalate ((views w).map (fun m => "M " ++ showState m.rows m.subs) ++ (if g == "" then ["A"] else ["A", g]))

def showStatus : Option Err → String
  | none => "ok"
  | some e => showErr e

/-- calls one after the other; a call naming a position the pool does not have is not a call -/
def runWorld : World → List HCall → Option (List String)
  | _, [] => some []
  | w, c :: cs =>
    if c.positions.all (fun i => i < w.mats.length) then
      let (w', e) := hStep w c
      (runWorld w' cs).map (fun r => (showStatus e ++ " " ++ showWorld w') :: r)
    else none


/-! ### op `seq3` -/

def pOptInt : P (Option Int) := do
  let t ← tok
  if t == "N" then pure none else
    match t.toInt? with
    | some n => pure (some n)
    | none => failure

def pOptList : P (Option (List Nat)) := do
  let t ← tok
  if t == "N" then pure none else
    match t.toNat? with
    | some n => do
      let l ← pMany pNat n
      pure (some l)
    | none => failure

def pSeqOp : P SeqOp := do
  let name ← tok
  if name == "append" then do
    let v ← pNat; let t ← pNat; let a ← pNat
    return .append v t a
  else if name == "extend" then do
    let vs ← pCounted pNat; let ts ← pOptList; let as ← pOptList
    return .extend vs ts as
  else if name == "del" then return .delItem (← pInt)
  else if name == "delslice" then do
    let lo ← pOptInt; let hi ← pOptInt
    return .delSlice lo hi
  else if name == "set" then do
    let i ← pInt; let v ← pNat
    return .setItem i v
  else if name == "setslice" then do
    let lo ← pOptInt; let hi ← pOptInt; let vs ← pCounted pNat
    return .setSlice lo hi vs
  else if name == "insert" then do
    let i ← pInt; let v ← pNat; let t ← pNat; let a ← pNat
    return .insert i v t a
  else if name == "setat" then do
    let i ← pInt; let v ← pNat; let t ← pNat; let a ← pNat
    return .setAt i v t a
  else failure

def showSeq (s : Seq3) : String := s!"V {dots s.vals} T {dots s.types} A {dots s.annots}"

def showSeqStatus : Option SeqErr → String
  | none => "ok"
  | some .indexError => "IndexError"
  | some .assertionError => "AssertionError"

def runSeq : Seq3 → List SeqOp → List String
  | _, [] => []
  | s, op :: ops =>
    let (s', e) := seqStep s op
    (showSeqStatus e ++ " " ++ showSeq s') :: runSeq s' ops

def handle (ws : List String) : String :=
  match ws with
  | "concat" :: rest =>
    match whole (pCounted pMatrix) rest with
    | some ms => if coherent ms then showRes (concatenate ms) else "bad-op"
    | none => "bad-op"
  | "export_idx" :: rest =>
    match whole (do let m ← pMatrix; let idx ← pCounted pInt; pure (m, idx)) rest with
    | some (m, idx) => showRes (.ok (exportIdx m idx))
    | none => "bad-op"
  | "export_sub" :: rest =>
    match whole (do let m ← pMatrix; let l ← pSomeLabel; pure (m, l)) rest with
    | some (m, l) => showRes (exportSub m l)
    | none => "bad-op"
  | "fill" :: rest =>
    match whole (do let m ← pMatrix; let v ← pNat; let s ← pSize; let a ← pBool; pure (m, v, s, a)) rest with
    | some (m, v, s, a) =>
      s!"ok {fillSize s m.taxa m.rows} " ++ showState (fillRows v s a m.taxa m.rows) m.subs
    | none => "bad-op"
  | "fill_taxa" :: rest =>
    match whole pMatrix rest with
    | some m => "ok " ++ showState (fillTaxa m.taxa m.rows) m.subs
    | none => "bad-op"
  | "pack" :: rest =>
    match whole (do let m ← pMatrix; let v ← pNat; let s ← pSize; let a ← pBool; pure (m, v, s, a)) rest with
    | some (m, v, s, a) => "ok " ++ showState (packRows v s a m.taxa m.rows) m.subs
    | none => "bad-op"
  | "history" :: rest =>
    match whole (do let m ← pMatrix; let ops ← pCounted pOp; pure (m, ops)) rest with
    | some (m, ops) =>
      if coherent (m :: ops.flatMap opMatrices) then
        let r := run m ops
        "ok " ++ showState r.rows r.subs
      else "bad-op"
    | none => "bad-op"
  | "new_subset" :: rest =>
    match whole (do let m ← pMatrix; let l ← pSomeLabel; let idx ← pCounted pNat; pure (m, l, idx)) rest with
    | some (m, l, idx) => showRes (newSubset m l idx)
    | none => "bad-op"
  | "getitem" :: rest =>
    match whole (do let m ← pMatrix; let t ← pNat; pure (m, t)) rest with
    | some (m, t) =>
      match getItem m t with
      | .ok (m', r) => s!"ok row={dots r} " ++ showState m'.rows m'.subs
      | .error e => showErr e
    | none => "bad-op"
  | "setitem" :: rest =>
    match whole (do let m ← pMatrix; let t ← pNat; let r ← pCounted pNat; pure (m, t, r)) rest with
    | some (m, t, r) => showRes (setItem m t r)
    | none => "bad-op"
  | "newseq" :: rest =>
    match whole (do let m ← pMatrix; let t ← pNat; let r ← pCounted pNat; pure (m, t, r)) rest with
    | some (m, t, r) => showRes (newSequence m t r)
    | none => "bad-op"
  | "delitem" :: rest =>
    match whole (do let m ← pMatrix; let t ← pNat; pure (m, t)) rest with
    | some (m, t) => showRes (delItem m t)
    | none => "bad-op"
  | "clear" :: rest =>
    match whole pMatrix rest with
    | some m => showRes (.ok (clearRows m))
    | none => "bad-op"
  | "items" :: rest =>
    match whole pMatrix rest with
    | some m => " ".intercalate ("ok" :: (itemsOf m).map (fun kv => s!"{kv.1}={dots kv.2}"))
    | none => "bad-op"
  | "sizes" :: rest =>
    match whole pMatrix rest with
    | some m => s!"ok {matLen m} {maxSeqSize m} {vectorSize m.rows}"
    | none => "bad-op"
  | "contains" :: rest =>
    match whole (do let m ← pMatrix; let t ← pNat; pure (m, t)) rest with
    | some (m, t) => if has t m.rows then "ok 1" else "ok 0"
    | none => "bad-op"
  | "concat_streams" :: rest =>
    match whole (pCounted (pCounted tok)) rest with
    | some streams => showSRes (concatFromStreams (whole pMatrix) streams)
    | none => "bad-op"
  | "concat_streams_ns" :: rest =>
    match whole (pCounted (pCounted tok)) rest with
    | some streams => showSRes (concatFromStreamsNS 0 (whole pParsed) streams)
    | none => "bad-op"
  | "world" :: rest =>
    match whole (do let ms ← pCounted pMatrix; let cs ← pCounted pHCall; pure (ms, cs)) rest with
    | some (ms, cs) =>
      if coherent ms then
        match runWorld (initWorld ms) cs with
        | some outs => " | ".intercalate ("ok" :: outs)
        | none => "bad-op"
      else "bad-op"
    | none => "bad-op"
  | "seq3" :: rest =>
    match whole (do
        let v ← pCounted pNat; let t ← pCounted pNat; let a ← pCounted pNat
        let ops ← pCounted pSeqOp
        pure (({ vals := v, types := t, annots := a } : Seq3), ops)) rest with
    | some (s, ops) => " | ".intercalate ("ok" :: runSeq s ops)
    | none => "bad-op"
  | "concat_paths" :: rest =>
    match whole (pCounted pPath) rest with
    | some paths => showSRes (concatFromPaths (fun p => p) (whole pMatrix) paths)
    | none => "bad-op"
  | [] => "bad-op"
  | op :: rest =>
    if op == "remove" || op == "discard" || op == "keep" then
      match whole (do let m ← pMatrix; let ts ← pCounted pNat; pure (m, ts)) rest with
      | some (m, ts) =>
        if op == "remove" then
          match removeSeqs ts m.rows with
          | (rs, none) => "ok " ++ showState rs m.subs
          | (rs, some e) => showErr e ++ " " ++ showState rs m.subs
        else if op == "discard" then "ok " ++ showState (discardSeqs ts m.rows) m.subs
        else "ok " ++ showState (keepSeqs ts m.rows) m.subs
      | none => "bad-op"
    else
      let f : Option (Rows → Rows → Rows) :=
        if op == "add" then some addSeqs
        else if op == "replace" then some replaceSeqs
        else if op == "update" then some updateSeqs
        else if op == "extend" then some (extendSeqs false)
        else if op == "extend_new" then some (extendSeqs true)
        else if op == "extend_matrix" then some extendMatrix
        else none
      match f with
      | none => "bad-op"
      | some f =>
        match whole (do let m ← pMatrix; let o ← pMatrix; pure (m, o)) rest with
        | some (m, o) => if coherent [m, o] then showRes (rowOp f m o) else "bad-op"
        | none => "bad-op"

def main : IO Unit := do driverLoop (← IO.getStdin) handle
