import DendroModel.Model.C09
open DendroModel DendroModel.C09

/-- string field -> characters (`-`, the protocol's None, is refused: no C09 field may be None) -/
def dec (s : String) : Option Str :=
  match decodeStr s with
  | some (some x) => some x.toList
  | _ => none

def enc (s : Str) : String := encodeStr (some (String.ofList s))

/-- data type field: a fixed name, or `std:<hex symbols>` (gap `-`, missing `?`, case-insensitive) -/
def alphabetOf (dt : String) : Option (Str × Alphabets.Spec) :=
  if dt.startsWith "std:" then
    (dec (dt.drop 4).toString).map (fun s => ("standard".toList, specStd s (some '-') (some '?')))
  else (specOfName dt.toList).map (fun s => (dt.toList, s))

def parseCell (s : String) : Option Cell :=
  match s.toList with
  | 'S' :: h => match unhex6 h with
    | some [c] => some (.sym c)
    | _ => none
  | 'P' :: h => (if h == ['='] then some [] else unhex6 h).map (Cell.multi true)
  | 'A' :: h => (if h == ['='] then some [] else unhex6 h).map (Cell.multi false)
  | _ => none

def parseCells (s : String) : Option (List Cell) :=
  if s == "-" then some [] else (s.splitOn ",").mapM parseCell

/-- `hexlabel:payload` -/
def parsePair (s : String) : Option (Str × String) :=
  match s.splitOn ":" with
  | [a, b] => (dec a).map (fun l => (l, b))
  | _ => none

def parseRowsText (ws : List String) : Option (List (Str × Str)) :=
  ws.mapM (fun w => (parsePair w).bind (fun p => (dec p.2).map (fun t => (p.1, t))))

def showRows (rows : List (Str × Str)) : String :=
  " ".intercalate (rows.map (fun r => enc r.1 ++ ":" ++ enc r.2))

def showMatrix (m : Matrix) : String := showRows (m.map (fun r => (r.1, renderCells r.2)))

def flag (s : String) : Bool := s == "1"
def isFlag (s : String) : Bool := s == "1" || s == "0"

def handle (ws : List String) : String :=
  match ws with
  | ["sym", dt, h] =>
    match alphabetOf dt, dec h with
    | some (_, sp), some [c] => match lookup (mkStates sp) c with
      | some s => enc [s]
      | none => "KeyError"
    | _, _ => "bad-op"
  | ["match", dt, k, h] =>
    if !(k == "p" || k == "a") then "bad-op" else
    match alphabetOf dt, dec h with
    | some (_, sp), some ms => match resolveMulti (mkStates sp) (k == "p") ms with
      | some c => enc (renderCell c)
      | none => "KeyError"
    | _, _ => "bad-op"
  | ["fmt", dt] =>
    match alphabetOf dt with
    | some (n, sp) => enc (formatOf (if dt.startsWith "std:" then "standard".toList else n) sp)
    | none => "bad-op"
  | "nxwrite" :: dt :: simple :: rows =>
    if !isFlag simple then "bad-op" else
    match alphabetOf dt, rows.mapM (fun w => (parsePair w).bind (fun p => (parseCells p.2).map (fun c => (p.1, c)))) with
    | some (n, sp), some m =>
      let nm := if dt.startsWith "std:" then "standard".toList else n
      " ".intercalate (enc (dimensionsOf (flag simple) m.length (maxLen (m.map (·.2)))) :: enc (formatOf nm sp)
        :: (nxRows m).map (fun r => enc r.2))
    | _, _ => "bad-op"
  | "nxread" :: fmt :: nchar :: ntax :: k :: rest =>
    match dec fmt, nchar.toNat?, ntax.toNat?, k.toNat? with
    | some fmt, some nchar, some ntax, some k =>
      match (rest.take k).mapM dec, parseRowsText (rest.drop k) with
      | some taxa, some rows =>
        match parseFormatText fmt with
        | none => "err format"
        | some f =>
          match alphabetOfFmt f with
          | none => "err format"
          | some al =>
            match nxRead ⟨al, f.matchChars, nchar, ntax, f.interleave⟩ taxa rows with
            | .error _ => "err read"
            | .ok m => "ok " ++ String.ofList f.dataType ++ " " ++ showMatrix m
      | _, _ => "bad-op"
    | _, _, _, _ => "bad-op"
  | "phwrite" :: strict :: su :: rows =>
    if !(isFlag strict && isFlag su) then "bad-op" else
    match parseRowsText rows with
    | some rows => " ".intercalate ((phWrite (flag strict) (flag su) rows).map enc)
    | none => "bad-op"
  | "phread" :: dt :: strict :: inter :: multi :: us :: lines =>
    if !(isFlag strict && isFlag inter && isFlag multi && isFlag us) then "bad-op" else
    match alphabetOf dt, lines.mapM dec with
    | some (_, sp), some lines =>
      match phRead ⟨mkStates sp, flag strict, flag inter, flag multi, flag us⟩ lines with
      | .error _ => "err"
      | .ok rows => "ok " ++ showRows rows
    | _, _ => "bad-op"
  | "fawrite" :: rows =>
    match parseRowsText rows with
    | some rows => enc (faWrite rows)
    | none => "bad-op"
  | ["faread", dt, text] =>
    match alphabetOf dt, dec text with
    | some (_, sp), some t =>
      match faRead (mkStates sp) [] none (splitLines t) with
      | .error _ => "err"
      | .ok rows => "ok " ++ showRows rows
    | _, _ => "bad-op"
  | "nxreadc" :: nchar :: ntax :: inter :: k :: rest =>
    if !isFlag inter then "bad-op" else
    match nchar.toNat?, ntax.toNat?, k.toNat? with
    | some nchar, some ntax, some k =>
      match (rest.take k).mapM dec, parseRowsText (rest.drop k) with
      | some taxa, some rows =>
        match nxReadC ⟨[], [], nchar, ntax, flag inter⟩ taxa rows with
        | .error _ => "err read"
        | .ok m => "ok " ++ " ".intercalate (m.map (fun r => enc r.1 ++ ":" ++ ",".intercalate (r.2.map (fun w => match parseDec w with
            | some d => let n := d.norm; s!"{if n.neg then "-" else "+"}{n.mant}e{n.exp}"
            | none => "?"))))
      | _, _ => "bad-op"
    | _, _, _ => "bad-op"
  | ["dec", h] =>
    match dec h with
    | some t => match parseDec t with
      | some d => let n := d.norm; s!"{if n.neg then "-" else "+"} {n.mant} {n.exp}"
      | none => "err"
    | none => "bad-op"
  | "contwrite" :: trail :: toks =>
    if !isFlag trail then "bad-op" else
    match toks.mapM dec with
    | some ts => enc (contRender (flag trail) ts)
    | none => "bad-op"
  | ["contread", h] =>
    match (if h == "=" then some [] else dec h) with
    | some t => match contRead t with
      | .ok ws => "ok " ++ " ".intercalate (ws.map (fun w => match parseDec w with
          | some d => let n := d.norm; s!"{if n.neg then "-" else "+"}{n.mant}e{n.exp}"
          | none => "?"))
      | .error _ => "err"
    | none => "bad-op"
  | "nexmlread" :: chars :: rows =>
    let parseIds := fun (s : String) => if s == "-" then some [] else (s.splitOn ",").mapM String.toNat?
    let parseRow := fun (s : String) =>
      if s == "-" then some [] else (s.splitOn ",").mapM (fun c => match c.splitOn "." with
        | [a, b] => match a.toNat?, b.toNat? with
          | some a, some b => some (a, b)
          | _, _ => none
        | _ => none)
    match parseIds chars, rows.mapM parseRow with
    | some chars, some rows =>
      " ".intercalate (rows.map (fun r =>
        match nexmlReadRow chars r with
        | none => "err"
        | some v =>
          if v.isEmpty then "-" else ",".intercalate (v.map (fun x => match x with
            | some n => toString n
            | none => "_"))))
    | _, _ => "bad-op"
  | ["nexmlwrite", lens] =>
    match (if lens == "-" then some [] else (lens.splitOn ",").mapM String.toNat?) with
    | some lens =>
      let ids := fun (l : List Nat) => if l.isEmpty then "-" else ",".intercalate (l.map toString)
      " ".intercalate (ids (nexmlChars id lens) :: lens.map (fun n => ids ((nexmlWriteRow id (List.replicate n ())).map (·.1))))
    | none => "bad-op"
  | "otus" :: n :: rest =>
    match n.toNat? with
    | some n =>
      match (rest.take n).mapM dec, (rest.drop n).mapM dec with
      | some ids, some refs =>
        " ".intercalate (refs.map (fun r => match resolveOtus ids r with
          | .ok i => toString i
          | .error _ => "err"))
      | _, _ => "bad-op"
    | none => "bad-op"
  | "links" :: sbt :: ps :: uu :: pu :: n :: rest =>
    if !(isFlag ps && isFlag uu && isFlag pu) then "bad-op" else
    match n.toNat? with
    | some n =>
      let sup := if sbt == "N" then some none else if sbt == "T" then some (some true)
                 else if sbt == "F" then some (some false) else none
      match sup, (rest.take n).mapM dec, (rest.drop n).mapM String.toNat? with
      | some sup, some labels, some blocks =>
        if blocks.any (· ≥ n) then "bad-op" else
        let w := writeLinksE (flag ps) (flag uu) sup labels blocks
        let o := fun (x : Option Str) => match x with
          | some s => enc s
          | none => "-"
        " ".intercalate (w.1.map o ++ ["|"] ++ w.2.map o ++ ["|"] ++ (readLinksE (flag pu) w).map (fun r => match r with
          | .ok i => toString i
          | .error _ => "err"))
      | _, _, _ => "bad-op"
    | none => "bad-op"
  | "titles" :: ps :: uu :: n :: rest =>
    -- TITLE tokens of `n` namespaces followed by the labelled matrices / tree lists, in writing order
    if !(isFlag ps && isFlag uu) then "bad-op" else
    match n.toNat?, rest.mapM dec with
    | some n, some labels =>
      if n > labels.length then "bad-op" else
      " ".intercalate ((assignTitles [] (labels.take n) ++ blockTitles (labels.take n) (labels.drop n)).map (fun t =>
        enc (escToken (flag ps) (!flag uu) t)))
    | _, _ => "bad-op"
  | ["esc", ps, qu, h] =>
    if !(isFlag ps && isFlag qu) then "bad-op" else
    match (if h == "=" then some [] else dec h) with
    | some t => enc (escToken (flag ps) (flag qu) t)
    | none => "bad-op"
  | ["tok", pu, h] =>
    if !isFlag pu then "bad-op" else
    match dec h with
    | some t => enc (readToken (flag pu) t)
    | none => "bad-op"
  | _ => "bad-op"

def main : IO Unit := do driverLoop (← IO.getStdin) handle
