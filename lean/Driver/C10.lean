import DendroModel.Model.C10
open DendroModel DendroModel.C10

/-! line protocol of C10.
`hist op ; op ; …`  → per op `ret # dump`, joined by ` | `; `dump` = every namespace of the world after the op.
`lower <hex>`       → hex of `pyLower`
`esc ps qu <hex>`   → hex of `escapeToken` -/

def pBool (s : String) : Option Bool := if s == "1" then some true else if s == "0" then some false else none
def pCase (s : String) : Option (Option Bool) :=
  if s == "N" then some none else if s == "T" then some (some true) else if s == "F" then some (some false) else none
def pStr (s : String) : Option String := match decodeStr s with | some (some x) => some x | _ => none
def pItem (s : String) : Option Item :=
  match s.toList with
  | 'T' :: r => (String.ofList r).toNat?.map Item.tax
  | 'L' :: r => (pStr (String.ofList r)).map Item.lab
  | _ => none

def parseOp (ws : List String) : Option Op :=
  match ws with
  | ["mk", l] => (pStr l).map Op.mk
  | "mkns" :: b :: items => do let b ← pBool b; let is ← items.mapM pItem; pure (Op.mkns b is)
  | ["add", n, t] => do pure (Op.add (← n.toNat?) (← t.toNat?))
  | "addtaxa" :: n :: ts => do pure (Op.addTaxa (← n.toNat?) (← ts.mapM String.toNat?))
  | ["new", n, l] => do pure (Op.new (← n.toNat?) (← pStr l))
  | "newtaxa" :: n :: ls => do pure (Op.newTaxa (← n.toNat?) (← ls.mapM pStr))
  | ["req", n, c, l] => do pure (Op.req (← n.toNat?) (← pCase c) (← pStr l))
  | ["rm", n, t] => do pure (Op.rm (← n.toNat?) (← t.toNat?))
  | ["del", n, i] => do pure (Op.del (← n.toNat?) (← i.toNat?))
  | ["rml", n, c, l] => do pure (Op.rml (← n.toNat?) (← pCase c) (← pStr l))
  | ["dl", n, c, l] => do pure (Op.dl (← n.toNat?) (← pCase c) (← pStr l))
  | ["rmlf", n, c, l, b] => do pure (Op.rmlf (← n.toNat?) (← pCase c) (← pStr l) (← pBool b))
  | ["dlf", n, c, l, b] => do pure (Op.dlf (← n.toNat?) (← pCase c) (← pStr l) (← pBool b))
  | ["sort", n, b] => do pure (Op.sort (← n.toNat?) (← pBool b))
  | ["rev", n] => do pure (Op.rev (← n.toNat?))
  | ["clear", n] => do pure (Op.clear (← n.toNat?))
  | ["relabel", t, l] => do pure (Op.relabel (← t.toNat?) (← pStr l))
  | ["copy", n] => do pure (Op.copy (← n.toNat?))
  | ["deep", n] => do pure (Op.deep (← n.toNat?))
  | ["setmut", n, b] => do pure (Op.setMut (← n.toNat?) (← pBool b))
  | ["setcs", n, b] => do pure (Op.setCs (← n.toNat?) (← pBool b))
  | ["get", n, c, l] => do pure (Op.get (← n.toNat?) (← pCase c) (← pStr l))
  | ["find", n, c, l] => do pure (Op.find (← n.toNat?) (← pCase c) (← pStr l))
  | "gets" :: n :: c :: b :: ls => do pure (Op.gets (← n.toNat?) (← pCase c) (← pBool b) (← ls.mapM pStr))
  | ["has", n, c, l] => do pure (Op.has (← n.toNat?) (← pCase c) (← pStr l))
  | "hasall" :: n :: c :: ls => do pure (Op.hasAll (← n.toNat?) (← pCase c) (← ls.mapM pStr))
  | ["bm", n, t] => do pure (Op.bm (← n.toNat?) (← t.toNat?))
  | ["acc", n, t] => do pure (Op.acc (← n.toNat?) (← t.toNat?))
  | "tbm" :: n :: ts => do pure (Op.tbm (← n.toNat?) (← ts.mapM String.toNat?))
  | "lbm" :: n :: c :: ls => do pure (Op.lbm (← n.toNat?) (← pCase c) (← ls.mapM pStr))
  | ["all", n] => do pure (Op.all (← n.toNat?))
  | ["btl", n, m] => do pure (Op.btl (← n.toNat?) (← m.toNat?))
  | ["nwk", n, m, ps, qu] => do pure (Op.nwk (← n.toNat?) (← m.toNat?) (← pBool ps) (← pBool qu))
  | ["bits", n, m] => do pure (Op.bits (← n.toNat?) (← m.toNat?))
  | ["in", n, t] => do pure (Op.isIn (← n.toNat?) (← t.toNat?))
  | _ => none

/-- split the token list at the `;` tokens -/
def splitOps : List String → List (List String)
  | [] => [[]]
  | t :: ts =>
    match splitOps ts with
    | [] => [[t]]
    | g :: gs => if t == ";" then [] :: g :: gs else (t :: g) :: gs

def commaNats (l : List Nat) : String := ",".intercalate (l.map toString)

def showErr : Err → String
  | .immutable => "Immutable" | .valueError => "ValueError" | .lookupError => "LookupError"
  | .keyError => "KeyError" | .indexError => "IndexError" | .typeError => "TypeError"

def showOut : Out → String
  | .ok => "ok"
  | .err e => showErr e
  | .id t => s!"t{t}"
  | .ids l => "ids:" ++ commaNats l
  | .optId (some t) => s!"t{t}"
  | .optId none => "None"
  | .bool true => "True"
  | .bool false => "False"
  | .nat n => s!"n{n}"
  | .str s => "s" ++ encodeStr (some s)
  | .bad => "bad-op"

def dumpNs (w : World) (s : NS) : String :=
  "m" ++ (if s.mutable_ then "1" else "0") ++ "c" ++ (if s.caseSens then "1" else "0") ++ "a" ++ toString s.allMask ++ ":"
    ++ ",".intercalate (s.taxa.map fun t =>
        toString t ++ "." ++ (match s.t2a.get t with | some i => toString i | none => "?") ++ "." ++ encodeStr (some (w.lab t)))

def dump (w : World) : String := "/".intercalate (w.nss.map (dumpNs w))

def runHist (w : World) : List (List String) → List String → Option (List String)
  | [], acc => some acc.reverse
  | g :: gs, acc => match parseOp g with
    | none => none
    | some op =>
      let (w', o) := step w op
      runHist w' gs ((showOut o ++ " # " ++ dump w') :: acc)

def handle (ws : List String) : String :=
  match ws with
  | "hist" :: rest =>
    match runHist World.init (splitOps rest) [] with
    | some outs => " | ".intercalate outs
    | none => "bad-op"
  | ["lower", h] => match pStr h with
    | some s => encodeStr (some (pyLower s))
    | none => "bad-op"
  | ["esc", ps, qu, h] => match pBool ps, pBool qu, pStr h with
    | some ps, some qu, some s => encodeStr (some (escapeToken ps qu s))
    | _, _, _ => "bad-op"
  | _ => "bad-op"

def main : IO Unit := do driverLoop (← IO.getStdin) handle
