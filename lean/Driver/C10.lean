import DendroModel.Model.C10
import DendroModel.Gen.C10Kernels
open DendroModel DendroModel.C10

/-! line protocol of C10.
`hist op ; op ; …`  → per op `ret # dump`, joined by ` | `; `dump` = every namespace of the world after the op.
`lower <hex>`       → hex of `pyLower`
`esc ps qu <hex>`   → hex of `escapeToken`
`matcho cs <hex|-> <hex|->` → `labelMatchesO` (query, taxon label; `-` = None); `esco ps qu <hex|->` → `escapeTokenO`
`ktb i` / `kall c` / `kbtl m` / `kbits n len` / `knwk split all bm` → the regenerated kernels of `Gen/C10Kernels.lean` -/

def pBool (s : String) : Option Bool := if s == "1" then some true else if s == "0" then some false else none
def pCase (s : String) : Option (Option Bool) :=
  if s == "N" then some none else if s == "T" then some (some true) else if s == "F" then some (some false) else none
def pStr (s : String) : Option String := match decodeStr s with | some (some x) => some x | _ => none
def pItem (s : String) : Option Item :=
  match s.toList with
  | 'T' :: r => (String.ofList r).toNat?.map Item.tax
  | 'L' :: r => (pStr (String.ofList r)).map Item.lab
  | _ => none

def pSortKey (s : String) : Option SortKey :=
  if s == "label" then some .label else if s == "lower" then some .lower else if s == "len" then some .len
  else if s == "acc" then some .acc else if s == "lenlabel" then some .lenLabel else if s == "const" then some .const else none

/-- `-` = keyword absent; `T1,2` / `T` = a list of taxon ids; `L<hex>,<hex>` / `L` = a list of labels -/
def pOptNats (s : String) : Option (Option (List Nat)) :=
  match s.toList with
  | ['-'] => some none
  | 'T' :: r => if r.isEmpty then some (some []) else ((String.ofList r).splitOn ",").mapM String.toNat? |>.map some
  | _ => none

def pOptStrs (s : String) : Option (Option (List String)) :=
  match s.toList with
  | ['-'] => some none
  | 'L' :: r => if r.isEmpty then some (some []) else ((String.ofList r).splitOn ",").mapM pStr |>.map some
  | _ => none

def parseOp (ws : List String) : Option Op :=
  match ws with
  | ["sortk", n, k, b] => do pure (Op.sortk (← n.toNat?) (← pSortKey k) (← pBool b))
  | ["btli", n, m, i] => do pure (Op.btli (← n.toNat?) (← m.toNat?) (← i.toNat?))
  | ["tbmkw", n, c, f, ts, ls] => do pure (Op.tbmKw (← n.toNat?) (← pOptNats ts) (← pOptStrs ls) (← pCase c) (← pBool f))
  | "mknsimm" :: b :: items => do let b ← pBool b; let is ← items.mapM pItem; pure (Op.mknsImm b is)
  | ["copykw", n, c, m] => do pure (Op.copyKw (← n.toNat?) (← pCase c) (← pCase m))
  | ["scoped", n] => do pure (Op.scopedCopy (← n.toNat?))
  | "sortx" :: n :: ts => do pure (Op.sortx (← n.toNat?) (← ts.mapM String.toNat?))
  | ["ltm", n, c, l] => do pure (Op.ltm (← n.toNat?) (← pCase c) (← pStr l))
  | ["mk", l] => (pStr l).map Op.mk
  | "mkns" :: b :: items => do let b ← pBool b; let is ← items.mapM pItem; pure (Op.mkns b is)
  | ["add", n, t] => do pure (Op.add (← n.toNat?) (← t.toNat?))
  | "addtaxa" :: n :: ts => do pure (Op.addTaxa (← n.toNat?) (← ts.mapM String.toNat?))
  | ["new", n, l] => do pure (Op.new (← n.toNat?) (← pStr l))
  | "newtaxa" :: n :: ls => do pure (Op.newTaxa (← n.toNat?) (← ls.mapM pStr))
  | ["req", n, c, l] => do pure (Op.req (← n.toNat?) (← pCase c) (← pStr l))
  | ["rm", n, t] => do pure (Op.rm (← n.toNat?) (← t.toNat?))
  | ["del", n, i] => do pure (Op.del (← n.toNat?) (← i.toNat?))
  | ["rml", n, c, l] => do pure (Op.rml (← n.toNat?) (← pCase c) (← pStr l))
  | ["dl", n, c, l] => do pure (Op.dl (← n.toNat?) (← pCase c) (← pStr l))
  | ["rmlf", n, c, l, b] => do pure (Op.rmlf (← n.toNat?) (← pCase c) (← pStr l) (← pBool b))
  | ["dlf", n, c, l, b] => do pure (Op.dlf (← n.toNat?) (← pCase c) (← pStr l) (← pBool b))
  | ["sort", n, b] => do pure (Op.sort (← n.toNat?) (← pBool b))
  | ["rev", n] => do pure (Op.rev (← n.toNat?))
  | ["clear", n] => do pure (Op.clear (← n.toNat?))
  | ["relabel", t, l] => do pure (Op.relabel (← t.toNat?) (← pStr l))
  | ["copy", n] => do pure (Op.copy (← n.toNat?))
  | ["deep", n] => do pure (Op.deep (← n.toNat?))
  | ["setmut", n, b] => do pure (Op.setMut (← n.toNat?) (← pBool b))
  | ["setcs", n, b] => do pure (Op.setCs (← n.toNat?) (← pBool b))
  | ["get", n, c, l] => do pure (Op.get (← n.toNat?) (← pCase c) (← pStr l))
  | ["find", n, c, l] => do pure (Op.find (← n.toNat?) (← pCase c) (← pStr l))
  | "gets" :: n :: c :: b :: ls => do pure (Op.gets (← n.toNat?) (← pCase c) (← pBool b) (← ls.mapM pStr))
  | ["has", n, c, l] => do pure (Op.has (← n.toNat?) (← pCase c) (← pStr l))
  | "hasall" :: n :: c :: ls => do pure (Op.hasAll (← n.toNat?) (← pCase c) (← ls.mapM pStr))
  | ["bm", n, t] => do pure (Op.bm (← n.toNat?) (← t.toNat?))
  | ["acc", n, t] => do pure (Op.acc (← n.toNat?) (← t.toNat?))
  | "tbm" :: n :: ts => do pure (Op.tbm (← n.toNat?) (← ts.mapM String.toNat?))
  | "lbm" :: n :: c :: ls => do pure (Op.lbm (← n.toNat?) (← pCase c) (← ls.mapM pStr))
  | ["all", n] => do pure (Op.all (← n.toNat?))
  | ["btl", n, m] => do pure (Op.btl (← n.toNat?) (← m.toNat?))
  | ["nwk", n, m, ps, qu] => do pure (Op.nwk (← n.toNat?) (← m.toNat?) (← pBool ps) (← pBool qu))
  | ["bits", n, m] => do pure (Op.bits (← n.toNat?) (← m.toNat?))
  | ["in", n, t] => do pure (Op.isIn (← n.toNat?) (← t.toNat?))
  | _ => none

/-- split the token list at the `;` tokens -/
def splitOps : List String → List (List String)
  | [] => [[]]
  | t :: ts =>
    match splitOps ts with
    | [] => [[t]]
    | g :: gs => if t == ";" then [] :: g :: gs else (t :: g) :: gs

def commaNats (l : List Nat) : String := ",".intercalate (l.map toString)

def showErr : Err → String
  | .immutable => "Immutable" | .valueError => "ValueError" | .lookupError => "LookupError"
  | .keyError => "KeyError" | .indexError => "IndexError" | .typeError => "TypeError"

def showOut : Out → String
  | .ok => "ok"
  | .err e => showErr e
  | .id t => s!"t{t}"
  | .ids l => "ids:" ++ commaNats l
  | .optId (some t) => s!"t{t}"
  | .optId none => "None"
  | .bool true => "True"
  | .bool false => "False"
  | .nat n => s!"n{n}"
  | .str s => "s" ++ encodeStr (some s)
  | .bad => "bad-op"

def dumpNs (w : World) (s : NS) : String :=
  "m" ++ (if s.mutable_ then "1" else "0") ++ "c" ++ (if s.caseSens then "1" else "0") ++ "a" ++ toString s.allMask ++ ":"
    ++ ",".intercalate (s.taxa.map fun t =>
        toString t ++ "." ++ (match s.t2a.get t with | some i => toString i | none => "?") ++ "." ++ encodeStr (some (w.lab t)))

def dump (w : World) : String := "/".intercalate (w.nss.map (dumpNs w))

def runHist (w : World) : List (List String) → List String → Option (List String)
  | [], acc => some acc.reverse
  | g :: gs, acc => match parseOp g with
    | none => none
    | some op =>
      let (w', o) := step w op
      runHist w' gs ((showOut o ++ " # " ++ dump w') :: acc)

/-- `bitmask_taxa_list` run on the regenerated kernels alone: the indices whose bit is taken -/
def kbtlRun : Nat → Int → Int → List Int → List Int
  | 0, _, _, acc => acc.reverse
  | fuel + 1, m, idx, acc =>
    if C10Kernels.btl_continue m then
      kbtlRun fuel (C10Kernels.btl_next_mask m) (C10Kernels.btl_next_index idx) (if C10Kernels.btl_take m then idx :: acc else acc)
    else acc.reverse

def handle (ws : List String) : String :=
  match ws with
  | "hist" :: rest =>
    match runHist World.init (splitOps rest) [] with
    | some outs => " | ".intercalate outs
    | none => "bad-op"
  | ["lower", h] => match pStr h with
    | some s => encodeStr (some (pyLower s))
    | none => "bad-op"
  | ["matcho", cs, q, tl] => match pBool cs, decodeStr q, decodeStr tl with
    | some cs, some q, some tl => if labelMatchesO cs q tl then "True" else "False"
    | _, _, _ => "bad-op"
  | ["esco", ps, qu, h] => match pBool ps, pBool qu, decodeStr h with
    | some ps, some qu, some l => encodeStr (some (escapeTokenO ps qu l))
    | _, _, _ => "bad-op"
  | ["esc", ps, qu, h] => match pBool ps, pBool qu, pStr h with
    | some ps, some qu, some s => encodeStr (some (escapeToken ps qu s))
    | _, _, _ => "bad-op"
  | ["ktb", i] => match i.toNat? with
    | some i => toString (C10Kernels.taxon_bitmask i)
    | none => "bad-op"
  | ["kall", c] => match c.toNat? with
    | some c => toString (C10Kernels.all_taxa_bitmask c)
    | none => "bad-op"
  | ["kbtl", m] => match m.toNat? with
    | some m => s!"{C10Kernels.btl_continue m} {C10Kernels.btl_take m} {C10Kernels.btl_next_mask m} {C10Kernels.btl_next_index m} {C10Kernels.btl_default_index}"
    | none => "bad-op"
  | ["kbtlrun", m] => match m.toNat? with
    | some m => ",".intercalate ((kbtlRun (m + 1) m C10Kernels.btl_default_index []).map toString)
    | none => "bad-op"
  | ["kbits", n, len] => match n.toNat?, len.toNat? with
    | some n, some len => encodeStr (some (String.ofList (C10Kernels.bitmask_as_bitstring n len)))
    | _, _ => "bad-op"
  | ["knwk", sp, al, bm] => match sp.toNat?, al.toNat?, bm.toNat? with
    | some sp, some al, some bm => s!"{C10Kernels.nwk_trivial sp al} {C10Kernels.nwk_left sp bm}"
    | _, _, _ => "bad-op"
  | ["kfmt"] => encodeStr (some (C10Kernels.nwk_flat_open ++ "|" ++ C10Kernels.nwk_flat_sep ++ "|" ++ C10Kernels.nwk_flat_close ++ "|"
      ++ C10Kernels.nwk_sides_open ++ "|" ++ C10Kernels.nwk_sides_sep ++ "|" ++ C10Kernels.nwk_sides_mid ++ "|" ++ C10Kernels.nwk_sides_close))
  | _ => "bad-op"

def main : IO Unit := do driverLoop (← IO.getStdin) handle
