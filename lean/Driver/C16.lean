import DendroModel.Model.C16
import DendroModel.Model.C16Ext
open DendroModel DendroModel.C16

/-! protocol
`hist <tree> | <op> | <op> …`   ops: `C <obj>` (clone object), `M`/`E`/`SM` (matrix objects and in-place edits, see `parseOp`) or
                                `S <obj> <alphabet> <gaps_as_missing 0/1> <weights: - (None), . (empty list) or w,w,…> <taxonbit> =<symbols> …`
   → one result per op joined by ` | `: `ok <score> <by,by,…>`, `KeyError`, `ValueError`, `IndexError`, `c`
`sets <alphabet> <0/1> =<symbols>`  → the state-set masks of one row
`reroot <steps: - or LL,LR,…> <tree>` → rendered tree
`xhist <xop> | <xop> …`  the extended alphabet (several trees, attribute stores per attribute name, map objects, up pass, dumps):
   `N <tree>` | `C obj` | `M`/`E` as above | `T k <src>` (map object) | `S obj <store: - (None) or n> <weights> <src>`
   | `U obj <store n> <map: - or k>` | `D obj <store n>` | `SN obj <store> <weights>` (no map) | `SF obj k` (matrix of another namespace);   `<src>` = `lit <alphabet> <0/1> rows…` | `mat k <0/1>` | `map k`
   → per op: `n`, `c`, `m`, `ok …`, an exception name, `u`, or the dump `row;row;…` (row = `x` no attribute, `e` empty, masks `a,b,…`) -/

def splitBar (ws : List String) : List (List String) :=
  let rec go : List String → List String → List (List String)
    | [], cur => [cur.reverse]
    | w :: rest, cur => if w == "|" then cur.reverse :: go rest [] else go rest (w :: cur)
  go ws []

def parseSyms (s : String) : Option (List Char) :=
  match s.toList with
  | '=' :: cs => some cs
  | _ => none

/-- column descriptor: a table name, or `cg=<fund>~<amb>…` / `cn=<fund>~<amb>…` (custom alphabet with / without gap and
    missing-data states; every `<amb>` is the symbol followed by its member symbols) -/
def parseCol (s : String) : Option ColAlph :=
  let custom (gm : Bool) (body : String) : Option ColAlph :=
    match body.splitOn "~" with
    | [] => none
    | fund :: ambs =>
      if fund.isEmpty then none else
      match ambs.mapM (fun a => match a.toList with | c :: ms => some (c, ms) | [] => none) with
      | some amb => if (ColAlph.custom gm fund.toList amb).wf then some (.custom gm fund.toList amb) else none
      | none => none
  if s.startsWith "cg=" then custom true (s.drop 3).toString
  else if s.startsWith "cn=" then custom false (s.drop 3).toString
  else some (.table s)

/-- alphabet field: `<table name>` (all columns) or `cols:<col>;<col>;…` (one descriptor per column) -/
def rowOf (alph : String) (g : Bool) (cs : List Char) : Option Row :=
  if alph.startsWith "cols:" then
    match ((alph.drop 5).toString.splitOn ";").mapM parseCol with
    | some cols => rowOfCols cols g cs
    | none => none
  else rowOfSymbols alph g cs

def parseRowSyms : List String → Option (List (Nat × List Char))
  | [] => some []
  | bit :: syms :: rest =>
    match bit.toNat?, parseSyms syms, parseRowSyms rest with
    | some b, some cs, some r => some ((b, cs) :: r)
    | _, _, _ => none
  | _ => none

/-- column alphabets of a matrix: a fixed alphabet = that table for every column -/
def parseCols (alph : String) (rows : List (Nat × List Char)) : Option (List ColAlph) :=
  if alph.startsWith "cols:" then ((alph.drop 5).toString.splitOn ";").mapM parseCol
  else some (List.replicate (match rows with | [] => 0 | (_, cs) :: _ => cs.length) (.table alph))

/-- the matrix of a scoring call with its own matrix: `matrixOf` -/
def parseRows (alph : String) (g : Bool) (toks : List String) : Option Matrix :=
  match parseRowSyms toks with
  | none => none
  | some rows =>
    match parseCols alph rows with
    | none => none
    | some cols => matrixOf cols g rows

def parseWeights (s : String) : Option (Option (List Nat)) :=
  if s == "-" then some none
  else if s == "." then some (some [])
  else ((s.splitOn ",").mapM String.toNat?).map some

def parseFlag (s : String) : Option Bool :=
  if s == "1" then some true else if s == "0" then some false else none

def parseSym1 (s : String) : Option Char :=
  match s.toList with
  | ['=', c] => some c
  | _ => none

/-- ops: `C obj` | `S obj alph g w rows…` (a matrix built for this call) | `M k alph rows…` (create / replace matrix object k)
    | `E k cell bit idx =c` | `E k seq bit =syms` (in-place edits) | `SM obj k g w` (score the current content of matrix object k) -/
def parseOp : List String → Option MOp
  | ["C", j] => j.toNat?.map MOp.clone
  | "S" :: j :: alph :: g :: w :: rows =>
    match j.toNat?, parseFlag g, parseWeights w with
    | some j, some g, some w =>
      match parseRows alph g rows with
      | some m =>
        -- a non-empty rectangular matrix; the weight list may have any length (too short => IndexError when needed)
        if m.isEmpty then none
        else if !(m.all (fun r => r.2.length == nchar m)) then none
        else some (MOp.score j m w)
      | none => none
    | _, _, _ => none
  | "M" :: k :: alph :: rows =>
    match k.toNat?, parseRowSyms rows with
    | some k, some rs =>
      match parseCols alph rs with
      | some cols =>
        -- a non-empty matrix all of whose symbols belong to their columns' alphabets
        if rs.isEmpty || (matrixOf cols false rs).isNone then none else some (MOp.defMat k { cols := cols, rows := rs })
      | none => none
    | _, _ => none
  | ["E", k, "cell", bit, idx, sym] =>
    match k.toNat?, bit.toNat?, idx.toNat?, parseSym1 sym with
    | some k, some b, some i, some c => some (MOp.editCell k b i c)
    | _, _, _, _ => none
  | ["E", k, "seq", bit, syms] =>
    match k.toNat?, bit.toNat?, parseSyms syms with
    | some k, some b, some cs => some (MOp.editSeq k b cs)
    | _, _, _ => none
  | ["SM", j, k, g, w] =>
    match j.toNat?, k.toNat?, parseFlag g, parseWeights w with
    | some j, some k, some g, some w => some (MOp.scoreMat j k g w)
    | _, _, _, _ => none
  | _ => none

def showRes : MRes → String
  | .ok s bc => s!"ok {s} " ++ (if bc.isEmpty then "-" else ",".intercalate (bc.map toString))
  | .err e => e.name
  | .cloned => "c"
  | .badObj => "bad-obj"
  | .matOk => "m"
  | .badMat => "bad-mat"

def parseSrc : List String → Option Src
  | "lit" :: alph :: g :: rows =>
    match parseFlag g with
    | some g =>
      match parseRows alph g rows with
      | some m => if m.isEmpty || !(m.all (fun r => r.2.length == nchar m)) then none else some (.lit m)
      | none => none
    | none => none
  | ["mat", k, g] =>
    match k.toNat?, parseFlag g with
    | some k, some g => some (.mat k g)
    | _, _ => none
  | ["map", k] => k.toNat?.map Src.map
  | _ => none

def parseStore (s : String) : Option (Option Nat) := if s == "-" then some none else s.toNat?.map some

def parseXOp : List String → Option XOp
  | "N" :: toks =>
    match parseTree toks with
    | some (t, []) => some (.newTree t)
    | _ => none
  | ["C", j] => j.toNat?.map XOp.clone
  | "T" :: k :: src =>
    match k.toNat?, parseSrc src with
    | some k, some src => some (.defMap k src)
    | _, _ => none
  | "S" :: j :: store :: w :: src =>
    match j.toNat?, parseStore store, parseWeights w, parseSrc src with
    | some j, some store, some w, some src => some (.score j src store w)
    | _, _, _, _ => none
  | ["U", j, store, mk] =>
    match j.toNat?, store.toNat?, parseStore mk with
    | some j, some store, some mk => some (.up j store mk)
    | _, _, _ => none
  | ["SN", j, store, w] =>
    match j.toNat?, parseStore store, parseWeights w with
    | some j, some store, some w => some (.scoreNoMap j store w)
    | _, _, _ => none
  | ["SF", j, k] =>
    match j.toNat?, k.toNat? with
    | some j, some k => some (.scoreForeign j k)
    | _, _ => none
  | ["D", j, store] =>
    match j.toNat?, store.toNat? with
    | some j, some store => some (.dump j store)
    | _, _ => none
  | ws =>
    match parseOp ws with
    | some (.defMat k mo) => some (.defMat k mo)
    | some (.editCell k b i c) => some (.editCell k b i c)
    | some (.editSeq k b cs) => some (.editSeq k b cs)
    | _ => none

def showRow : Option Row → String
  | none => "x"
  | some [] => "e"
  | some r => ",".intercalate (r.map toString)

def showXRes : XRes → String
  | .ok s bc => s!"ok {s} " ++ (if bc.isEmpty then "-" else ",".intercalate (bc.map toString))
  | .err e => e.name
  | .cloned => "c"
  | .created => "n"
  | .badObj => "bad-obj"
  | .matOk => "m"
  | .badMat => "bad-mat"
  | .upOk => "u"
  | .sets rows => if rows.isEmpty then "-" else ";".intercalate (rows.map showRow)

def parseStep (s : String) : Option Step :=
  match s with
  | "LL" => some .LL | "LR" => some .LR | "RL" => some .RL | "RR" => some .RR
  | _ => none

def handle (ws : List String) : String :=
  match ws with
  | "hist" :: rest =>
    match splitBar rest with
    | treeToks :: ops =>
      match parseTree treeToks, ops.mapM parseOp with
      | some (t, []), some ops => " | ".intercalate ((runMHist t [[]] [] ops).map showRes)
      | _, _ => "bad-op"
    | [] => "bad-op"
  | "xhist" :: rest =>
    match (splitBar rest).mapM parseXOp with
    | some ops => " | ".intercalate ((runXHist { objs := [], mats := [], maps := [] } ops).map showXRes)
    | none => "bad-op"
  | ["sets", alph, g, syms] =>
    match parseFlag g, parseSyms syms with
    | some g, some cs =>
      match rowOf alph g cs with
      | some row => if row.isEmpty then "-" else natList row
      | none => "bad-symbol"
    | _, _ => "bad-op"
  | "reroot" :: steps :: rest =>
    match (if steps == "-" then some [] else (steps.splitOn ",").mapM parseStep), parseTree rest with
    | some p, some (t, []) => (reroot p t).render
    | _, _ => "bad-op"
  | _ => "bad-op"

def main : IO Unit := do driverLoop (← IO.getStdin) handle
