import DendroModel.Model.C16
open DendroModel DendroModel.C16

/-! protocol
`hist <tree> | <op> | <op> …`   ops: `C <obj>` (clone object) or
                                `S <obj> <alphabet> <gaps_as_missing 0/1> <weights: - (None), . (empty list) or w,w,…> <taxonbit> =<symbols> …`
   → one result per op joined by ` | `: `ok <score> <by,by,…>`, `KeyError`, `ValueError`, `IndexError`, `c`
`sets <alphabet> <0/1> =<symbols>`  → the state-set masks of one row
`reroot <steps: - or LL,LR,…> <tree>` → rendered tree -/

def splitBar (ws : List String) : List (List String) :=
  let rec go : List String → List String → List (List String)
    | [], cur => [cur.reverse]
    | w :: rest, cur => if w == "|" then cur.reverse :: go rest [] else go rest (w :: cur)
  go ws []

def parseSyms (s : String) : Option (List Char) :=
  match s.toList with
  | '=' :: cs => some cs
  | _ => none

/-- column descriptor: a table name, or `cg=<fund>~<amb>…` / `cn=<fund>~<amb>…` (custom alphabet with / without gap and
    missing-data states; every `<amb>` is the symbol followed by its member symbols) -/
def parseCol (s : String) : Option ColAlph :=
  let custom (gm : Bool) (body : String) : Option ColAlph :=
    match body.splitOn "~" with
    | [] => none
    | fund :: ambs =>
      if fund.isEmpty then none else
      match ambs.mapM (fun a => match a.toList with | c :: ms => some (c, ms) | [] => none) with
      | some amb => if (ColAlph.custom gm fund.toList amb).wf then some (.custom gm fund.toList amb) else none
      | none => none
  if s.startsWith "cg=" then custom true (s.drop 3).toString
  else if s.startsWith "cn=" then custom false (s.drop 3).toString
  else some (.table s)

/-- alphabet field: `<table name>` (all columns) or `cols:<col>;<col>;…` (one descriptor per column) -/
def rowOf (alph : String) (g : Bool) (cs : List Char) : Option Row :=
  if alph.startsWith "cols:" then
    match ((alph.drop 5).toString.splitOn ";").mapM parseCol with
    | some cols => rowOfCols cols g cs
    | none => none
  else rowOfSymbols alph g cs

def parseRowSyms : List String → Option (List (Nat × List Char))
  | [] => some []
  | bit :: syms :: rest =>
    match bit.toNat?, parseSyms syms, parseRowSyms rest with
    | some b, some cs, some r => some ((b, cs) :: r)
    | _, _, _ => none
  | _ => none

/-- the matrix of a scoring call: column alphabets (a fixed alphabet = that table for every column) and `matrixOf` -/
def parseRows (alph : String) (g : Bool) (toks : List String) : Option Matrix :=
  match parseRowSyms toks with
  | none => none
  | some rows =>
    let cols : Option (List ColAlph) :=
      if alph.startsWith "cols:" then ((alph.drop 5).toString.splitOn ";").mapM parseCol
      else some (List.replicate (match rows with | [] => 0 | (_, cs) :: _ => cs.length) (.table alph))
    match cols with
    | none => none
    | some cols => matrixOf cols g rows

def parseWeights (s : String) : Option (Option (List Nat)) :=
  if s == "-" then some none
  else if s == "." then some (some [])
  else ((s.splitOn ",").mapM String.toNat?).map some

def parseFlag (s : String) : Option Bool :=
  if s == "1" then some true else if s == "0" then some false else none

def parseOp : List String → Option Op
  | ["C", j] => j.toNat?.map Op.clone
  | "S" :: j :: alph :: g :: w :: rows =>
    match j.toNat?, parseFlag g, parseWeights w with
    | some j, some g, some w =>
      match parseRows alph g rows with
      | some m =>
        -- a non-empty rectangular matrix; the weight list may have any length (too short => IndexError when needed)
        if m.isEmpty then none
        else if !(m.all (fun r => r.2.length == nchar m)) then none
        else some (Op.score j m w)
      | none => none
    | _, _, _ => none
  | _ => none

def showRes : Res → String
  | .ok s bc => s!"ok {s} " ++ (if bc.isEmpty then "-" else ",".intercalate (bc.map toString))
  | .err e => e.name
  | .cloned => "c"
  | .badObj => "bad-obj"

def parseStep (s : String) : Option Step :=
  match s with
  | "LL" => some .LL | "LR" => some .LR | "RL" => some .RL | "RR" => some .RR
  | _ => none

def handle (ws : List String) : String :=
  match ws with
  | "hist" :: rest =>
    match splitBar rest with
    | treeToks :: ops =>
      match parseTree treeToks, ops.mapM parseOp with
      | some (t, []), some ops => " | ".intercalate ((runHist t [[]] ops).map showRes)
      | _, _ => "bad-op"
    | [] => "bad-op"
  | ["sets", alph, g, syms] =>
    match parseFlag g, parseSyms syms with
    | some g, some cs =>
      match rowOf alph g cs with
      | some row => if row.isEmpty then "-" else natList row
      | none => "bad-symbol"
    | _, _ => "bad-op"
  | "reroot" :: steps :: rest =>
    match (if steps == "-" then some [] else (steps.splitOn ",").mapM parseStep), parseTree rest with
    | some p, some (t, []) => (reroot p t).render
    | _, _ => "bad-op"
  | _ => "bad-op"

def main : IO Unit := do driverLoop (← IO.getStdin) handle
