#! /usr/bin/env python
# -*- coding: utf-8 -*-

##############################################################################
##  DendroPy Phylogenetic Computing Library.
##
##  Copyright 2010-2015 Jeet Sukumaran and Mark T. Holder.
##  All rights reserved.
##
##  See "LICENSE.rst" for terms and conditions of usage.
##
##  If you use this work or any portion thereof in published work,
##  please cite it as:
##
##     Sukumaran, J. and M. T. Holder. 2010. DendroPy: a Python library
##     for phylogenetic computing. Bioinformatics 26: 1569-1571.
##
##############################################################################

"""
Implementation of NEXUS-schema data reader.
"""

from dendropy.utility import error
from dendropy.dataio import ioservice
from dendropy.dataio import nexusprocessing
from dendropy.dataio import newickreader

###############################################################################
## NexusReader

class NexusReader(ioservice.DataReader):
    "Encapsulates loading and parsing of a NEXUS schema file."

    class BlockTerminatedException(Exception):
        pass

    class NexusReaderError(error.DataParseError):
        def __init__(self, message,
                line_num=None,
                col_num=None,
                stream=None):
            error.DataParseError.__init__(self,
                    message=message,
                    line_num=line_num,
                    col_num=col_num,
                    stream=stream)

    class NotNexusFileError(NexusReaderError):
        def __init__(self, message,
                line_num=None,
                col_num=None,
                stream=None):
            NexusReader.NexusReaderError.__init__(self,
                    message=message,
                    line_num=line_num,
                    col_num=col_num,
                    stream=stream)

    class LinkRequiredError(NexusReaderError):
        def __init__(self, message,
                line_num=None,
                col_num=None,
                stream=None):
            NexusReader.NexusReaderError.__init__(self,
                    message=message,
                    line_num=line_num,
                    col_num=col_num,
                    stream=stream)

    class NoCharacterBlocksFoundError(NexusReaderError):
        def __init__(self, message,
                line_num=None,
                col_num=None,
                stream=None):
            NexusReader.NexusReaderError.__init__(self,
                    message=message,
                    line_num=line_num,
                    col_num=col_num,
                    stream=stream)

    class UndefinedBlockError(NexusReaderError):
        def __init__(self, message,
                line_num=None,
                col_num=None,
                stream=None):
            NexusReader.NexusReaderError.__init__(self,
                    message=message,
                    line_num=line_num,
                    col_num=col_num,
                    stream=stream)

    class MultipleBlockWithSameTitleError(NexusReaderError):
        def __init__(self, message,
                line_num=None,
                col_num=None,
                stream=None):
            NexusReader.NexusReaderError.__init__(self,
                    message=message,
                    line_num=line_num,
                    col_num=col_num,
                    stream=stream)

    class InvalidCharacterStateSymbolError(NexusReaderError):
        def __init__(self, message,
                line_num=None,
                col_num=None,
                stream=None):
            NexusReader.NexusReaderError.__init__(self,
                    message=message,
                    line_num=line_num,
                    col_num=col_num,
                    stream=stream)

    class InvalidContinuousCharacterValueError(NexusReaderError):
        def __init__(self, message,
                line_num=None,
                col_num=None,
                stream=None):
            NexusReader.NexusReaderError.__init__(self,
                    message=message,
                    line_num=line_num,
                    col_num=col_num,
                    stream=stream)

    class TooManyTaxaError(NexusReaderError):

        def __init__(self,
                taxon_namespace,
                max_taxa,
                label,
                line_num=None,
                col_num=None,
                stream=None):
            message = "Cannot add taxon with label '{}': Declared number of taxa ({}) already defined: {}".format(
                            label,
                            max_taxa,
                            str(["{}".format(t.label) for t in taxon_namespace]))
            NexusReader.NexusReaderError.__init__(self,
                    message=message,
                    line_num=line_num,
                    col_num=col_num,
                    stream=stream)

    class UndefinedTaxonError(NexusReaderError):

        def __init__(self,
                taxon_namespace,
                label,
                line_num=None,
                col_num=None,
                stream=None):
            message = "Taxon '{}' is not in the set of defined taxa: {}".format(
                            label,
                            str(["{}".format(t.label) for t in taxon_namespace]))
            NexusReader.NexusReaderError.__init__(self,
                    message=message,
                    line_num=line_num,
                    col_num=col_num,
                    stream=stream)

    class TooManyCharactersError(NexusReaderError):

        def __init__(self,
                max_characters,
                character,
                line_num=None,
                col_num=None,
                stream=None):
            message = "Cannot add '{}' to sequence: declared sequence length ({}) will be exceeded".format(
                    character, max_characters)
            NexusReader.NexusReaderError.__init__(self,
                    message=message,
                    line_num=line_num,
                    col_num=col_num,
                    stream=stream)

    class IncompleteBlockError(NexusReaderError):
        def __init__(self, message,
                line_num=None,
                col_num=None,
                stream=None):
            NexusReader.NexusReaderError.__init__(self,
                    message=message,
                    line_num=line_num,
                    col_num=col_num,
                    stream=stream)

    ###########################################################################
    ## Life-cycle and Setup

    def __init__(self, **kwargs):
        """

        Keyword Arguments
        -----------------
        rooting : string, {['default-unrooted'], 'default-rooted', 'force-unrooted', 'force-rooted'}
            Specifies how trees in the data source should be intepreted with
            respect to their rooting:

                'default-unrooted' [default]:
                    All trees are interpreted as unrooted unless a '[&R]'
                    comment token explicitly specifies them as rooted.
                'default-rooted'
                    All trees are interpreted as rooted unless a '[&U]'
                    comment token explicitly specifies them as unrooted.
                'force-unrooted'
                    All trees are unconditionally interpreted as unrooted.
                'force-rooted'
                    All trees are unconditionally interpreted as rooted.

        edge_length_type : type, default: ``float``
            Specifies the type of the edge lengths (``int`` or ``float``). Tokens
            interpreted as branch lengths will be cast to this type.
            Defaults to ``float``.
        suppress_edge_lengths : boolean, default: |False|
            If |True|, edge length values will not be processed. If |False|,
            edge length values will be processed.
        extract_comment_metadata : boolean, default: |True|
            If |True| (default), any comments that begin with '&' or '&&' will
            be parsed and stored as part of the annotation set of the
            corresponding object (accessible through the ``annotations``
            attribute of the object). This requires that the comment
            contents conform to a particular format (NHX or BEAST: 'field =
            value'). If |False|, then the comments will not be parsed,
            but will be instead stored directly as elements of the ``comments``
            list attribute of the associated object.
        store_tree_weights : boolean, default: |False|
            If |True|, process the tree weight (e.g. "[&W 1/2]") comment
            associated with each tree, if any. Defaults to |False|.
        encode_splits : boolean, default: |False|
            If |True|, split hash bitmasks will be calculated and attached to
            the edges.
        finish_node_fn : function object, default: |None|
            If specified, this function will be applied to each node after
            it has been constructed.
        case_sensitive_taxon_labels : boolean, default: |False|
            If |True|, then taxon labels are case sensitive (e.g., "P.regius"
            and "P.REGIUS" wil be treated as different operation taxonomic
            unit concepts). Otherwise, taxon label intepretation will be made
            without regard for case.
        preserve_underscores : boolean, default: |False|
            If |True|, unquoted underscores in labels will *not* converted to
            spaces. Defaults to |False|: all underscores not protected by
            quotes will be converted to spaces.
        suppress_internal_node_taxa : boolean, default: |True|
            If |False|, internal node labels will be instantantiated into
            |Taxon| objects. If |True|, internal node labels
            will *not* be instantantiated as strings.
        suppress_leaf_node_taxa : boolean, default: |False|
            If |False|, leaf (external) node labels will be instantantiated
            into |Taxon| objects. If |True|, leaff (external) node
            labels will *not* be instantantiated as strings.
        terminating_semicolon_required : boolean, default: |True|
            If |True| [default], then a tree statement that does not end in a
            semi-colon is an error. If |False|, then no error will be raised.
        unconstrained_taxa_accumulation_mode : bool
            If |True|, then no error is raised even if the number of taxon
            names defined exceeds the number of declared taxa (as specified by
            'NTAX'). Defaults to |False|.
        automatically_substitute_missing_taxa_blocks : bool
            If |True| then, if a taxon namespace is linked to by title but is
            not given in the data file, then, if one and exactly one other
            taxon namespace has been given in the data file, this taxon
            namespace will be used; if there are multiple taxon namespaces,
            then if ``automatically_create_missing_taxa_blocks`` is |True| a
            new taxon namespace will be created, otherwise an error is raised.
            Default is |False|: if a taxon namespace is linked to by title but
            is not given in the data file, then an error is raised.
        automatically_create_missing_taxa_blocks : bool
            If |True| then taxon namespaces linked to by title but not given in
            the data file will be automatically created. If |False| taxon
            namespaces linked to by title but not given in the data file will
            result in error.
        exclude_chars : bool
            If |False|, then character data will not be read. Defaults to
            |True|: character data will be read.
        exclude_trees : bool
            If |False|, then tree data will not be read. Defaults to
            |True|: tree data will be read.
        store_ignored_blocks : bool
            If |True|, then ignored NEXUS blocks will be stored under the annotation
            (NOT attribute!) ``ignored_nexus_blocks''.
            To dereference, for e.g.: ``dataset.annotations["ignored_nexus_blocks"]``.
            Defaults to |False|: non-character and tree blocks will not be read.
        attached_taxon_namespace : |TaxonNamespace|
            Unify all operational taxonomic unit definitions in this namespace.
        ignore_unrecognized_keyword_arguments : boolean, default: |False|
            If |True|, then unsupported or unrecognized keyword arguments will
            not result in an error. Default is |False|: unsupported keyword
            arguments will result in an error.
        """

        # base
        ioservice.DataReader.__init__(self)

        # Following are NEXUS-parsing specific (i.e., not used by NEWICK
        # parsers), and need to be removed so as not to cause problems with our
        # keyword validation scheme
        self.exclude_chars = kwargs.pop("exclude_chars", False)
        self.exclude_trees = kwargs.pop("exclude_trees", False)
        self.store_ignored_blocks = kwargs.pop("store_ignored_blocks", False)
        self._data_type = kwargs.pop("data_type", "standard")
        self.attached_taxon_namespace = kwargs.pop("attached_taxon_namespace", None)

        # Following are undocumented for a GOOD reason! They are experimental and subject to change!
        self.unconstrained_taxa_accumulation_mode = kwargs.pop("unconstrained_taxa_accumulation_mode", False)
        self.automatically_create_missing_taxa_blocks = kwargs.pop("automatically_create_missing_taxa_blocks", False)
        self.automatically_substitute_missing_taxa_blocks = kwargs.pop("automatically_substitute_missing_taxa_blocks", False)

        # The following are used by NewickReader in addition to NexusReader, So
        # they are extracted/set here and then forwarded on ...
        self.preserve_underscores = kwargs.get('preserve_underscores', False)
        self.case_sensitive_taxon_labels = kwargs.get('case_sensitive_taxon_labels', False)
        self.extract_comment_metadata = kwargs.get('extract_comment_metadata', True)

        # As above, but the NEXUS format default is different from the NEWICK
        # default, so this rather convoluted approach
        # self.extract_comment_metadata = kwargs.pop('extract_comment_metadata', True)
        # kwargs["extract_comment_metadata"] = self.extract_comment_metadata

        # Create newick handler
        self.newick_reader = newickreader.NewickReader(**kwargs)

        # Set up parsing meta-variables
        self._interleave = False
        self._symbols = ""
        self._gap_char = '-'
        self._missing_char = '?'
        self._match_char = frozenset('.')
        self._file_specified_ntax = None
        self._file_specified_nchar = None
        self._nexus_tokenizer = None
        self._taxon_namespace_factory = None
        self._tree_list_factory = None
        self._char_matrix_factory = None
        self._global_annotations_target = None
        self._taxon_namespaces = []
        self._char_matrices = []
        self._tree_lists = []
        self._product = None
        self._ignored_blocks = []

    ###########################################################################
    ## Reader Implementation

    def _read(self,
            stream,
            taxon_namespace_factory=None,
            tree_list_factory=None,
            char_matrix_factory=None,
            state_alphabet_factory=None,
            global_annotations_target=None):
        """
        Instantiates and returns a DataSet object based on the
        NEXUS-formatted contents given in the file-like object ``stream``.
        """
        self._taxon_namespace_factory = taxon_namespace_factory
        self._tree_list_factory = tree_list_factory
        if self._tree_list_factory is None:
            self.exclude_trees = True
        self._char_matrix_factory = char_matrix_factory
        if self._char_matrix_factory is None:
            self.exclude_chars = True
        self._state_alphabet_factory = state_alphabet_factory
        self._global_annotations_target = global_annotations_target
        self._parse_nexus_stream(stream)
        self._product = self.Product(
                taxon_namespaces=self._taxon_namespaces,
                tree_lists=self._tree_lists,
                char_matrices=self._char_matrices)
        if self._global_annotations_target is not None and self._ignored_blocks:
            a = self._global_annotations_target.annotations.find(name="ignored_nexus_blocks")
            if a is None:
                self._global_annotations_target.annotations.add_new(
                        name="ignored_nexus_blocks",
                        value=self._ignored_blocks,
                        datatype_hint="xsd:list",
                        )
            else:
                a.extend(self._ignored_blocks)
        return self._product

    ###########################################################################
    ## Tokenizer Control

    def create_tokenizer(self, stream, **kwargs):
        self._nexus_tokenizer = nexusprocessing.NexusTokenizer(
                stream, **kwargs)
        return self._nexus_tokenizer

    def set_stream(self, stream):
        return self._nexus_tokenizer.set_stream(stream)

    ###########################################################################
    ## Book-keeping Control

    def _nexus_error(self, message, error_type=None):
        if error_type is None:
            error_type = NexusReader.NexusReaderError
        e = error_type(
                message=message,
                line_num=self._nexus_tokenizer.token_line_num,
                col_num=self._nexus_tokenizer.token_column_num,
                stream=self._nexus_tokenizer.src)
        return e

    def _too_many_taxa_error(self, taxon_namespace, label):
        e = NexusReader.TooManyTaxaError(
                taxon_namespace=taxon_namespace,
                max_taxa=self._file_specified_ntax,
                label=label,
                line_num=self._nexus_tokenizer.token_line_num,
                col_num=self._nexus_tokenizer.token_column_num,
                stream=self._nexus_tokenizer.src)
        return e

    def _undefined_taxon_error(self, taxon_namespace, label):
        e = NexusReader.UndefinedTaxonError(
                taxon_namespace=taxon_namespace,
                label=label,
                line_num=self._nexus_tokenizer.token_line_num,
                col_num=self._nexus_tokenizer.token_column_num,
                stream=self._nexus_tokenizer.src)
        return e

    def _too_many_characters_error(self, character):
        e = NexusReader.TooManyCharactersError(
                max_characters=self._file_specified_nchar,
                character=character,
                line_num=self._nexus_tokenizer.token_line_num,
                col_num=self._nexus_tokenizer.token_column_num,
                stream=self._nexus_tokenizer.src)
        return e

    def _debug_print(self, message=None, out=None):
        import sys
        if out is None:
            out = sys.stdout
        if message is None:
            message = ""
        else:
            message = " --- ({})".format(message)
        out.write("--- Current Position: Line {}, Column {}; Current token [starting at line {} and column {}]: '{}'{}\n".format(
            self._nexus_tokenizer.current_line_num,
            self._nexus_tokenizer.current_column_num,
            self._nexus_tokenizer.token_line_num,
            self._nexus_tokenizer.token_column_num,
            self._nexus_tokenizer.current_token,
            message))

    ###########################################################################
    ## Data Management

    def _new_taxon_namespace(self, title=None):
        if self.attached_taxon_namespace is not None:
            return self.attached_taxon_namespace
        taxon_namespace = self._taxon_namespace_factory(label=title)
        self._taxon_namespaces.append(taxon_namespace)
        return taxon_namespace

    def _get_taxon_namespace(self, title=None):
        if self.attached_taxon_namespace is not None:
            return self.attached_taxon_namespace
        if title is None:
            if len(self._taxon_namespaces) == 0:
                return self._new_taxon_namespace(title=title)
            elif len(self._taxon_namespaces) == 1:
                return self._taxon_namespaces[0]
            else:
                raise self._nexus_error("Multiple taxa blocks defined: require 'LINK' statement", NexusReader.LinkRequiredError)
        else:
            found = []
            for tns in self._taxon_namespaces:
                if tns.label is not None and tns.label.upper() == title.upper():
                    found.append(tns)
            if len(found) == 0:
                if self.automatically_substitute_missing_taxa_blocks:
                    if len(self._taxon_namespaces) == 1:
                        return self._taxon_namespaces[0]
                    elif not self.automatically_create_missing_taxa_blocks:
                        raise self._nexus_error("Taxa block with title '{}' not found, and multiple taxa blocks are defined for this file: unable to automatically substitute".format(title), NexusReader.UndefinedBlockError)
                if self.automatically_create_missing_taxa_blocks:
                    return self._new_taxon_namespace(title=title)
                raise self._nexus_error("Taxa block with title '{}' not found".format(title), NexusReader.UndefinedBlockError)
            elif len(found) > 1:
                raise self._nexus_error("Multiple taxa blocks with title '{}' defined".format(title), NexusReader.MultipleBlockWithSameTitleError)
            return found[0]

    def _get_taxon_symbol_mapper(self, taxon_namespace, enable_lookup_by_taxon_number=True):
        taxon_symbol_mapper = nexusprocessing.NexusTaxonSymbolMapper(
                taxon_namespace=taxon_namespace,
                enable_lookup_by_taxon_number=enable_lookup_by_taxon_number,
                case_sensitive=self.case_sensitive_taxon_labels)
        return taxon_symbol_mapper

    def _new_char_matrix(self, data_type, taxon_namespace, title=None):
        # if data_type is None:
        #     data_type = "standard"
        char_matrix = self._char_matrix_factory(
                data_type,
                taxon_namespace=taxon_namespace,
                label=title)
        self._char_matrices.append(char_matrix)
        return char_matrix

    def _new_state_alphabet(self, *args, **kwargs):
        return self._state_alphabet_factory(*args, **kwargs)

    def _get_char_matrix(self, title=None):
        if title is None:
            if len(self._char_matrices) == 1:
                return self._char_matrices[0]
            elif len(self._char_matrices) == 0:
                raise self._nexus_error("No character matrices defined", NexusReader.NoCharacterBlocksFoundError)
            else:
                raise self._nexus_error("Multiple character matrices defined: require 'LINK' statement", NexusReader.LinkRequiredError)
        else:
            found = []
            for cm in self._char_matrices:
                if cm.label.upper() == title.upper():
                    found.append(cm)
            if len(found) == 0:
                raise self._nexus_error("Character block with title '{}' not found".format(title), NexusReader.UndefinedBlockError)
            elif len(found) > 1:
                raise self._nexus_error("Multiple character blocks with title '{}' defined".format(title), NexusReader.MultipleBlockWithSameTitleError)
            return found[0]

    def _new_tree_list(self, taxon_namespace, title=None):
        tree_list = self._tree_list_factory(
                taxon_namespace=taxon_namespace,
                label=title)
        self._tree_lists.append(tree_list)
        return tree_list

    def _get_tree_list(self, title=None):
        if title is None:
            if len(self._tree_lists) == 1:
                return self._tree_lists[0]
            elif len(self._tree_lists) == 0:
                raise self._nexus_error("No tree blocks defined", NexusReader.NoCharacterBlocksFoundError)
            else:
                raise self._nexus_error("Multiple tree blocks defined: require 'LINK' statement", NexusReader.LinkRequiredError)
        else:
            found = []
            for tlst in self._tree_lists:
                if tlst.label.upper() == title.upper():
                    found.append(tlst)
            if len(found) == 0:
                raise self._nexus_error("Trees block with title '{}' not found".format(title), NexusReader.UndefinedBlockError)
            elif len(found) > 1:
                raise self._nexus_error("Multiple trees blocks with title '{}' defined".format(title), NexusReader.MultipleBlockWithSameTitleError)
            return found[0]

    ###########################################################################
    ## Main Stream Parse Driver

    def _parse_nexus_stream(self, stream):
        "Main file parsing driver."
        if self._nexus_tokenizer is None:
            self.create_tokenizer(stream,
                preserve_unquoted_underscores=self.preserve_underscores)
        else:
            self._nexus_tokenizer.set_stream(stream)
        token = self._nexus_tokenizer.next_token()
        if token is None:
            raise self._nexus_error("Expecting '#NEXUS', but found end of stream",
                    NexusReader.NotNexusFileError)
        if token.upper() != "#NEXUS":
            raise self._nexus_error("Expecting '#NEXUS', but found '{}'".format(token),
                    NexusReader.NotNexusFileError)
        while not self._nexus_tokenizer.is_eof():
            token = self._nexus_tokenizer.next_token_ucase()
            while token != None and token != 'BEGIN' and not self._nexus_tokenizer.is_eof():
                token = self._nexus_tokenizer.next_token_ucase()
            self._nexus_tokenizer.process_and_clear_comments_for_item(
                    self._global_annotations_target,
                    self.extract_comment_metadata)
            token = self._nexus_tokenizer.next_token_ucase()
            if token == 'TAXA':
                self._parse_taxa_block()
            elif token == 'CHARACTERS' or token == 'DATA':
                self._parse_characters_data_block()
            elif token == 'TREES':
                self._parse_trees_block()
            elif token in ['SETS', 'ASSUMPTIONS', 'CODONS']:
                if not self.exclude_chars:
                    self._nexus_tokenizer.skip_to_semicolon() # move past BEGIN command
                    link_title = None
                    block_title = None
                    while not (token == 'END' or token == 'ENDBLOCK') \
                            and not self._nexus_tokenizer.is_eof() \
                            and not token==None:
                        token = self._nexus_tokenizer.next_token_ucase()
                        if token == 'TITLE':
                            block_title = self._parse_title_statement()
                        elif token == "LINK":
                            link_title = self._parse_link_statement().get('characters')
                        elif token == 'CHARSET':
                            self._parse_charset_statement(block_title=block_title, link_title=link_title)
                        elif token == 'BEGIN':
                            raise self._nexus_error("'BEGIN' found without completion of previous block",
                                    NexusReader.IncompleteBlockError)
                    self._nexus_tokenizer.skip_to_semicolon() # move past END command
            elif token == 'BEGIN':
                raise self._nexus_error("'BEGIN' found without completion of previous block",
                        NexusReader.IncompleteBlockError)
            else:
                # unknown block
                if token is not None and self.store_ignored_blocks:
                    b = self._read_block_without_processing(token=token)
                    self._ignored_blocks.append(b)
                else:
                    token = self._consume_to_end_of_block(token)

    ###########################################################################
    ## TAXA BLOCK

    def _parse_taxa_block(self):
        token = ''
        self._nexus_tokenizer.allow_eof = False
        self._nexus_tokenizer.skip_to_semicolon() # move past BEGIN statement
        title = None
        taxon_namespace = None
        #while not (token == 'END' or token == 'ENDBLOCK') \
        #    and not self._nexus_tokenizer.is_eof() \
        #    and not token==None:
        while not (token == 'END' or token == 'ENDBLOCK'):
            token = self._nexus_tokenizer.require_next_token_ucase()
            if token == "TITLE":
                token = self._parse_title_statement()
                taxon_namespace = self._new_taxon_namespace(token)
            if token == 'DIMENSIONS':
                self._parse_dimensions_statement()
            if token == 'TAXLABELS':
                if taxon_namespace is None:
                    taxon_namespace = self._new_taxon_namespace()
                self._nexus_tokenizer.process_and_clear_comments_for_item(
                        self._global_annotations_target,
                        self.extract_comment_metadata)
                self._parse_taxlabels_statement(taxon_namespace)
        self._nexus_tokenizer.skip_to_semicolon() # move past END statement
        self._nexus_tokenizer.allow_eof = True

    def _get_taxon(self, taxon_namespace, label):
        if not self._file_specified_ntax or len(taxon_namespace) < self._file_specified_ntax:
            taxon = taxon_namespace.require_taxon(label=label,
                    is_case_sensitive=self.case_sensitive_taxon_labels)
        else:
            taxon = taxon_namespace.get_taxon(label=label,
                    is_case_sensitive=self.case_sensitive_taxon_labels)
        if taxon is None:
            raise self._too_many_taxa_error(taxon_namespace=taxon_namespace, label=label)
        return taxon

    def _parse_taxlabels_statement(self, taxon_namespace=None):
        """
        Processes a TAXLABELS command. Assumes that the file reader is
        positioned right after the "TAXLABELS" token in a TAXLABELS command.
        """
        if taxon_namespace is None:
            taxon_namespace = self._get_taxon_namespace()
        token = self._nexus_tokenizer.require_next_token()

        # Construct label lookup set
        # The get_taxon call is expensive for large taxon namespaces as it requires
        # a linear search. This causes significant performance penalties for loading
        # very large trees into an empty taxon namespace as each new taxon requires
        # a worst case search of the existing namespace before it can be inserted.
        # To alleviate this, we build a temporary one-time set of all the labels
        # in the taxon namespace. Now we can determine in constant-time whether
        # a label token corresponds to a new taxon that requires insertion,
        # or if an existing taxon can be fetched with get_taxon.
        label_set = set([])
        for taxon in taxon_namespace._taxa:
            if taxon_namespace.is_case_sensitive:
                label_set.add(taxon.label)
            else:
                label_set.add(taxon.lower_cased_label)

        while not (token == ';' and not self._nexus_tokenizer.is_token_quoted):
            label = token

            # Convert the token to the appropriate case to check against label set
            if taxon_namespace.is_case_sensitive:
                check_label = label
            else:
                check_label = label.lower()

            if check_label in label_set:
                taxon = taxon_namespace.get_taxon(label=label)
            else:
                if (self._file_specified_ntax is not None
                        and len(taxon_namespace) >= self._file_specified_ntax
                        and not self.attached_taxon_namespace
                        and not self.unconstrained_taxa_accumulation_mode):
                    raise self._too_many_taxa_error(taxon_namespace=taxon_namespace, label=label)
                taxon = taxon_namespace.new_taxon(label=label)

                # Add the new label to the label lookup set too
                if taxon_namespace.is_case_sensitive:
                    label_set.add(taxon.label)
                else:
                    label_set.add(taxon.lower_cased_label)

            token = self._nexus_tokenizer.require_next_token()
            self._nexus_tokenizer.process_and_clear_comments_for_item(taxon,
                    self.extract_comment_metadata)

    ###########################################################################
    ## LINK/TITLE PARSERS (How Mesquite handles multiple TAXA blocks)

    def _parse_title_statement(self):
        """
        Processes a MESQUITE 'TITLE' statement.
        Assumes current token is 'TITLE'
        """
        if self._nexus_tokenizer.cast_current_token_to_ucase() != "TITLE":
            raise self._nexus_error("Expecting 'TITLE' token, but instead found '{}'".format(self._nexus_tokenizer.cast_current_token_to_ucase()))
        title = self._nexus_tokenizer.require_next_token()
        sc = self._nexus_tokenizer.require_next_token()
        if sc != ";":
            raise self._nexus_error("Expecting ';' token, but instead found '{}'".format(sc))
        return title

    def _parse_link_statement(self):
        """
        Processes a MESQUITE 'LINK' statement.
        """
        # TODO: this is now pretty ugly
        # need to refactor with more abstraction
        links = {}
        token = self._nexus_tokenizer.require_next_token_ucase()
        while token != ';':
            if token == 'TAXA':
                token = self._nexus_tokenizer.require_next_token()
                if token != "=":
                    raise self._nexus_error("expecting '=' after link taxa")
                token = self._nexus_tokenizer.require_next_token()
                links['taxa'] = token
                token = self._nexus_tokenizer.require_next_token_ucase()
            elif token == 'CHARACTERS':
                token = self._nexus_tokenizer.require_next_token()
                if token != "=":
                    raise self._nexus_error("expecting '=' after link characters")
                token = self._nexus_tokenizer.require_next_token()
                links['characters'] = token
                token = self._nexus_tokenizer.require_next_token_ucase()
            else:
                # link to a block type that is not tracked: skip
                token = self._nexus_tokenizer.require_next_token_ucase()
        return links

    ###########################################################################
    ## CHARACTER/DATA BLOCK PARSERS AND SUPPORT

    def _parse_characters_data_block(self):
        token = self._nexus_tokenizer.cast_current_token_to_ucase()
        if token != "CHARACTERS" and token != "DATA":
            raise self._nexus_error("Expecting 'CHARACTERS' or 'DATA' token, but instead found '{}'".format(token))
        if self.exclude_chars:
            self._consume_to_end_of_block(self._nexus_tokenizer.current_token)
            return
        self._nexus_tokenizer.skip_to_semicolon() # move past BEGIN command
        block_title = None
        link_title = None
        self._data_type = "standard" # set as default
        while (token != 'END'
                and token != 'ENDBLOCK'
                and not self._nexus_tokenizer.is_eof()
                and not token==None):
            token = self._nexus_tokenizer.next_token_ucase()
            if token == 'TITLE':
                block_title = self._parse_title_statement()
            elif token == "LINK":
                link_title = self._parse_link_statement().get('taxa')
            elif token == 'DIMENSIONS':
                self._parse_dimensions_statement()
            elif token == 'FORMAT':
                self._parse_format_statement()
            elif token == 'MATRIX':
                self._parse_matrix_statement(block_title=block_title, link_title=link_title)
            elif token == 'BEGIN':
                raise self._nexus_error("'BEGIN' found without completion of previous block",
                        NexusReader.IncompleteBlockError)
            # token = self._nexus_tokenizer.cast_current_token_to_ucase()
        self._nexus_tokenizer.skip_to_semicolon() # move past END command

    def _build_state_alphabet(self, char_block, symbols):
        if self._gap_char and self._gap_char in symbols:
            symbols = [s for s in symbols if s != self._gap_char]
        if not symbols:
            raise self._nexus_error("No state symbols (other than the gap symbol) defined in FORMAT statement")
        try:
            sa = self._new_state_alphabet(
                    fundamental_states=symbols,
                    no_data_symbol=self._missing_char,
                    gap_symbol=self._gap_char,
                    case_sensitive=False)
        except ValueError as e:
            # e.g., repeated symbols, or a MISSING symbol that is also a state symbol
            exc = self._nexus_error("Invalid state symbol definitions in FORMAT statement: {}".format(e))
            exc.__context__ = None
            exc.__cause__ = None
            raise exc
        char_block.state_alphabets = [sa]
        char_block.default_state_alphabet = char_block.state_alphabets[0]

    def _parse_format_statement(self):
        """
        Processes a FORMAT command. Assumes that the file reader is
        positioned right after the "FORMAT" token in a FORMAT command.
        """
        token = self._nexus_tokenizer.require_next_token_ucase()
        while token != ';':
            if token == 'DATATYPE':
                token = self._nexus_tokenizer.require_next_token_ucase()
                if token == '=':
                    token = self._nexus_tokenizer.require_next_token_ucase()
                    if token == "DNA" or token == "NUCLEOTIDES":
                        self._data_type = "dna"
                    elif token == "RNA":
                        self._data_type = "rna"
                    elif token == "NUCLEOTIDE":
                        self._data_type = "nucleotide"
                    elif token == "PROTEIN":
                        self._data_type = "protein"
                    elif token == "CONTINUOUS":
                        self._data_type = "continuous"
                    else:
                        # defaults to STANDARD elif token == "STANDARD":
                        self._data_type = "standard"
                        self._symbols = "0123456789"
                else:
                    raise self._nexus_error("Expecting '=' after DATATYPE keyword")
                token = self._nexus_tokenizer.require_next_token_ucase()
            elif token == 'SYMBOLS':
                token = self._nexus_tokenizer.require_next_token_ucase()
                if token == '=':
                    token = self._nexus_tokenizer.require_next_token_ucase()
                    if token == '"':
                        self._symbols = ""
                        token = self._nexus_tokenizer.require_next_token_ucase()
                        while token != '"':
                            if token not in self._symbols:
                                self._symbols = self._symbols + token
                            token = self._nexus_tokenizer.require_next_token_ucase()
                    else:
                        raise self._nexus_error("Expecting '\"' before beginning SYMBOLS list")
                else:
                    raise self._nexus_error("Expecting '=' after SYMBOLS keyword")
                token = self._nexus_tokenizer.require_next_token_ucase()
            elif token == 'GAP':
                token = self._nexus_tokenizer.require_next_token_ucase()
                if token == '=':
                    token = self._nexus_tokenizer.require_next_token_ucase()
                    self._gap_char = token
                else:
                    raise self._nexus_error("Expecting '=' after GAP keyword")
                token = self._nexus_tokenizer.require_next_token_ucase()
            elif token == 'INTERLEAVE':
                token = self._nexus_tokenizer.require_next_token_ucase()
                if token == '=':
                    token = self._nexus_tokenizer.require_next_token_ucase()
                    if token.startswith("N"):
                        self._interleave = False
                    else:
                        self._interleave = True
                    token = self._nexus_tokenizer.require_next_token_ucase()
                else:
                    self._interleave = True
            elif token == 'MISSING':
                token = self._nexus_tokenizer.require_next_token_ucase()
                if token == '=':
                    token = self._nexus_tokenizer.require_next_token_ucase()
                    self._missing_char = token
                else:
                    raise self._nexus_error("Expecting '=' after MISSING keyword")
                token = self._nexus_tokenizer.require_next_token_ucase()
            elif token == 'MATCHCHAR':
                token = self._nexus_tokenizer.require_next_token_ucase()
                if token == '=':
                    token = self._nexus_tokenizer.require_next_token_ucase()
                    self._match_char = frozenset([token, token.lower()])
                else:
                    raise self._nexus_error("Expecting '=' after MISSING keyword")
                token = self._nexus_tokenizer.require_next_token_ucase()
            elif token == 'BEGIN':
                raise self._nexus_error("'BEGIN' found without completion of previous block",
                        NexusReader.IncompleteBlockError)
            else:
                token = self._nexus_tokenizer.require_next_token_ucase()

    def _parse_dimensions_statement(self):
        """
        Processes a DIMENSIONS command. Assumes that the file reader is
        positioned right after the "DIMENSIONS" token in a DIMENSIONS command.
        """
        token = self._nexus_tokenizer.require_next_token_ucase()
        while token != ';':
            if token == 'NTAX':
                token = self._nexus_tokenizer.require_next_token_ucase()
                if token == '=':
                    token = self._nexus_tokenizer.require_next_token_ucase()
                    if token.isdigit():
                        self._file_specified_ntax = int(token)
                    else:
                        raise self._nexus_error('Expecting numeric value for NTAX')
                else:
                    raise self._nexus_error("Expecting '=' after NTAX keyword")
            elif token == 'NCHAR':
                token = self._nexus_tokenizer.require_next_token_ucase()
                if token == '=':
                    token = self._nexus_tokenizer.require_next_token_ucase()
                    if token.isdigit():
                        self._file_specified_nchar = int(token)
                    else:
                        raise self._nexus_error("Expecting numeric value for NCHAR")
                else:
                    raise self._nexus_error("Expecting '=' after NCHAR keyword")
            elif token == 'BEGIN':
                raise self._nexus_error("'BEGIN' found without completion of previous block",
                        NexusReader.IncompleteBlockError)
            token = self._nexus_tokenizer.require_next_token_ucase()

    def _parse_matrix_statement(self, block_title=None, link_title=None):
        """
        Processes a MATRIX command. Assumes that the file reader
        is positioned right after the "MATRIX" token in a MATRIX command,
        and that NTAX and NCHAR have been specified accurately.
        """
        if not self._file_specified_ntax:
            raise self._nexus_error('NTAX must be defined by DIMENSIONS command to non-zero value before MATRIX command')
        elif not self._file_specified_nchar:
            raise self._nexus_error('NCHAR must be defined by DIMENSIONS command to non-zero value before MATRIX command')
        taxon_namespace = self._get_taxon_namespace(link_title)
        char_block = self._new_char_matrix(
                self._data_type,
                taxon_namespace=taxon_namespace,
                title=block_title)
        if self._data_type == "continuous":
            self._process_continuous_matrix_data(char_block)
        else:
            self._process_discrete_matrix_data(char_block)
        if len(char_block) > self._file_specified_ntax:
            raise self._nexus_error("{} sequences given in MATRIX, but only {} taxa declared by NTAX".format(
                len(char_block), self._file_specified_ntax))
        for taxon in char_block:
            if len(char_block[taxon]) != self._file_specified_nchar:
                raise self._nexus_error("Wrong number of characters given for taxon '{}': expecting {} but found {}".format(
                    taxon.label, self._file_specified_nchar, len(char_block[taxon])))

    def _process_continuous_matrix_data(self, char_block):
        taxon_namespace = char_block.taxon_namespace
        token = self._nexus_tokenizer.next_token()
        first_sequence_defined = None
        if self._interleave:
            try:
                while token != ";" and not self._nexus_tokenizer.is_eof():
                    taxon = self._get_taxon(taxon_namespace=taxon_namespace, label=token)
                    self._read_continuous_character_values(char_block[taxon])
                    # if first_sequence_defined is None:
                    #     first_sequence_defined = char_block[taxon]
                    token = self._nexus_tokenizer.next_token()
            except NexusReader.BlockTerminatedException:
                token = self._nexus_tokenizer.next_token()
        else:
            while token != ';' and not self._nexus_tokenizer.is_eof():
                taxon = self._get_taxon(taxon_namespace=taxon_namespace, label=token)
                try:
                    self._read_continuous_character_values(char_block[taxon])
                except NexusReader.BlockTerminatedException:
                    raise self._nexus_error("Insufficient characters given for taxon '{}': expecting {} but only found {}".format(taxon.label, self._file_specified_nchar, len(char_block[taxon])))
                # if first_sequence_defined is None:
                #     first_sequence_defined = char_block[taxon]
                if len(char_block[taxon]) < self._file_specified_nchar:
                    raise self._nexus_error("Insufficient characters given for taxon '{}': expecting {} but only found {} ('{}')".format(taxon.label, self._file_specified_nchar, len(char_block[taxon]), char_block[taxon].symbols_as_string()))
                token = self._nexus_tokenizer.next_token()
        # if self._interleave:
        #     raise NotImplementedError("Continuous interleaved characters in NEXUS schema not yet supported")
        # taxon_namespace = char_block.taxon_namespace
        # token = self._nexus_tokenizer.next_token()
        # while token != ';' and not self._nexus_tokenizer.is_eof():
        #     taxon = self._get_taxon(taxon_namespace=taxon_namespace, label=token)
        #     while len(char_block[taxon]) < self._file_specified_nchar and not self._nexus_tokenizer.is_eof():
        #         # char_group = self._nexus_tokenizer.next_token(ignore_punctuation="-+")
        #         char_group = self._nexus_tokenizer.next_token()
        #         char_block[taxon].append(dataobject.CharacterDataCell(value=float(char_group)))
        #     if len(char_block[taxon]) < self._file_specified_nchar:
        #         raise self._nexus_error("Insufficient characters given for taxon '%s': expecting %d but only found %d ('%s')" \
        #             % (taxon.label, self._file_specified_nchar, len(char_block[taxon]), char_block[taxon].symbols_as_string()))
        #     token = self._nexus_tokenizer.next_token()

    def _process_discrete_matrix_data(self, char_block):
        if self._data_type == "standard":
            # no (recognized) DATATYPE or SYMBOLS given: same symbols as for
            # an explicit DATATYPE=STANDARD
            self._build_state_alphabet(char_block, self._symbols or "0123456789")
        taxon_namespace = char_block.taxon_namespace
        token = self._nexus_tokenizer.next_token()
        state_alphabet = char_block.default_state_alphabet
        first_sequence_defined = None
        if self._interleave:
            try:
                while token != ";" and not self._nexus_tokenizer.is_eof():
                    taxon = self._get_taxon(taxon_namespace=taxon_namespace, label=token)
                    self._read_character_states(char_block[taxon], state_alphabet, first_sequence_defined)
                    if first_sequence_defined is None:
                        first_sequence_defined = char_block[taxon]
                    token = self._nexus_tokenizer.next_token()
            except NexusReader.BlockTerminatedException:
                token = self._nexus_tokenizer.next_token()
        else:
            while token != ';' and not self._nexus_tokenizer.is_eof():
                taxon = self._get_taxon(taxon_namespace=taxon_namespace, label=token)
                try:
                    self._read_character_states(char_block[taxon], state_alphabet, first_sequence_defined)
                except NexusReader.BlockTerminatedException:
                    raise self._nexus_error("Insufficient characters given for taxon '{}': expecting {} but only found {}".format(taxon.label, self._file_specified_nchar, len(char_block[taxon])))
                if first_sequence_defined is None:
                    first_sequence_defined = char_block[taxon]
                if len(char_block[taxon]) < self._file_specified_nchar:
                    raise self._nexus_error("Insufficient characters given for taxon '%s': expecting %d but only found %d ('%s')" \
                        % (taxon.label, self._file_specified_nchar, len(char_block[taxon]), char_block[taxon].symbols_as_string()))
                token = self._nexus_tokenizer.next_token()

    def _get_state_for_multistate_tokens(self,
            state_char_seq,
            multistate_type,
            state_alphabet):
        try:
            state = state_alphabet.match_state(state_char_seq,
                    state_denomination=multistate_type)
        except KeyError:
            try:
                if multistate_type == state_alphabet.AMBIGUOUS_STATE:
                    sae = state_alphabet.new_ambiguous_state(
                            symbol=None,
                            member_state_symbols=state_char_seq)
                else:
                    sae = state_alphabet.new_polymorphic_state(
                            symbol=None,
                            member_state_symbols=state_char_seq)
            except KeyError:
                raise self._nexus_error("Unrecognized state symbols encountered in multistate sequence: '{}'".format(state_char_seq))
            else:
                return sae
        else:
            return state

    ###########################################################################
    ## TREE / TREE BLOCK PARSERS

    def _parse_tree_statement(self, tree_factory, taxon_symbol_mapper):
        """
        Processes a TREE command. Assumes that the file reader is
        positioned right after the "TREE" token in a TREE command.
        Calls on the NewickStatementParser of the trees module.
        """
        token = self._nexus_tokenizer.next_token()
        if token == '*':
            token = self._nexus_tokenizer.next_token()
        tree_name = token
        token = self._nexus_tokenizer.next_token()
        pre_tree_comments = self._nexus_tokenizer.pull_captured_comments()
        if token != '=':
            raise self._nexus_error("Expecting '=' in definition of Tree '%s' but found '%s'" % (tree_name, token))
        tree_comments = self._nexus_tokenizer.pull_captured_comments()
        # advance to '('; comments will be processed by newick reader
        self._nexus_tokenizer.next_token()
        tree = self._build_tree_from_newick_tree_string(tree_factory, taxon_symbol_mapper)
        if tree is None:
            raise self._nexus_error("Unexpected end of stream in definition of Tree '%s'" % tree_name,
                    nexusprocessing.NexusTokenizer.UnexpectedEndOfStreamError)
        tree.label = tree_name
        nexusprocessing.process_comments_for_item(tree, pre_tree_comments, self.extract_comment_metadata)
        nexusprocessing.process_comments_for_item(tree, tree_comments, self.extract_comment_metadata)
        # if self.extract_comment_metadata:
        #     annotations = nexustokenizer.parse_comment_metadata(tree_comments)
        #     for annote in annotations:
        #         tree.annotations.add(annote)
        #     if pre_tree_metadata_comments:
        #         pre_tree_annotations = nexustokenizer.parse_comment_metadata(pre_tree_metadata_comments)
        #         for annote in pre_annotations:
        #             tree.annotations.add(annote)
        # if tree_comments is not None and len(tree_comments) > 0:
        #     tree.comments.extend(tree_comments)
        # if self._nexus_tokenizer.current_token != ';':
        #     self._nexus_tokenizer.skip_to_semicolon()
        return tree

    def _build_tree_from_newick_tree_string(self, tree_factory, taxon_symbol_mapper):
        tree = self.newick_reader._parse_tree_statement(
                nexus_tokenizer=self._nexus_tokenizer,
                tree_factory=tree_factory,
                taxon_symbol_map_fn=taxon_symbol_mapper.require_taxon_for_symbol)
        return tree

    def _parse_translate_statement(self, taxon_namespace, taxon_symbol_mapper=None):
        """
        Processes a TRANSLATE command. Assumes that the file reader is
        positioned right after the "TRANSLATE" token in a TRANSLATE command.
        """
        token = self._nexus_tokenizer.current_token
        if taxon_symbol_mapper is None:
            taxon_symbol_mapper = self._get_taxon_symbol_mapper(taxon_namespace=taxon_namespace)
        else:
            assert taxon_symbol_mapper.taxon_namespace is taxon_namespace
        if self._file_specified_ntax is None:
            # Not yet parsed TAXA block: NEXUS file without TAXA block
            # Badly-formed NEXUS file, yet widely-found in the wild
            # Override namespace modification lock
            taxon_namespace.is_mutable = True
        while True:
            translation_token = self._nexus_tokenizer.require_next_token()
            if translation_token == ";" and not self._nexus_tokenizer.is_token_quoted:
                raise self._nexus_error("Expecting translation token but found ';' instead")
            translation_label = self._nexus_tokenizer.require_next_token()
            try:
                taxon = taxon_namespace.require_taxon(label=translation_label)
            except error.ImmutableTaxonNamespaceError:
                exc = self._undefined_taxon_error(taxon_namespace=taxon_namespace, label=translation_label)
                exc.__context__ = None # Python 3.0, 3.1, 3.2
                exc.__cause__ = None # Python 3.3, 3.4
                raise exc
            taxon_symbol_mapper.add_translate_token(translation_token, taxon)
            token = self._nexus_tokenizer.next_token() # ","
            if (not token) or (token == ';'):
                break
            if token != ',':
                raise self._nexus_error("Expecting ',' in TRANSLATE statement after definition for %s = '%s', but found '%s' instead." % (translation_token, translation_label, token))
        return taxon_symbol_mapper

    def _parse_trees_block(self):
        """
        Expectations:
            - current token: "TREES" [part of "BEGIN TREES"]
        """
        token = self._nexus_tokenizer.cast_current_token_to_ucase()
        if token != "TREES":
            raise self._nexus_error("Expecting 'TREES' token, but instead found '{}'".format(token))
        if self.exclude_trees:
            self._consume_to_end_of_block(self._nexus_tokenizer.current_token)
            return
        self._nexus_tokenizer.skip_to_semicolon() # move past "BEGIN TREES" command
        link_title = None
        taxon_namespace = None
        taxon_symbol_mapper = None
        trees_block = None
        block_title = None
        # while ((not self._nexus_tokenizer.is_eof())
        #         and self._nexus_tokenizer.current_token is not None
        #         and self._nexus_tokenixer.current_token != 'END'
        #         and self._nexus_tokenixer.current_token != 'ENDBLOCK'):
        while ((not self._nexus_tokenizer.is_eof())
                and token is not None
                and token != 'END'
                and token != 'ENDBLOCK'):
            token = self._nexus_tokenizer.next_token_ucase()
            if token == 'LINK':
                link_title = self._parse_link_statement().get("taxa")
            elif token == 'TITLE':
                block_title = self._parse_title_statement()
                token = "" # clear; repopulate at start of loop
            elif token == 'TRANSLATE':
                if taxon_namespace is None:
                    taxon_namespace = self._get_taxon_namespace(link_title)
                taxon_symbol_mapper = self._parse_translate_statement(taxon_namespace)
                token = "" # clear; repopulate at start of loop
            elif token == 'TREE':
                if taxon_namespace is None:
                    taxon_namespace = self._get_taxon_namespace(link_title)
                if taxon_symbol_mapper is None:
                    taxon_symbol_mapper = self._get_taxon_symbol_mapper(taxon_namespace=taxon_namespace)
                pre_tree_comments = self._nexus_tokenizer.pull_captured_comments()
                if trees_block is None:
                    trees_block = self._new_tree_list(taxon_namespace=taxon_namespace, title=block_title)
                # All comments leading up to the first 'TREE' statement assumed
                # to belong to the TreeList corresponding to the TREES block
                nexusprocessing.process_comments_for_item(
                        trees_block,
                        pre_tree_comments,
                        self.extract_comment_metadata)
                tree_factory = trees_block.new_tree
                while True:
                    ## After the following, the current token
                    ## will be the token immediately following
                    ## the terminating semi-colon of a tree
                    ## statement. Typically, this will be
                    ## 'TREE' if there is another tree, or
                    ## 'END'/'ENDBLOCK'.
                    tree = self._parse_tree_statement(
                            tree_factory=tree_factory,
                            taxon_symbol_mapper=taxon_symbol_mapper)
                    if self._nexus_tokenizer.is_eof() or not self._nexus_tokenizer.current_token:
                        break
                    if self._nexus_tokenizer.cast_current_token_to_ucase() != "TREE":
                        token = self._nexus_tokenizer.current_token
                        break
            elif token == 'BEGIN':
                raise self._nexus_error("'BEGIN' found without completion of previous block",
                        NexusReader.IncompleteBlockError)
        self._nexus_tokenizer.skip_to_semicolon() # move past END command

    def _parse_charset_statement(self, block_title=None, link_title=None):
        """
        Parses a character set description. Assumes token stream is positioned right after 'charset' command.
        """
        char_matrix = self._get_char_matrix(title=link_title)
        keyword = self._nexus_tokenizer.current_token
        token = self._nexus_tokenizer.next_token()
        if self._nexus_tokenizer.is_eof() or not token:
            raise self._nexus_error('Unexpected end of file or null token')
        else:
            if not token:
                raise self._nexus_error("Unexpected end of file or null token")
            else:
                charset_name = token
                token = self._nexus_tokenizer.next_token()
                if not token:
                    raise self._nexus_error("Unexpected end of file or null token")
                elif token != '=':
                    raise self._nexus_error('Expecting "=" after character set name "%s", but instead found "%s"' % (charset_name, token))
                else:
                    positions = self._parse_positions(adjust_to_zero_based=True)
                char_matrix.new_character_subset(charset_name, positions)

    def _parse_positions(self, adjust_to_zero_based=True, verify=True):
        """
        Parses a character position list. Expects next character read to be the first item in a position list.
        """
        positions = []
        # hyphens_as_tokens = self._nexus_tokenizer.hyphens_as_tokens
        # self._nexus_tokenizer.hyphens_as_tokens = True
        self._nexus_tokenizer.set_hyphens_as_captured_delimiters(True)
        token = self._nexus_tokenizer.next_token()
        max_positions = self._file_specified_nchar

        if self._nexus_tokenizer.is_eof() or not token:
            raise self._nexus_error('Unexpected end of file or null token')

        while token != ';' and token != ',' and not self._nexus_tokenizer.is_eof():
            if not token:
                break
            if token.upper() == 'ALL':
                positions = range(1, max_positions + 1)
                break
            elif token.isdigit():
                start = int(token)
                token = self._nexus_tokenizer.next_token()
                if token:
                    if token == ',' or token.isdigit() or token == ';':
                        positions.append(start)
                    elif token == '-':
                        token = self._nexus_tokenizer.next_token()
                        if token:
                            if token.isdigit() or token == '.':
                                if token == '.':
                                    end = max_positions
                                    #token = self._nexus_tokenizer.next_token()
                                else:
                                    end = int(token)
                                    #token = self._nexus_tokenizer.next_token()
                                token = self._nexus_tokenizer.next_token()
                                if token:
                                    if token == '\\' or token == '/': # (NEXUS standard only accepts '\')
                                        token = self._nexus_tokenizer.next_token()
                                        if token:
                                            if token.isdigit():
                                                step = int(token)
                                                #token = self._nexus_tokenizer.next_token()
                                            else:
                                                raise self._nexus_error('Expecting digit but found "%s".' % (token))
                                        else:
                                            raise self._nexus_error(r'Expecting other tokens after "\", but no more found.')
                                        token = self._nexus_tokenizer.next_token()
                                    else:
                                        step = 1
                                else:
                                    step = 1
                                for q in range(start, end+1, step):
                                    if q <= max_positions:
                                        positions.append(q)
                            else:
                                raise self._nexus_error('Expecting digit or ".", but found "%s".' % (token))
                        else:
                            raise self._nexus_error('Expecting other tokens after "-", but no more found.')
                    else:
                        raise self._nexus_error('Expecting digit or "all", but found "%s".' % (token))
                else:
                    positions.append(start)
        self._nexus_tokenizer.set_hyphens_as_captured_delimiters(False)
        positions = list(set(positions))
        positions.sort()
        if verify:
            for position in positions:
                if position > max_positions:
                    raise self._nexus_error("Specified position %d, but maximum position is %d" % (position, max_positions))
        if adjust_to_zero_based:
            positions = [position - 1 for position in positions]
        return positions # make unique and return

    def _consume_to_end_of_block(self, token=None):
        if token:
            token = token.upper()
        else:
            token = "DUMMY"
        while not (token == 'END' or token == 'ENDBLOCK') \
                and not self._nexus_tokenizer.is_eof() \
                and not token==None:
            self._nexus_tokenizer.skip_to_semicolon()
            token = self._nexus_tokenizer.next_token_ucase()
        return token

    def _read_block_without_processing(self, token=None):
        # used for unknown blocks we want to save
        # NOT (really) TESTED
        # Everybody else except Jeet: (REALLY) DO NOT USE!
        # Jeet: SORTA DO NOT USE WITHOUT MORE TESTING
        if token:
            token = token.upper()
        block = ["BEGIN", token]
        old_uncaptured_delimiters = self._nexus_tokenizer.uncaptured_delimiters
        old_captured_delimiters = self._nexus_tokenizer.captured_delimiters
        to_switch = "\n\r"
        for ch in to_switch:
            self._nexus_tokenizer.uncaptured_delimiters.discard(ch)
            self._nexus_tokenizer.captured_delimiters.add(ch)
        while not (token == 'END' or token == 'ENDBLOCK') \
                and not self._nexus_tokenizer.is_eof() \
                and not token==None:
            token = self._nexus_tokenizer.require_next_token()
            uctoken = token.upper()
            if uctoken == "END" or uctoken == "ENDBLOCK":
                token = uctoken
            block.append(token)
        self._nexus_tokenizer.uncaptured_delimiters = old_uncaptured_delimiters
        self._nexus_tokenizer.captured_delimiters = old_captured_delimiters
        self._nexus_tokenizer.skip_to_semicolon() # move past end
        block.append(";")
        return " ".join(block)

    def _read_character_states(self,
            character_data_vector,
            state_alphabet,
            first_sequence_defined,
            ):
        """
        Reads character sequence data substatement until the number of
        character states read is equal to ``self._file_specified_nchar`` (with
        multi-state characters, such as '(AG)' counting as a single
        state) or, if ``self._interleave`` is |True|, until an EOL is
        reached.

        Given a sequence of characters, with ambiguities denoted by
        `{<STATES>}`, this returns a list of state alphabet elements.

        For example, the following sequence:

            "ACTG(AC)GGT(CGG)(CG)GG"

        will result in a list such as:

            [<A>, <C>, <T>, <G>, <AC>, <G>, <G>, <T>, <CGG>, <CG>, <G>, <G>]

        where `<.>` is a StateIdentity object with the characters within the
        brackets as symbol(s).

        """
        if self._interleave:
            self._nexus_tokenizer.set_capture_eol(True)
        states_to_add = []
        while len(character_data_vector) + len(states_to_add) < self._file_specified_nchar:
            token = self._nexus_tokenizer.require_next_token()
            if token == "{" or token == "(":
                if token == "{":
                    # multistate_type = dataobject.StateIdentity.AMBIGUOUS_STATE
                    multistate_type = state_alphabet.AMBIGUOUS_STATE
                    closing_token = "}"
                else:
                    # multistate_type = dataobject.StateIdentity.POLYMORPHIC_STATE
                    multistate_type = state_alphabet.POLYMORPHIC_STATE
                    closing_token = ")"
                multistate_tokens = []
                while True:
                    token = self._nexus_tokenizer.require_next_token()
                    if token == closing_token:
                        break
                    multistate_tokens.append(token)
                c = "".join(multistate_tokens)
                state = self._get_state_for_multistate_tokens(c, multistate_type, state_alphabet)
                if len(character_data_vector) + len(states_to_add) == self._file_specified_nchar:
                    raise self._too_many_characters_error(c)
                states_to_add.append(state)
            elif token == "\r" or token == "\n":
                if self._interleave:
                    break
            elif token == ";":
                raise NexusReader.BlockTerminatedException
            else:
                for c in token:
                    if c in self._match_char:
                        try:
                            state = first_sequence_defined[len(character_data_vector) + len(states_to_add)]
                        except TypeError:
                            exc = self._nexus_error("Cannot dereference MATCHCHAR '{}' on first sequence".format(c), NexusReader.NexusReaderError)
                            exc.__context__ = None # Python 3.0, 3.1, 3.2
                            exc.__cause__ = None # Python 3.3, 3.4
                            raise exc
                        except IndexError:
                            exc = self._nexus_error("Cannot dereference MATCHCHAR '{}': current position ({}) exceeds length of first sequence ({})".format(c,
                                    len(character_data_vector) + len(states_to_add) + 1,
                                    len(first_sequence_defined),
                                    NexusReader.NexusReaderError))
                            exc.__context__ = None # Python 3.0, 3.1, 3.2
                            exc.__cause__ = None # Python 3.3, 3.4
                            raise exc
                    else:
                        try:
                            state = state_alphabet.full_symbol_state_map[c]
                        except KeyError:
                            exc = self._nexus_error("Unrecognized character state symbol for state alphabet '{}' ({}) : '{}'".format(
                                        state_alphabet.label,
                                        state_alphabet.__class__.__name__,
                                        c),
                                        NexusReader.InvalidCharacterStateSymbolError)
                            exc.__context__ = None # Python 3.0, 3.1, 3.2
                            exc.__cause__ = None # Python 3.3, 3.4
                            raise exc
                    if len(character_data_vector) + len(states_to_add) == self._file_specified_nchar:
                        raise self._too_many_characters_error(c)
                    states_to_add.append(state)
        if self._interleave:
            self._nexus_tokenizer.set_capture_eol(False)
        character_data_vector.extend(states_to_add)
        return character_data_vector

    def _read_continuous_character_values(self,
            character_data_vector,
            datatype=float,
            ):
        """
        Reads character sequence data substatement until the number of
        character states read is equal to ``self._file_specified_nchar`` (with
        multi-state characters, such as '(AG)' counting as a single
        state) or, if ``self._interleave`` is |True|, until an EOL is
        reached.
        """
        if self._interleave:
            self._nexus_tokenizer.set_capture_eol(True)
        while len(character_data_vector) < self._file_specified_nchar:
            token = self._nexus_tokenizer.require_next_token()
            if token == "\r" or token == "\n":
                if self._interleave:
                    break
            elif token == ";":
                raise NexusReader.BlockTerminatedException
            else:
                try:
                    state = float(token)
                except ValueError:
                    exc = self._nexus_error("Invalid value for continuous character type: '{invalid_value}'".format(datatype=datatype, invalid_value=token),
                                NexusReader.InvalidContinuousCharacterValueError)
                    exc.__context__ = None # Python 3.0, 3.1, 3.2
                    exc.__cause__ = None # Python 3.3, 3.4
                    raise exc
                    # if c in self._match_char:
                    #     try:
                    #         state = first_sequence_defined[len(character_data_vector)]
                    #     except TypeError:
                    #         exc = self._nexus_error("Cannot dereference MATCHCHAR '{}' on first sequence".format(c), NexusReader.NexusReaderError)
                    #         exc.__context__ = None # Python 3.0, 3.1, 3.2
                    #         exc.__cause__ = None # Python 3.3, 3.4
                    #         raise exc
                    #     except IndexError:
                    #         exc = self._nexus_error("Cannot dereference MATCHCHAR '{}': current position ({}) exceeds length of first sequence ({})".format(c,
                    #                 len(character_data_vector)+1,
                    #                 len(first_sequence_defined),
                    #                 NexusReader.NexusReaderError))
                    #         exc.__context__ = None # Python 3.0, 3.1, 3.2
                    #         exc.__cause__ = None # Python 3.3, 3.4
                    #         raise exc
                    # else:
                    #     try:
                    #         state = state_alphabet.full_symbol_state_map[c]
                    #     except KeyError:
                    #         exc = self._nexus_error("Unrecognized character state symbol for state alphabet '{}' ({}) : '{}'".format(
                    #                     state_alphabet.label,
                    #                     state_alphabet.__class__.__name__,
                    #                     c),
                    #                     NexusReader.InvalidCharacterStateSymbolError)
                    #         exc.__context__ = None # Python 3.0, 3.1, 3.2
                    #         exc.__cause__ = None # Python 3.3, 3.4
                    #         raise exc
                if len(character_data_vector) == self._file_specified_nchar:
                    raise self._too_many_characters_error(token)
                character_data_vector.append(state)
        if self._interleave:
            self._nexus_tokenizer.set_capture_eol(False)
        return character_data_vector
