#! /usr/bin/env python
# -*- coding: utf-8 -*-

##############################################################################
##  DendroPy Phylogenetic Computing Library.
##
##  Copyright 2010-2015 Jeet Sukumaran and Mark T. Holder.
##  All rights reserved.
##
##  See "LICENSE.rst" for terms and conditions of usage.
##
##  If you use this work or any portion thereof in published work,
##  please cite it as:
##
##     Sukumaran, J. and M. T. Holder. 2010. DendroPy: a Python library
##     for phylogenetic computing. Bioinformatics 26: 1569-1571.
##
##############################################################################

from dendropy.utility import error

##############################################################################
## Tokenizer

class Tokenizer(object):
    """
    Stream tokenizer.
    """

    class TokenizerError(error.DataParseError):

        def __init__(self,
                message=None,
                line_num=None,
                col_num=None,
                stream=None):
            error.DataParseError.__init__(self,
                    message=message,
                    line_num=line_num,
                    col_num=col_num,
                    stream=stream)

    class UnterminatedQuoteError(TokenizerError):

        def __init__(self,
                quote_char=None,
                line_num=None,
                col_num=None,
                stream=None):
            Tokenizer.TokenizerError.__init__(self,
                    message="Unterminated quote: {}".format(quote_char),
                    line_num=line_num,
                    col_num=col_num,
                    stream=stream)

    class UnexpectedEndOfStreamError(TokenizerError):

        def __init__(self,
                message=None,
                line_num=None,
                col_num=None,
                stream=None):
            Tokenizer.TokenizerError.__init__(self,
                    message=message,
                    line_num=line_num,
                    col_num=col_num,
                    stream=stream)

    def __init__(self,
            src,                        # source stream
            uncaptured_delimiters,      # delimiters between tokens (not returned)
            captured_delimiters,        # delimiters between tokens (returned as tokens)
            quote_chars,                # characters enclosing literals
            escape_quote_by_doubling,   # should two consecutive quote characters indicate a literal character (rather than a quote)?
            escape_chars,               # characters indicating beginning of escaped character
            comment_begin,              # string indicating beginning of comment
            comment_end,                # string indicating end of comment
            capture_comments,           # are comments to be stored?
            preserve_unquoted_underscores,       # are unquoted underscores to be preserved
            ):
        # Tokenizer behavior customization
        self.uncaptured_delimiters = uncaptured_delimiters
        self.captured_delimiters = captured_delimiters
        self.quote_chars = quote_chars
        self.escape_quote_by_doubling = escape_quote_by_doubling
        self.escape_chars = escape_chars
        self.comment_begin = comment_begin
        self.comment_end = comment_end
        self.capture_comments = capture_comments
        self.preserve_unquoted_underscores = preserve_unquoted_underscores

        # State (internals)
        self.src = src
        self._cur_char = None
        self.current_token = None
        self.is_token_quoted = False

        # Meta-information
        self.captured_comments = []
        self.current_line_num = 1
        self.current_column_num = 0
        self.token_line_num = 0
        self.token_column_num = 0

    def reset(self):
        self.set_stream(src=None)

    def set_stream(self, src=None):
        self.src = src
        self._cur_char = None
        self.current_token = None
        self.is_token_quoted = False
        self.captured_comments = []
        self.current_line_num = 1
        self.current_column_num = 0
        self.token_line_num = 0
        self.token_column_num = 0

    def is_eof(self):
        return self._cur_char == ""

    def has_captured_comments(self):
        return len(self.captured_comments) > 0

    def next_token(self):
        try:
            t = self.__next__()
            return t
        except StopIteration:
            self.current_token = None
            return None

    def require_next_token(self):
        try:
            t = self.__next__()
            return t
        except StopIteration:
            raise Tokenizer.UnexpectedEndOfStreamError(
                            message="Unexpected end of stream",
                            line_num=self.current_line_num,
                            col_num=self.current_column_num,
                            stream=self.src) from None

    def clear_captured_comments(self):
        del self.captured_comments[:]

    def pull_captured_comments(self):
        if not self.captured_comments:
            return None
        c = self.captured_comments[:]
        del self.captured_comments[:]
        return c

    def __iter__(self):
        return self

    def __next__(self):
        self.is_token_quoted = False
        if self._cur_char is None:
            self._get_next_char()
        self._skip_to_significant_char()
        if self._cur_char == "":
            raise StopIteration
        if self._cur_char in self.captured_delimiters:
            self.current_token = self._cur_char
            self.token_line_num = self.current_line_num
            self.token_column_num = self.current_column_num
            self._get_next_char()
            return self.current_token
        elif self._cur_char in self.quote_chars:
            self.token_line_num = self.current_line_num
            self.token_column_num = self.current_column_num
            dest = []
            self.is_token_quoted = True
            cur_quote_char = self._cur_char
            self._get_next_char()
            while True:
                if self._cur_char == "":
                    raise Tokenizer.UnterminatedQuoteError(
                            quote_char=cur_quote_char,
                            line_num=self.current_line_num,
                            col_num=self.current_column_num,
                            stream=self.src)
                if self._cur_char == cur_quote_char:
                    self._get_next_char()
                    if self.escape_quote_by_doubling:
                        if self._cur_char == cur_quote_char:
                            # dest.write(cur_quote_char)
                            dest.append(cur_quote_char)
                            self._get_next_char()
                        else:
                            break
                    else:
                        self._get_next_char()
                        break
                else:
                    # dest.write(self._cur_char)
                    dest.append(self._cur_char)
                    self._get_next_char()
            # self.current_token = dest.getvalue()
            self.current_token = "".join(dest)
            return self.current_token
        else:
            # unquoted
            self.token_line_num = self.current_line_num
            self.token_column_num = self.current_column_num
            dest = []
            self.is_token_quoted = False
            while self._cur_char != "":
                if self._cur_char in self.uncaptured_delimiters:
                    self._get_next_char()
                    break
                elif self._cur_char in self.captured_delimiters:
                    break
                elif self._cur_char in self.comment_begin:
                    self._handle_comment()
                    if self._cur_char == "":
                        break
                else:
                    if self._cur_char == "_" and not self.preserve_unquoted_underscores:
                        self._cur_char = " "
                    dest.append(self._cur_char)
                    self._get_next_char()
            # self.current_token = dest.getvalue()
            self.current_token = "".join(dest)
            if self.current_token == "":
                if self._cur_char != "":
                    self.__next__()
                else:
                    raise StopIteration
            return self.current_token

    def _skip_to_significant_char(self):
        if self._cur_char == "":
            return
        if self._cur_char is None:
            self._get_next_char()
        if self._cur_char not in self.uncaptured_delimiters:
            return
        while self._cur_char != "" and self._cur_char in self.uncaptured_delimiters:
            self._get_next_char()
        return

    def _get_next_char(self):
        self._cur_char = self.src.read(1)
        if self._cur_char != "":
            if self._cur_char == "\n":
                self.current_line_num += 1
                self.current_column_num = 1
            else:
                # print("@@@ {}: {}".format(self.current_column_num, self._cur_char))
                self.current_column_num += 1
        return self._cur_char

    def _handle_comment(self):
        dest = []
        nesting = 0
        comment_complete = False
        while self._cur_char != "":
            if self._cur_char in self.comment_end:
                nesting -= 1
                if nesting <= 0:
                    comment_complete = True
                    self._get_next_char()
                    break
            elif self._cur_char in self.comment_begin:
                nesting += 1
            elif self.capture_comments:
                # dest.write(self._cur_char)
                dest.append(self._cur_char)
            self._get_next_char()
        if self.capture_comments:
            # self.captured_comments.append(dest.getvalue())
            self.captured_comments.append("".join(dest))

