#! /usr/bin/env python
# -*- coding: utf-8 -*-

##############################################################################
##  DendroPy Phylogenetic Computing Library.
##
##  Copyright 2010-2015 Jeet Sukumaran and Mark T. Holder.
##  All rights reserved.
##
##  See "LICENSE.rst" for terms and conditions of usage.
##
##  If you use this work or any portion thereof in published work,
##  please cite it as:
##
##     Sukumaran, J. and M. T. Holder. 2010. DendroPy: a Python library
##     for phylogenetic computing. Bioinformatics 26: 1569-1571.
##
##############################################################################

"""
Implementation of PHYLIP-format data reader.
"""


import re
from dendropy.dataio import ioservice
from dendropy.utility import filesys
from dendropy.utility import error

class PhylipReader(ioservice.DataReader):
    "Implements the DataReader interface for parsing PHYLIP files."

    # supported_data_types = ['dna', 'rna', 'protein', 'standard', 'restriction', 'infinite']
    # supported_matrix_types = [dataobject.DnaCharacterMatrix,
    #                           dataobject.RnaCharacterMatrix,
    #                           dataobject.ProteinCharacterMatrix,
    #                           dataobject.StandardCharacterMatrix,
    #                           dataobject.RestrictionSitesCharacterMatrix,
    #                           dataobject.InfiniteSitesCharacterMatrix]

    class PhylipStrictSequentialError(error.DataParseError):
        def __init__(self, *args, **kwargs):
            error.DataParseError.__init__(self, *args, **kwargs)

    class PhylipStrictInterleavedError(error.DataParseError):
        def __init__(self, *args, **kwargs):
            error.DataParseError.__init__(self, *args, **kwargs)

    class PhylipRelaxedSequentialError(error.DataParseError):
        def __init__(self, *args, **kwargs):
            error.DataParseError.__init__(self, *args, **kwargs)

    class PhylipRelaxedInterleavedError(error.DataParseError):
        def __init__(self, *args, **kwargs):
            error.DataParseError.__init__(self, *args, **kwargs)

    def __init__(self, **kwargs):
        """
        Keyword Arguments
        -----------------
        data_type: str
            When reading into a |DataSet| object, the type of data must be
            specified: "dna", "rna", "protein", "restriction", "infinite",
            "standard", or "continuous".
        default_state_alphabet: |StateAlphabet| instance
            A |StateAlphabet| object to be used to manage the alphabet of the
            characters (|StandardCharacterMatrix| **only**).
        strict : bool
            If |True|, then data is given in 'strict' format, where first 10
            characters are the taxon label and remaining characters are the sequence.
            Default is |False|: relaxed format, where taxon labels are of
            arbitrary length and separation of sequences are is by one or more (if
            ``multispace_delimiter`` is |False|) or two or more (if
            ``multispace_delimiter`` is |True|) spaces.
        interleaved : bool
            If |True|, then data is in interleaved format.
            Default is |False|: data is non-interleaved.
        multispace_delimiter: bool
            If |True| (and ``strict`` is |False|), then at least two spaces are
            required to delimit taxon label and associated sequence. Default is
            |False|: one or more spaces delimit taxon label and associated
            sequence.
        underscore_to_spaces: bool
            If |True|, then underscores in taxon labels are converted to
            spaces. Default is |False|: underscores are not converted.
        ignore_invalid_chars : bool
            If |True| then any invalid characters in sequences will be ignored.
            Default is |False|: invalid characters result in errors.
        ignore_unrecognized_keyword_arguments : boolean, default: |False|
            If |True|, then unsupported or unrecognized keyword arguments will
            not result in an error. Default is |False|: unsupported keyword
            arguments will result in an error.
        """
        ioservice.DataReader.__init__(self)
        self.data_type = kwargs.pop("data_type", None)
        # if "char_matrix_type" in kwargs and "data_type" in kwargs:
        #     raise ValueError("Cannot specify both 'data_type' and 'char_matrix_type'")
        # if "data_type" in kwargs:
        #     data_type = kwargs["data_type"].lower()
        #     if data_type not in PhylipReader.supported_data_types:
        #         raise ValueError("'%s' is not a valid data type specification; must be one of: %s" \
        #             % (", ".join([("'" + d + "'") for d in PhylipReader.supported_data_types])))
        #     else:
        #         self.char_matrix_type = dataobject.character_data_type_label_map[data_type]
        # elif "char_matrix_type" in kwargs:
        #     self.char_matrix_type = kwargs.pop("char_matrix_type")
        # else:
        #     raise ValueError("Must specify 'data_type' for PHYLIP format, one of: %s" % (PhylipReader.supported_data_types))
        # if self.char_matrix_type not in PhylipReader.supported_matrix_types:
        #     raise ValueError("'%s' is not a supported data type for PhylipReader" % self.char_matrix_type.__name__)
        self.strict = kwargs.pop("strict", False)
        self.interleaved = kwargs.pop("interleaved", False)
        self.multispace_delimiter = kwargs.pop("multispace_delimiter", False)
        self.underscores_to_spaces = kwargs.pop("underscores_to_spaces", False)
        self.ignore_invalid_chars = kwargs.pop("ignore_invalid_chars", False)
        self.default_state_alphabet = kwargs.pop("default_state_alphabet", None)
        if self.default_state_alphabet is not None:
            if self.data_type is None:
                self.data_type = "standard"
            elif self.data_type != "standard":
                raise ValueError("Cannot specify 'default_state_alphabet' with data type of '{}'".format(self.data_type))
        self.check_for_unused_keyword_arguments(kwargs)
        self.ntax = None
        self.taxa_processed = None
        self.nchar = None
        self.char_matrix = None
        self.taxon_namespace = None

    def describe_mode(self):
        parts = []
        if self.strict:
            parts.append("strict")
        else:
            parts.append("relaxed")
        if self.interleaved:
            parts.append("interleaved")
        else:
            parts.append("sequential")
        return ", ".join(parts)

    def reset(self):
        self.ntax = None
        self.nchar = None
        self.char_matrix = None
        self.taxon_namespace = None
        self.stream = None
        self.taxa_processed = set()

    def _read(self,
            stream,
            taxon_namespace_factory=None,
            tree_list_factory=None,
            char_matrix_factory=None,
            state_alphabet_factory=None,
            global_annotations_target=None):
        self.reset()
        self.stream = stream
        self.taxon_namespace = taxon_namespace_factory(label=None)
        if self.data_type is None:
            raise TypeError("Data type must be specified for this schema")
        if self.data_type == "standard" and self.default_state_alphabet is not None:
            self.char_matrix = char_matrix_factory(
                    self.data_type,
                    label=None,
                    taxon_namespace=self.taxon_namespace,
                    default_state_alphabet=self.default_state_alphabet,
                    )
        else:
            self.char_matrix = char_matrix_factory(
                    self.data_type,
                    label=None,
                    taxon_namespace=self.taxon_namespace)
            if self.data_type == "standard":
                state_alphabet = state_alphabet_factory(
                    fundamental_states="0123456789",
                    no_data_symbol="?",
                    gap_symbol="-",
                    case_sensitive=False)
                self.char_matrix.state_alphabets.append(state_alphabet)
        lines = filesys.get_lines(stream)
        if len(lines) == 0:
            raise error.DataParseError("No data in source", stream=self.stream)
        elif len(lines) <= 2:
            raise error.DataParseError("Expecting at least 2 lines in PHYLIP format data source", stream=self.stream)
        desc_line = lines[0]
        lines = lines[1:]
        m = re.match(r'\s*(\d+)\s+(\d+)\s*$', desc_line)
        if m is None:
            raise self._data_parse_error("Invalid data description line: '%s'" % desc_line)
        self.ntax = int(m.groups()[0])
        self.nchar = int(m.groups()[1])
        if self.ntax == 0 or self.nchar == 0:
            raise error.DataParseError("No data in source", stream=self.stream)
        if self.interleaved:
            self._parse_interleaved(lines)
        else:
            self._parse_sequential(lines)
        if len(self.taxa_processed) != self.ntax:
            self._taxon_error(num_expected=self.ntax, found=self.taxa_processed)
        product = self.Product(
                taxon_namespaces=None,
                tree_lists=None,
                char_matrices=[self.char_matrix])
        return product

    def _parse_taxon_from_line(self, line, line_index):
        if self.strict:
            seq_label = line[:10].strip()
            line = line[10:]
        else:
            if self.multispace_delimiter:
                parts = re.split('[ \t]{2,}', line, maxsplit=1)
            else:
                parts = re.split('[ \t]{1,}', line, maxsplit=1)
            seq_label = parts[0]
            if len(parts) < 2:
                line = ''
            else:
                line = parts[1]
        seq_label = seq_label.strip()
        if not seq_label:
            raise self._data_parse_error("Expecting taxon label", line_index=line_index)
        if self.underscores_to_spaces:
            seq_label = seq_label.replace('_', ' ')
        current_taxon = self.char_matrix.taxon_namespace.require_taxon(label=seq_label)
        if current_taxon not in self.char_matrix:
            self.char_matrix[current_taxon] = self.char_matrix.new_sequence(taxon=current_taxon)
        else:
            if len(self.char_matrix[current_taxon]) >= self.nchar:
                raise self._data_parse_error("Cannot add characters to sequence for taxon '%s': already has declared number of characters (%d)" \
                        % (current_taxon.label, self.char_matrix[current_taxon]), line_index=line_index)
        self.taxa_processed.add(current_taxon)
        if len(self.taxa_processed) > self.ntax:
            self._taxon_error(num_expected=self.ntax, found=self.taxa_processed)
        return current_taxon, line

    def _parse_sequence_from_line(self, current_taxon, line, line_index):
        if self.data_type == "continuous":
            for c in line.split():
                if not c:
                    continue
                try:
                    state = float(c)
                except ValueError:
                    if not self.ignore_invalid_chars:
                        raise self._data_parse_error("Invalid state for taxon '%s': '%s'" % (current_taxon.label, c),
                                line_index=line_index)
                else:
                    self.char_matrix[current_taxon].append(state)
        else:
            for c in line:
                if c in [' ', '\t']:
                    continue
                try:
                    state = self.char_matrix.default_state_alphabet[c]
                except KeyError:
                    if not self.ignore_invalid_chars:
                        raise self._data_parse_error("Invalid state symbol for taxon '%s': '%s'" % (current_taxon.label, c),
                                line_index=line_index)
                else:
                    self.char_matrix[current_taxon].append(state)

    def _parse_sequential(self, lines, line_num_start=1):
        seq_labels = []
        current_taxon = None
        for line_index, line in enumerate(lines):
            line = line.rstrip()
            if line == '':
                continue
            if current_taxon is None:
                seq_label = None
                current_taxon, line = self._parse_taxon_from_line(line, line_index)
                # if current_taxon not in self.char_matrix and len(self.char_matrix.taxon_namespace) >= self.ntax:
                #     raise self._data_parse_error("Cannot add new sequence %s: declared number of sequences (%d) already defined" \
                #                 % (current_taxon, len(self.char_matrix.taxon_namespace)), line_index=line_index)
            self._parse_sequence_from_line(current_taxon, line, line_index)
            if len(self.char_matrix[current_taxon]) >= self.nchar:
                current_taxon = None

    def _parse_interleaved(self, lines, line_num_start=1):
        seq_labels = []
        current_taxon = None
        paged = False
        paged_row = -1
        for line_index, line in enumerate(lines):
            current_taxon = None
            line = line.rstrip()
            if line == '':
                continue
            paged_row += 1
            if paged_row >= self.ntax:
                paged_row = 0
            if paged:
                current_taxon = self.char_matrix.taxon_namespace[paged_row]
            else:
                current_taxon, line = self._parse_taxon_from_line(line, line_index)
                if len(self.char_matrix.taxon_namespace) == self.ntax:
                    paged = True
                    paged_row = -1
            self._parse_sequence_from_line(current_taxon, line, line_index)

    def _data_parse_error(self, message, line_index=None):
        if line_index is None:
            row = None
        else:
            row = line_index + 2
        if self.strict and self.interleaved:
            error_type = PhylipReader.PhylipStrictInterleavedError
        elif self.strict:
            error_type = PhylipReader.PhylipStrictSequentialError
        elif self.interleaved:
            error_type = PhylipReader.PhylipRelaxedInterleavedError
        else:
            error_type = PhylipReader.PhylipStrictSequentialError
        return error_type(message, line_num=row, stream=self.stream)

    def _taxon_error(self, num_expected, found):
        if num_expected == 1:
            n1 = "taxon"
        else:
            n1 = "taxa"
        if len(found) == 1:
            n2 = "taxon"
        else:
            n2 = "taxa"
        if num_expected > len(found):
            a = "only "
        else:
            a = ""
        raise error.DataParseError("{} {} expected but {}{} {} found: {}".format(
            num_expected,
            n1,
            a,
            len(found),
            n2,
            ", ".join("{}".format(t) for t in found)))
