"""Feasibility: run sumtrees' real TreeProcessor.parallel_analyze_trees / TreeAnalysisWorker.run in-process
under a chosen schedule by replacing multiprocessing.Queue/Lock/Process.start in the sumtrees module."""
import sys, itertools, queue as pyqueue, warnings, os, tempfile
sys.path.insert(0, "/repo/src")
warnings.simplefilter("ignore")
import dendropy
from dendropy.application import sumtrees

class FakeQueue:
    def __init__(self): self.items = []
    def put(self, x): self.items.append(x)
    def get_nowait(self):
        if not self.items: raise pyqueue.Empty
        return self.items.pop(0)
    def get(self): return self.items.pop(0)

class FakeLock:
    def acquire(self): pass
    def release(self): pass

class Sched:
    """assignment: list of worker indices, one per file in queue order; arrival: permutation of workers"""
    def __init__(self, assignment, arrival): self.assignment, self.arrival = assignment, arrival

def run_parallel(files, nworkers, sched, rooted):
    workers = []
    class FakeMP:
        Queue = FakeQueue; Lock = FakeLock
        class Process:
            def __init__(self, name=None): self.name = name
    orig_mp = sumtrees.multiprocessing
    orig_start = sumtrees.TreeAnalysisWorker.start if hasattr(sumtrees.TreeAnalysisWorker, "start") else None
    started = []
    sumtrees.multiprocessing = type("M", (), {"Queue": FakeQueue, "Lock": FakeLock, "Process": orig_mp.Process})
    sumtrees.TreeAnalysisWorker.start = lambda self: started.append(self)
    sumtrees.TreeAnalysisWorker.terminate = lambda self: None
    try:
        tp = sumtrees.TreeProcessor(is_source_trees_rooted=rooted, ignore_edge_lengths=False, ignore_node_ages=True,
                                    use_tree_weights=True, ultrametricity_precision=0.0001, taxon_label_age_map=None,
                                    num_processes=nworkers, log_frequency=0, messenger=None, debug_mode=True)
        # intercept the collation loop: results_queue.get must deliver in sched.arrival order.
        real_get = FakeQueue.get
        state = {"ran": False}
        def get(self):
            if not state["ran"]:
                state["ran"] = True
                # run the workers now: each worker takes exactly the files assigned to it
                wq = started[0].work_queue
                allfiles = list(wq.items); wq.items = []
                per = {i: [f for f, w in zip(allfiles, sched.assignment) if w == i] for i in range(len(started))}
                results = {}
                for i, w in enumerate(started):
                    w.work_queue = FakeQueue(); w.work_queue.items = per[i]
                    rq = FakeQueue(); w.results_queue = rq
                    w.run()
                    results[i] = rq.items
                self.items = [x for i in sched.arrival for x in results[i]]
            return real_get(self)
        FakeQueue.get = get
        try:
            return tp.parallel_analyze_trees(tree_sources=files, schema="newick", taxon_namespace=dendropy.TaxonNamespace(["A","B","C","D"]))
        finally:
            FakeQueue.get = real_get
    finally:
        sumtrees.multiprocessing = orig_mp
        if orig_start: sumtrees.TreeAnalysisWorker.start = orig_start

d = tempfile.mkdtemp()
docs = ["((A,B),(C,D));((A,B),(C,D));", "((A,C),(B,D));", "((A,B),(C,D));((A,D),(B,C));"]
files = []
for i, doc in enumerate(docs):
    p = os.path.join(d, "f%d.tre" % i); open(p, "w").write(doc); files.append(p)
serial = sumtrees.TreeProcessor(is_source_trees_rooted=None, ignore_edge_lengths=False, ignore_node_ages=True, use_tree_weights=True,
        ultrametricity_precision=0.0001, taxon_label_age_map=None, num_processes=1, log_frequency=0, messenger=None, debug_mode=True
        ).serial_analyze_trees(files, "newick", taxon_namespace=dendropy.TaxonNamespace(["A","B","C","D"]))
ref = sorted(serial.split_distribution.split_counts.items())
nw = 3
ok = fail = 0; first = None
for assignment in itertools.product(range(nw), repeat=len(files)):
    for arrival in itertools.permutations(range(nw)):
        try:
            ta = run_parallel(files, nw, Sched(assignment, arrival), None)
            got = sorted(ta.split_distribution.split_counts.items())
            if got == ref: ok += 1
            else: fail += 1; first = first or (assignment, arrival, "counts differ")
        except Exception as e:
            fail += 1; first = first or (assignment, arrival, type(e).__name__ + ": " + str(e)[:80])
print("schedules", ok + fail, "ok", ok, "fail", fail, "first failure", first)
import shutil; shutil.rmtree(d)
