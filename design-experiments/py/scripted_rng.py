import sys, warnings, random
sys.path.insert(0, "/repo/src"); warnings.simplefilter("ignore")
import dendropy
from dendropy.model import birthdeath, coalescent
from fractions import Fraction as F

class ScriptedRng:
    """serves dyadic draws derived from a seed, records every call"""
    def __init__(self, seed):
        self.r = random.Random(seed); self.log = []
    def _dy(self, lo=1, hi=64, den=16): return self.r.randint(lo, hi) / den
    def expovariate(self, rate): v = self._dy(); self.log.append(("expo", rate, v)); return v
    def random(self): v = self.r.randint(0, 1023) / 1024; self.log.append(("random", v)); return v
    def gauss(self, mu, sigma): self.log.append(("gauss", mu, sigma)); return mu
    def uniform(self, a, b): v = a + (b - a) * self.r.randint(0, 1023) / 1024; self.log.append(("uniform", v)); return v
    def randint(self, a, b): v = self.r.randint(a, b); self.log.append(("randint", a, b, v)); return v
    def randrange(self, *a): v = self.r.randrange(*a); self.log.append(("randrange", a, v)); return v
    def choice(self, seq): i = self.r.randrange(len(seq)); self.log.append(("choice", len(seq), i)); return seq[i]
    def sample(self, pop, k):
        idx = self.r.sample(range(len(pop)), k); self.log.append(("sample", len(pop), tuple(idx))); return [pop[i] for i in idx]
    def shuffle(self, x):
        perm = list(range(len(x))); self.r.shuffle(perm); self.log.append(("shuffle", tuple(perm))); x[:] = [x[i] for i in perm]

def rootdist(t):
    out = []
    for l in t.leaf_node_iter():
        s = F(0); nd = l
        while nd._parent_node is not None: s += F(nd.edge.length); nd = nd._parent_node
        out.append(s)
    return out
ok = True
for seed in range(200):
    r1 = ScriptedRng(seed); t1 = birthdeath.birth_death_tree(1.0, 0.5, num_extant_tips=2 + seed % 7, rng=r1)
    r2 = ScriptedRng(seed); t2 = birthdeath.birth_death_tree(1.0, 0.5, num_extant_tips=2 + seed % 7, rng=r2)
    assert t1.as_string("newick") == t2.as_string("newick") and r1.log == r2.log
    rd = rootdist(t1)
    if len(set(rd)) != 1: ok = False; print("bd not exactly equidistant", seed, set(rd))
    r3 = ScriptedRng(seed); k = coalescent.pure_kingman_tree(dendropy.TaxonNamespace(["a","b","c","d","e"][:2 + seed % 4]), rng=r3)
    rd = rootdist(k)
    if len(set(rd)) != 1: ok = False; print("kingman not exactly ultrametric", seed, set(rd))
    r4 = ScriptedRng(seed); f = birthdeath.fast_birth_death_tree(1.0, 0.5, num_extant_tips=2 + seed % 7, rng=r4)
    rd = rootdist(f)
    if len(set(rd)) != 1: ok = False; print("fast bd not exactly equidistant", seed, set(rd))
print("scripted rng accepted by all three simulators; exact equidistance on dyadic draws:", ok, "| sample log:", ScriptedRng(1).log or r1.log[:6])
