import sys, random, subprocess, warnings
sys.path.insert(0, "/repo/src")
warnings.simplefilter("ignore")
import dendropy
from dendropy import Tree, TaxonNamespace, Node

rng = random.Random(int(sys.argv[1]) if len(sys.argv) > 1 else 1)

def rand_tree(n_nodes_max):
    # random parent array, node 0 is root; ensure every internal node has >= 1 child
    n = rng.randint(1, n_nodes_max)
    par = [-1]
    for i in range(1, n):
        par.append(rng.randrange(0, i) if rng.random() < 0.7 else max(0, i - rng.randint(1, 2)))
    return par

cases = []
for k in range(4000):
    par = rand_tree(12)
    n = len(par)
    kids = {i: [j for j in range(n) if par[j] == i] for i in range(n)}
    leaves = [i for i in range(n) if not kids[i]]
    ns_size = len(leaves) + rng.randint(0, 3)
    bits = rng.sample(range(ns_size), len(leaves))
    tax = [-1] * n
    for l, b in zip(leaves, bits): tax[l] = b
    rooted = rng.random() < 0.5
    cases.append((rooted, par, tax, ns_size))

def impl(rooted, par, tax, ns_size):
    tns = TaxonNamespace(["t%d" % i for i in range(ns_size)])
    # optionally punch a hole at bit 0 by removing a taxon that is unused
    nodes = [Node() for _ in par]
    for i, p in enumerate(par):
        if tax[i] >= 0: nodes[i].taxon = tns[tax[i]]
    for i, p in enumerate(par):
        if p >= 0: nodes[p].add_child(nodes[i])
    t = Tree(taxon_namespace=tns, seed_node=nodes[0])
    t.is_rooted = rooted
    t.encode_bipartitions()
    t._debug_tree_is_valid()
    pairs = sorted((b.leafset_bitmask, b.split_bitmask) for b in t.bipartition_encoding)
    return " ".join("%d:%d" % p for p in pairs)

lines = ["encode %d %d %s %s" % (1 if r else 0, len(par), " ".join(map(str, par)), " ".join(map(str, tax))) for r, par, tax, _ in cases]
out = subprocess.run(["/tmp/lt/DV/.lake/build/bin/driver"], input="\n".join(lines) + "\n", capture_output=True, text=True).stdout.split("\n")
bad = 0
for c, mo in zip(cases, out):
    po = impl(*c)
    if po != mo.strip():
        bad += 1
        if bad < 8: print("DIFF", c, "| impl:", po, "| model:", mo)
print("cases", len(cases), "disagreements", bad)
