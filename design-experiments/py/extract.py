"""Prototype of the extractor: Python pure-int functions -> Lean Int definitions; regex/sets -> Lean tables."""
import ast, inspect, re, sys, textwrap
sys.path.insert(0, "/repo/src")

BINOP = {ast.BitAnd: "pand", ast.BitOr: "por", ast.BitXor: "pxor"}
ARITH = {ast.Sub: "-", ast.Add: "+", ast.Mult: "*"}
CMP = {ast.Eq: "==", ast.NotEq: "!=", ast.Lt: "<", ast.LtE: "<=", ast.Gt: ">", ast.GtE: ">="}

class Unsupported(Exception): pass

def expr(e, boolctx=False):
    if isinstance(e, ast.Name): return e.id
    if isinstance(e, ast.Constant):
        if isinstance(e.value, bool): return "true" if e.value else "false"
        if isinstance(e.value, int): return f"({e.value} : Int)"
        raise Unsupported(ast.dump(e))
    if isinstance(e, ast.BinOp):
        l, r = expr(e.left), expr(e.right)
        if type(e.op) in BINOP: return f"({BINOP[type(e.op)]} {l} {r})"
        if type(e.op) in ARITH: return f"({l} {ARITH[type(e.op)]} {r})"
        raise Unsupported(ast.dump(e))
    if isinstance(e, ast.UnaryOp):
        if isinstance(e.op, ast.Invert): return f"(pnot {expr(e.operand)})"
        if isinstance(e.op, ast.Not): return f"(!{cond(e.operand)})"
        raise Unsupported(ast.dump(e))
    if isinstance(e, ast.Compare) and len(e.ops) == 1:
        return f"(decide ({expr(e.left)} {CMP[type(e.ops[0])].replace('==','=').replace('!=','≠')} {expr(e.comparators[0])}))"
    if isinstance(e, ast.BoolOp):
        op = " || " if isinstance(e.op, ast.Or) else " && "
        return "(" + op.join(cond(v) for v in e.values) + ")"
    raise Unsupported(ast.dump(e))

def cond(e):
    """Python truthiness of an int expression or a bool expression"""
    if isinstance(e, (ast.Compare, ast.BoolOp)) or (isinstance(e, ast.UnaryOp) and isinstance(e.op, ast.Not)):
        return expr(e)
    if isinstance(e, ast.Constant) and isinstance(e.value, bool):
        return expr(e)
    return f"(decide ({expr(e)} ≠ 0))"

def block(stmts, env_assigned, ind):
    """translate a statement list that always ends in return (possibly via if/else)"""
    pad = "  " * ind
    if not stmts: raise Unsupported("fell off the end")
    s, rest = stmts[0], stmts[1:]
    if isinstance(s, ast.Expr) and isinstance(s.value, ast.Constant) and isinstance(s.value.value, str):
        return block(rest, env_assigned, ind)          # docstring
    if isinstance(s, ast.Return):
        v = s.value
        if isinstance(v, ast.Constant) and isinstance(v.value, bool): return pad + expr(v)
        return pad + (expr(v))
    if isinstance(s, ast.Assign) and len(s.targets) == 1 and isinstance(s.targets[0], ast.Name):
        return f"{pad}let {s.targets[0].id} := {expr(s.value)}\n" + block(rest, env_assigned, ind)
    if isinstance(s, ast.If):
        body_returns = isinstance(s.body[-1], (ast.Return,)) or isinstance(s.body[-1], ast.If)
        if s.orelse:
            return (f"{pad}if {cond(s.test)} then\n" + block(s.body + ([] if body_returns else rest), env_assigned, ind+1)
                    + f"\n{pad}else\n" + block(s.orelse + rest, env_assigned, ind+1))
        if body_returns:
            return (f"{pad}if {cond(s.test)} then\n" + block(s.body, env_assigned, ind+1)
                    + f"\n{pad}else\n" + block(rest, env_assigned, ind+1))
        # conditional reassignment of variables:  if c: x = e   ==> let x := if c then e else x
        if all(isinstance(b, ast.Assign) and isinstance(b.targets[0], ast.Name) for b in s.body):
            out = ""
            for b in s.body:
                n = b.targets[0].id
                out += f"{pad}let {n} := if {cond(s.test)} then {expr(b.value)} else {n}\n"
            return out + block(rest, env_assigned, ind)
    raise Unsupported(ast.dump(s)[:200])

def translate(fn, ret="Int"):
    src = textwrap.dedent(inspect.getsource(fn))
    f = ast.parse(src).body[0]
    args = [a.arg for a in f.args.args]
    body = block(f.body, set(), 1)
    return f"def {f.name} ({' '.join(args)} : Int) : {ret} :=\n{body}\n"

def regex_class(rx):
    m = re.fullmatch(r"\[(.*)\]", rx, re.S)
    assert m, rx
    body, out, i = m.group(1), [], 0
    while i < len(body):
        c = body[i]
        if c == "\\":
            n = body[i+1]
            out.append({"t": "\t", "n": "\n", "0": "\0"}.get(n, n)); i += 2
        else:
            out.append(c); i += 1
    return out

if __name__ == "__main__":
    from dendropy.datamodel.treemodel._bipartition import Bipartition
    from dendropy.utility import bitprocessing
    from dendropy.dataio import nexusprocessing, newickwriter
    print("import Mathlib.Data.Int.Bitwise\nnamespace PyBits")
    print("def pand (a b : Int) : Int := Int.land a b\ndef por (a b : Int) : Int := Int.lor a b\ndef pxor (a b : Int) : Int := Int.xor a b\ndef pnot (a : Int) : Int := Int.lnot a\n")
    print(translate(Bipartition.normalize_bitmask))
    print(translate(Bipartition.is_trivial_bitmask, "Bool"))
    print(translate(Bipartition.is_compatible_bitmasks, "Bool"))
    print(translate(bitprocessing.least_significant_set_bit))
    # tables
    dflt = inspect.signature(nexusprocessing.escape_nexus_token).parameters["protect_regex"].default
    src = inspect.getsource(newickwriter.NewickWriter._render_node_tag)
    override = re.search(r"protect_regex=r'''(.*?)'''", src, re.S).group(1)
    import io
    tk = nexusprocessing.NexusTokenizer(io.StringIO(""))
    def lean_chars(cs): return "[" + ", ".join("Char.ofNat %d" % ord(c) for c in sorted(cs)) + "]"
    print("def protectDefault : List Char :=", lean_chars(regex_class(dflt)))
    print("def protectNewick : List Char :=", lean_chars(regex_class(override)))
    print("def tokUncaptured : List Char :=", lean_chars(tk.uncaptured_delimiters))
    print("def tokCaptured : List Char :=", lean_chars(tk.captured_delimiters))
    print("def tokQuote : List Char :=", lean_chars(tk.quote_chars))
    print("def tokCommentBegin : List Char :=", lean_chars(tk.comment_begin))
    print("#eval normalize_bitmask 5 15 1\n#eval is_trivial_bitmask 3 15\n#eval is_compatible_bitmasks 3 6 15\n#eval least_significant_set_bit 40")
    print("#eval tokCaptured.filter (fun c => !protectNewick.contains c)")
    print("end PyBits")
