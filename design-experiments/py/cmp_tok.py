import sys, random, subprocess, io, warnings
sys.path.insert(0, "/repo/src")
warnings.simplefilter("ignore")
from dendropy.dataio.nexusprocessing import NexusTokenizer
from dendropy.dataio.tokenizer import Tokenizer

ALPHA = list("ab_ '(),;:=[]\\\"\t\n{}x1.")
rng = random.Random(int(sys.argv[1]) if len(sys.argv) > 1 else 1)
cases = []
for k in range(20000):
    n = rng.randint(0, 12)
    s = "".join(rng.choice(ALPHA) for _ in range(n))
    cases.append((rng.random() < 0.5, s))

def impl(pu, s):
    tk = NexusTokenizer(io.StringIO(s), preserve_unquoted_underscores=pu)
    out = []
    try:
        for t in tk:
            out.append(("Q:" if tk.is_token_quoted else "P:") + t.encode("latin-1").hex())
            if len(out) > 50: out.append("RUNAWAY"); break
        out.append("EOF")
    except Tokenizer.TokenizerError:
        out.append("ERR")
    except RecursionError:
        out.append("REC")
    return " ".join(out)

lines = ["tokens %d %s" % (1 if pu else 0, s.encode("latin-1").hex()) for pu, s in cases]
out = subprocess.run(["/tmp/lt/DV/.lake/build/bin/driver"], input="\n".join(lines) + "\n", capture_output=True, text=True).stdout.split("\n")
bad = 0
for (pu, s), mo in zip(cases, out):
    po = impl(pu, s)
    if po != mo.strip():
        bad += 1
        if bad < 12: print("DIFF", pu, repr(s), "| impl:", po, "| model:", mo)
print("cases", len(cases), "disagreements", bad)
