import sys, random, warnings, itertools, math
sys.path.insert(0, "/repo/src")
warnings.simplefilter("ignore")
import dendropy
from dendropy import Tree, TaxonNamespace, Node
from dendropy.calculate import treemeasure
from dendropy.utility import error
from fractions import Fraction as F
rng = random.Random(17)
issues = {}
def note(op, msg, ex): issues.setdefault((op, msg), []).append(ex)

def ultra(n, binary=True):
    tns = TaxonNamespace(["t%d" % i for i in range(n)])
    items = [(Node(taxon=tx), 0.0) for tx in tns]
    age = 0.0
    while len(items) > 1:
        age += rng.choice([0.5, 1.0, 1.5, 0.25])
        k = 2 if binary or len(items) < 3 or rng.random() < 0.7 else 3
        grp = [items.pop(rng.randrange(len(items))) for _ in range(k)]
        p = Node()
        for nd, ag in grp:
            nd.edge.length = age - ag; p.add_child(nd)
        items.append((p, age))
    t = Tree(taxon_namespace=tns, seed_node=items[0][0]); t.is_rooted = True
    return t

def tipdist(nd):
    if not nd._child_nodes: return [F(0)]
    out = []
    for c in nd._child_nodes:
        out += [F(c.edge.length) + x for x in tipdist(c)]
    return out
def rootdist(nd):
    s = F(0)
    while nd._parent_node is not None: s += F(nd.edge.length); nd = nd._parent_node
    return s
def depth(nd):
    k = 0
    while nd._parent_node is not None: k += 1; nd = nd._parent_node
    return k
def nleaves(nd): return sum(1 for _ in nd.leaf_iter())

for trial in range(1200):
    n = rng.randint(2, 8)
    binary = rng.random() < 0.6
    t = ultra(n, binary)
    t0 = t.as_string("newick").strip()
    # ages
    try:
        t.calc_node_ages()
        for nd in t.preorder_node_iter():
            td = set(tipdist(nd))
            if len(td) != 1 or F(nd.age) != td.pop(): note("calc_node_ages", "age != tip distance", t0); break
    except Exception as e:
        note("calc_node_ages", "EXC " + type(e).__name__, t0)
    # lengths from ages roundtrip
    lens = {id(nd): nd.edge.length for nd in t.preorder_node_iter() if nd._parent_node is not None}
    t.set_edge_lengths_from_node_ages()
    if any(F(nd.edge.length) != F(lens[id(nd)]) for nd in t.preorder_node_iter() if nd._parent_node is not None):
        note("set_edge_lengths_from_node_ages", "not restored", t0)
    # lineages
    rd = [(rootdist(nd._parent_node), rootdist(nd)) for nd in t.preorder_node_iter() if nd._parent_node is not None]
    for d in [F(0), F(1, 4), F(1, 2), F(1), F(3, 2), F(2), max(b for a, b in rd)]:
        exp = sum(1 for a, b in rd if a < d <= b)
        got = t.num_lineages_at(float(d))
        if got != exp: note("num_lineages_at", "differs", (t0, float(d), got, exp)); break
    # perturbation around precision
    prec = 0.01
    lf = rng.choice(t.leaf_nodes())
    for delta, should_raise in ((prec * 0.5, False), (prec * 2, True)):
        t2 = Tree(t); l2 = t2.find_node_with_taxon_label(lf.taxon.label)
        l2.edge.length += delta
        try:
            t2.calc_node_ages(ultrametricity_precision=prec); raised = False
        except error.UltrametricityError: raised = True
        if raised != should_raise and n > 1: note("calc_node_ages", "precision side wrong", (t0, lf.taxon.label, delta, raised))
    # statistics
    leaves = t.leaf_nodes()
    anc = sum(depth(l) for l in leaves)
    if abs(treemeasure.N_bar(t) - anc / len(leaves)) > 1e-12: note("N_bar", "differs", t0)
    if abs(treemeasure.sackin_index(t, normalize=False) - anc) > 1e-12: note("sackin", "differs", t0)
    b1 = 0.0
    def maxdepth_to_tip(nd): return 0 if not nd._child_nodes else 1 + max(maxdepth_to_tip(c) for c in nd._child_nodes)
    for nd in t.preorder_node_iter():
        if nd._child_nodes and nd._parent_node is not None: b1 += 1.0 / maxdepth_to_tip(nd)
    if abs(treemeasure.B1(t) - b1) > 1e-12: note("B1", "differs", (t0, treemeasure.B1(t), b1))
    if binary:
        col = sum(abs(nleaves(nd._child_nodes[0]) - nleaves(nd._child_nodes[1])) for nd in t.preorder_node_iter() if nd._child_nodes)
        try:
            if abs(treemeasure.colless_tree_imbalance(t, normalize=None) - col) > 1e-12: note("colless", "differs", t0)
        except Exception as e: note("colless", "EXC " + type(e).__name__ + str(e)[:30], t0)
        # gamma: Pybus-Harvey
        if n >= 3:
            ages = sorted((F(nd.age) for nd in t.preorder_node_iter() if nd._child_nodes), reverse=True)
            g = [ages[i] - ages[i + 1] for i in range(len(ages) - 1)] + [ages[-1]]   # g_2..g_n
            T = sum((k + 2) * g[k] for k in range(n - 1))
            acc = sum(sum((k + 2) * g[k] for k in range(i - 1)) for i in range(2, n))
            try:
                exp = (float(acc) / (n - 2) - float(T) / 2) / (float(T) * math.sqrt(1.0 / (12 * (n - 2))))
                got = treemeasure.pybus_harvey_gamma(t)
                if abs(got - exp) > 1e-9: note("gamma", "differs", (t0, got, exp))
            except ZeroDivisionError: pass
            except Exception as e: note("gamma", "EXC " + type(e).__name__ + str(e)[:30], t0)
    else:
        try:
            treemeasure.colless_tree_imbalance(t, normalize=None)
            if any(len(nd._child_nodes) > 2 for nd in t.preorder_node_iter()): note("colless", "no error on polytomy", t0)
        except TypeError: pass
        except Exception as e: note("colless", "EXC " + type(e).__name__ + str(e)[:30], t0)
    ext = sum(F(l.edge.length) for l in leaves); inte = sum(F(nd.edge.length) for nd in t.preorder_node_iter() if nd._child_nodes and nd._parent_node is not None)
    try:
        if abs(treemeasure.treeness(t) - float(inte / (ext + inte))) > 1e-12: note("treeness", "differs", t0)
    except ZeroDivisionError: pass
for (op, msg), exs in sorted(issues.items()):
    print(op, "|", msg, "|", len(exs), "| e.g.", exs[0])
print("done")
