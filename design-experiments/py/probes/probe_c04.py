import sys, random, warnings, itertools, math
sys.path.insert(0, "/repo/src")
warnings.simplefilter("ignore")
import dendropy
from dendropy import Tree, TaxonNamespace, Node, TreeList
from dendropy.calculate import treecompare
from fractions import Fraction as F
rng = random.Random(4)
issues = {}
def note(op, msg, ex): issues.setdefault((op, msg), []).append(ex)

def rand_tree(tns, unrooted, poly=0.3, lengths=True):
    items = []
    for tx in tns:
        n = Node(taxon=tx); n.edge.length = rng.choice([0.0, 0.5, 1.0, 2.0]) if lengths else None; items.append(n)
    rng.shuffle(items)
    while len(items) > 1:
        k = 2 if rng.random() > poly else min(3, len(items))
        grp = [items.pop(rng.randrange(len(items))) for _ in range(k)]
        p = Node(); p.edge.length = rng.choice([0.5, 1.0, 2.0]) if lengths else None
        for g in grp: p.add_child(g)
        items.append(p)
    t = Tree(taxon_namespace=tns, seed_node=items[0]); t.is_rooted = not unrooted
    return t

def splits_by_hand(t):
    """independent: clades as frozensets of labels; unrooted: normalised to exclude lowest label; with lengths"""
    L = frozenset(l.taxon.label for l in t.leaf_node_iter())
    low = min(L)
    out = {}
    tt = Tree(t)
    if not tt.is_rooted and len(tt.seed_node._child_nodes) == 2: tt.collapse_basal_bifurcation(set_as_unrooted_tree=False)
    tt.suppress_unifurcations()
    for nd in tt.postorder_node_iter():
        c = frozenset(l.taxon.label for l in nd.leaf_iter())
        if not tt.is_rooted and low in c: c = L - c
        ln = nd.edge.length
        out[c] = F(ln) if ln is not None else F(0)
    return out

for trial in range(1500):
    n = rng.randint(3, 7)
    tns = TaxonNamespace(["t%d" % i for i in range(n)])
    unrooted = rng.random() < 0.5
    ts = [rand_tree(tns, unrooted) for _ in range(3)]
    S = [splits_by_hand(t) for t in ts]
    def rf(i, j): return len(set(S[i]) ^ set(S[j]))
    def wrf(i, j): return sum(abs(S[i].get(k, 0) - S[j].get(k, 0)) for k in set(S[i]) | set(S[j]))
    def eu2(i, j): return sum((S[i].get(k, 0) - S[j].get(k, 0)) ** 2 for k in set(S[i]) | set(S[j]))
    for i, j in [(0, 1), (1, 0), (0, 2), (1, 2), (0, 0)]:
        try:
            g = treecompare.symmetric_difference(ts[i], ts[j])
            if g != rf(i, j): note("rf", "differs from |S1 Δ S2|", (ts[i].as_string("newick").strip(), ts[j].as_string("newick").strip(), g, rf(i, j)))
            fp, fn = treecompare.false_positives_and_negatives(ts[i], ts[j])
            if (fp, fn) != (len(set(S[j]) - set(S[i])), len(set(S[i]) - set(S[j]))): note("fpfn", "differs", (i, j))
            w = treecompare.weighted_robinson_foulds_distance(ts[i], ts[j])
            if F(w) != wrf(i, j): note("wrf", "differs from L1", (ts[i].as_string("newick").strip(), ts[j].as_string("newick").strip(), w, float(wrf(i, j))))
            e = treecompare.euclidean_distance(ts[i], ts[j])
            if abs(e * e - float(eu2(i, j))) > 1e-9: note("euclid", "differs from L2", (e, float(eu2(i, j))))
        except Exception as ex:
            note("dist", "EXC " + type(ex).__name__ + str(ex)[:40], (i, j))
    # invariance: redraw ts[0]
    r = Tree(ts[0]); r.randomly_rotate(rng=rng)
    if unrooted:
        internal = [nd for nd in r.preorder_node_iter() if nd._child_nodes and nd._parent_node is not None]
        if internal: r.reseed_at(rng.choice(internal))
    for fn in (treecompare.symmetric_difference, treecompare.weighted_robinson_foulds_distance, treecompare.euclidean_distance):
        v = fn(ts[0], r)
        if abs(v) > 1e-12: note(fn.__name__, "nonzero on re-drawing", (ts[0].as_string("newick").strip(), r.as_string("newick").strip(), v)); break
    # staleness: edit then measure with defaults
    a = Tree(ts[0]); b = Tree(ts[1])
    treecompare.symmetric_difference(a, b)
    lv = [l for l in a.leaf_nodes()]
    if len(lv) > 3:
        internal = [nd for nd in a.preorder_node_iter() if nd._child_nodes and nd._parent_node is not None]
        if internal:
            rng.choice(internal).edge.collapse()
            g = treecompare.symmetric_difference(a, b)
            exp = len(set(splits_by_hand(a)) ^ set(splits_by_hand(b)))
            if g != exp: note("rf", "stale after edit", (g, exp))
    # different namespaces
    other = rand_tree(TaxonNamespace(["t%d" % i for i in range(n)]), unrooted)
    try:
        treecompare.symmetric_difference(ts[0], other); note("rf", "different namespaces not refused", None)
    except dendropy.utility.error.TaxonNamespaceIdentityError: pass
for (op, msg), exs in sorted(issues.items()):
    print(op, "|", msg, "|", len(exs), "| e.g.", str(exs[0])[:260])
print("done")
