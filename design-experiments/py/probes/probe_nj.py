import sys, random, warnings, itertools, math
sys.path.insert(0, "/repo/src")
warnings.simplefilter("ignore")
import dendropy
from dendropy import Tree, TaxonNamespace, Node
from dendropy.calculate import treecompare
from fractions import Fraction as F
exec(open("/tmp/probe_c07.py").read().split("issues = {}")[0].split("rng = random.Random(7)")[1])
rng = random.Random(15)
bad = 0; tot = 0
for trial in range(400):
    n = rng.randint(3, 8)
    t = rand_tree(n, True, poly=0.0)
    for nd in t.preorder_node_iter():
        if nd._parent_node is not None:
            nd.edge.length = rng.choice([0.5, 1.0, 1.5, 2.0, 0.25]) if nd._child_nodes else rng.choice([0.0, 0.5, 1.0, 2.0])
    t.is_rooted = False
    t0 = t.as_string("newick").strip()
    pdm = t.phylogenetic_distance_matrix()
    nj = pdm.nj_tree()
    tot += 1
    d0 = dist_matrix(t); d1 = dist_matrix(nj)
    same = all(abs(float(d0[k] - d1[k])) < 1e-9 for k in d0)
    rf = treecompare.symmetric_difference(t, nj)
    if rf != 0 or not same:
        bad += 1
        if bad < 5: print("NJ mismatch", t0, "->", nj.as_string("newick").strip(), rf, same)
print("nj", tot, "bad", bad)
# UPGMA on ultrametric
bad = 0; tot = 0
for trial in range(400):
    n = rng.randint(2, 8)
    # ultrametric by assigning ages
    tns = TaxonNamespace(["t%d" % i for i in range(n)])
    items = [(Node(taxon=tx), 0.0) for tx in tns]
    age = 0.0
    while len(items) > 1:
        age += rng.choice([0.5, 1.0, 1.5])
        a = items.pop(rng.randrange(len(items))); b = items.pop(rng.randrange(len(items)))
        p = Node()
        for nd, ag in (a, b):
            nd.edge.length = age - ag; p.add_child(nd)
        items.append((p, age))
    t = Tree(taxon_namespace=tns, seed_node=items[0][0]); t.is_rooted = True
    t0 = t.as_string("newick").strip()
    up = t.phylogenetic_distance_matrix().upgma_tree()
    tot += 1
    d0 = dist_matrix(t); d1 = dist_matrix(up)
    same = all(abs(float(d0[k] - d1[k])) < 1e-9 for k in d0)
    rf = treecompare.symmetric_difference(t, up)
    if rf != 0 or not same:
        bad += 1
        if bad < 5: print("UPGMA mismatch", t0, "->", up.as_string("newick").strip(), rf, same)
print("upgma", tot, "bad", bad)
