import sys, random, warnings, io
sys.path.insert(0, "/repo/src")
warnings.simplefilter("ignore")
import dendropy
from dendropy import TaxonNamespace, DataSet
rng = random.Random(9)
issues = {}
def note(op, msg, ex): issues.setdefault((op, msg), []).append(ex)

TYPES = {
 "dna": (dendropy.DnaCharacterMatrix, "ACGTRYMKWSBDHVN-?"),
 "rna": (dendropy.RnaCharacterMatrix, "ACGURYMKWSBDHVN-?"),
 "protein": (dendropy.ProteinCharacterMatrix, "ACDEFGHIKLMNPQRSTVWYBZX*-?"),
 "standard": (dendropy.StandardCharacterMatrix, "0123456789-?"),
 "restriction": (dendropy.RestrictionSitesCharacterMatrix, "01-?"),
 "infinite": (dendropy.InfiniteSitesCharacterMatrix, "01-?"),
 "nucleotide": (dendropy.NucleotideCharacterMatrix, "ACGTURYMKWSBDHVN-?"),
}
FORMATS = ["nexus", "phylip", "fasta", "nexml"]
def content(m): return [(t.label, m[t].symbols_as_string()) for t in m]

for trial in range(500):
    dt = rng.choice(list(TYPES)); cls, syms = TYPES[dt]
    ntax = rng.randint(1, 5); nchar = rng.randint(1, 12)
    labels = rng.sample(["A", "B_b", "C c", "D1", "e", "Taxon6", "x.y"], ntax)
    d = {l: "".join(rng.choice(syms) for _ in range(nchar)) for l in labels}
    try:
        m = cls.from_dict(d)
    except Exception as ex:
        note(dt, "from_dict EXC " + type(ex).__name__ + str(ex)[:40], d); continue
    ref = content(m)
    if ref != [(l, d[l].upper() if dt not in ("standard",) else d[l]) for l in labels] and ref != list(d.items()):
        note(dt, "from_dict content differs", (d, ref))
    for fmt in FORMATS:
        kw = {}
        if fmt == "phylip": kw = dict(strict=False, spaces_to_underscores=True)
        try:
            s = m.as_string(fmt, **kw)
        except Exception as ex:
            note(dt + "->" + fmt, "write EXC " + type(ex).__name__ + ": " + str(ex)[:50], d); continue
        rkw = {}
        if fmt == "phylip": rkw = dict(strict=False, underscores_to_spaces=True)
        try:
            m2 = cls.get(data=s, schema=fmt, **rkw)
        except Exception as ex:
            note(dt + "->" + fmt, "read EXC " + type(ex).__name__ + ": " + str(ex)[:60], (d, s[:200])); continue
        got = content(m2)
        if got != ref:
            note(dt + "->" + fmt, "content differs", (ref, got))
for (op, msg), exs in sorted(issues.items()):
    print(op, "|", msg, "|", len(exs), "| e.g.", str(exs[0])[:230])
print("done")
