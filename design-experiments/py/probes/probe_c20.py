import sys, random, warnings, io, signal
sys.path.insert(0, "/repo/src")
warnings.simplefilter("ignore")
import dendropy
from dendropy import Tree, TaxonNamespace, TreeList, DataSet
from dendropy.utility import error
rng = random.Random(20)
issues = {}
def note(op, msg, ex): issues.setdefault((op, msg), []).append(ex)
class TO(Exception): pass
def h(*a): raise TO()
signal.signal(signal.SIGALRM, h)

NEX = """#NEXUS
BEGIN TAXA;
  TITLE tx;
  DIMENSIONS NTAX=3;
  TAXLABELS A B 'C d';
END;
BEGIN CHARACTERS;
  TITLE ch;
  LINK TAXA = tx;
  DIMENSIONS NCHAR=4;
  FORMAT DATATYPE=DNA GAP=- MISSING=? INTERLEAVE=NO;
  MATRIX
    A ACGT
    B A{CG}-?
    'C d' TTTT
  ;
END;
BEGIN TREES;
  LINK TAXA = tx;
  TRANSLATE 1 A, 2 B, 3 'C d';
  TREE t1 = [&R] ((1:1,2:2):0.5,3:1);
  TREE t2 = [&U] (1,2,3);
END;
BEGIN SETS;
  CHARSET first = 1-2;
END;
"""
NWK = "[&R] ((A:1,B:2)x:0.5,'C d':1)r;\n(A,B,(C,D));\n"
PHY = "3 4\nA         ACGT\nB         AC-?\nC         TTTT\n"
FAS = ">A\nACGT\n>B\nAC-?\n>C d\nTTTT\n"

def run(kind, text):
    signal.setitimer(signal.ITIMER_REAL, 2.0)
    try:
        if kind == "nexus": d = DataSet.get(data=text, schema="nexus")
        elif kind == "newick": d = TreeList.get(data=text, schema="newick")
        elif kind == "phylip": d = dendropy.DnaCharacterMatrix.get(data=text, schema="phylip")
        elif kind == "fasta": d = dendropy.DnaCharacterMatrix.get(data=text, schema="fasta")
        return ("ok", d)
    except TO: return ("TIMEOUT", None)
    except error.DataParseError as e: return ("parse", type(e).__name__)
    except ValueError as e: return ("ValueError", str(e)[:40])
    except Exception as e: return ("INTERNAL " + type(e).__name__, str(e)[:60])
    finally: signal.setitimer(signal.ITIMER_REAL, 0)

for kind, doc in (("nexus", NEX), ("newick", NWK), ("phylip", PHY), ("fasta", FAS)):
    for k in range(len(doc) + 1):
        r = run(kind, doc[:k])
        if r[0] in ("ok", "parse"):
            if r[0] == "ok" and kind in ("phylip", "fasta") and k < len(doc):
                m = r[1]
                lens = [len(m[t]) for t in m.taxon_namespace if t in m]
                if kind == "phylip" and (len(lens) != 3 or any(x != 4 for x in lens)): note(kind, "ok but dims contradict declaration", (k, lens))
            continue
        if r[0] == "ValueError" and k == 0: continue
        note(kind, r[0] + (": " + str(r[1]) if r[1] else ""), (k, repr(doc[:k][-25:])))
    # single-char edits
    for _ in range(600):
        i = rng.randrange(len(doc)); op = rng.choice(["del", "ins", "rep"])
        ch = rng.choice(";,()=:'[]{}- \nABx1")
        if op == "del": t = doc[:i] + doc[i+1:]
        elif op == "ins": t = doc[:i] + ch + doc[i:]
        else: t = doc[:i] + ch + doc[i+1:]
        r = run(kind, t)
        if r[0] not in ("ok", "parse"): note(kind + " edit", r[0] + (": " + str(r[1]) if r[1] else ""), (op, i, ch, repr(t[max(0,i-15):i+15])))
for (op, msg), exs in sorted(issues.items()):
    print(op, "|", msg, "|", len(exs), "| e.g.", str(exs[0])[:200])
print("done")
