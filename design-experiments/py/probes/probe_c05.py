import sys, random, warnings, itertools, math
sys.path.insert(0, "/repo/src")
warnings.simplefilter("ignore")
import dendropy
from dendropy import Tree, TaxonNamespace, Node, TreeList
from dendropy.datamodel.treemodel import Bipartition
from fractions import Fraction as F
exec(open("/tmp/probe_c04.py").read().split("for trial in range(1500):")[0].split("rng = random.Random(4)")[1])
rng = random.Random(5)
issues = {}
def note(op, msg, ex): issues.setdefault((op, msg), []).append(ex)

def compat(a, b, L, rooted):
    # a,b frozensets (normalised if unrooted)
    return (not (a & b)) or a <= b or b <= a
for trial in range(800):
    n = rng.randint(4, 7)
    tns = TaxonNamespace(["t%d" % i for i in range(n)])
    unrooted = rng.random() < 0.5
    k = rng.randint(1, 8)
    base = [rand_tree(tns, unrooted, poly=0.2) for _ in range(rng.randint(1, 3))]
    trees = TreeList(taxon_namespace=tns)
    for _ in range(k): trees.append(Tree(rng.choice(base)) if rng.random() < 0.7 else rand_tree(tns, unrooted, poly=0.2))
    use_w = rng.random() < 0.5
    ws = []
    for t in trees:
        w = rng.choice([1, 2, 3, 0.5]) if use_w else None
        t.weight = w; ws.append(F(w) if w is not None else F(1))
    S = [splits_by_hand(t) for t in trees]
    W = sum(ws)
    freq = {}
    for s, w in zip(S, ws):
        for c in s: freq[c] = freq.get(c, F(0)) + w
    for c in freq: freq[c] /= W
    L = frozenset(x.label for x in tns)
    def mask_to_set(m): return frozenset(tns[i].label for i in range(n) if m >> i & 1)
    sd = trees.split_distribution()
    got = {mask_to_set(m): f for m, f in sd.split_frequencies.items()}
    if set(got) != set(freq) or any(abs(got[c] - float(freq[c])) > 1e-12 for c in freq):
        note("freq", "differs", (len(trees), use_w)); continue
    for thr in [0.5000001, 0.6, 0.75, 1.0, 0.5, 0.3, 0.1]:
        try:
            con = trees.consensus(min_freq=thr)
        except Exception as ex:
            note("consensus", "EXC " + type(ex).__name__ + str(ex)[:40], thr); continue
        cs = set(c for c in splits_by_hand(con) if 1 < len(c) < n and len(L - c) > (0 if not unrooted else 1))
        nontriv = {c: f for c, f in freq.items() if 1 < len(c) < n and (not unrooted or len(L - c) > 1)}
        if sorted(l.taxon.label for l in con.leaf_node_iter()) != sorted(L): note("consensus", "does not span taxa", thr)
        if bool(con.is_rooted) != (not unrooted): note("consensus", "rooting differs", (con.is_rooted, unrooted))
        if thr > 0.5:
            exp = set(c for c, f in nontriv.items() if f >= F(thr).limit_denominator(10**9) or abs(float(f) - thr) < 1e-12)
            if cs != exp: note("consensus", "majority set differs", (thr, sorted(map(sorted, cs)), sorted(map(sorted, exp))))
        else:
            # none below threshold, pairwise compatible, maximal
            if any(float(nontriv.get(c, 0)) < thr - 1e-12 for c in cs): note("consensus", "split below threshold", thr)
            for c, f in nontriv.items():
                if float(f) >= thr and c not in cs and all(compat(c, d, L, not unrooted) for d in cs):
                    note("consensus", "not maximal", (thr, sorted(c))); break
        # support on consensus nodes
        for nd in con.postorder_internal_node_iter(exclude_seed_node=True):
            c = frozenset(l.taxon.label for l in nd.leaf_iter())
            if unrooted and min(L) in c: c = L - c
            if abs(nd.support - float(freq.get(c, 0))) > 1e-9: note("support", "differs", (thr,)); break
for (op, msg), exs in sorted(issues.items()):
    print(op, "|", msg, "|", len(exs), "| e.g.", str(exs[0])[:260])
print("done")
