import sys, random, warnings
sys.path.insert(0, "/repo/src")
warnings.simplefilter("ignore")
import dendropy
from dendropy import Tree, TaxonNamespace
from dendropy.simulate import treesim
from dendropy.model import birthdeath, coalescent
import dendropy.utility as du
issues = {}
def note(op, msg, ex): issues.setdefault((op, msg), []).append(ex)

class Trip(random.Random):
    def _bad(self, *a, **k): raise AssertionError("GLOBAL_RNG touched")
    random = expovariate = gauss = randint = sample = shuffle = choice = uniform = randrange = _bad
def with_tripwire(f):
    import dendropy.model.birthdeath as bd, dendropy.model.coalescent as co, dendropy.calculate.probability as pr, dendropy.datamodel.treemodel._tree as tr
    saved = [(m, m.GLOBAL_RNG) for m in (bd, co, pr, tr, du)]
    trip = Trip()
    for m, _ in saved: m.GLOBAL_RNG = trip
    try: return f()
    finally:
        for m, v in saved: m.GLOBAL_RNG = v

def rootdists(t):
    out = {}
    for l in t.leaf_node_iter():
        s = 0.0; nd = l
        while nd._parent_node is not None: s += nd.edge.length; nd = nd._parent_node
        out[l] = s
    return out
def wf_bif(t):
    t._debug_tree_is_valid()
    return all(len(nd._child_nodes) in (0, 2) for nd in t.preorder_node_iter())

for seed in range(400):
    N = 2 + seed % 9
    b = 1.0; d = [0.0, 0.3, 0.7, 0.9][seed % 4]
    for name, fn in (("birth_death_tree", birthdeath.birth_death_tree), ("fast_birth_death_tree", birthdeath.fast_birth_death_tree)):
        try:
            t1 = with_tripwire(lambda: fn(b, d, num_extant_tips=N, rng=random.Random(seed)))
            t2 = with_tripwire(lambda: fn(b, d, num_extant_tips=N, rng=random.Random(seed)))
        except AssertionError as e: note(name, "global rng used", seed); continue
        except Exception as e: note(name, "EXC " + type(e).__name__ + str(e)[:50], (seed, N, d)); continue
        if t1.as_string("newick") != t2.as_string("newick"): note(name, "not reproducible", seed)
        leaves = t1.leaf_nodes()
        if len(leaves) != N: note(name, "tip count", (seed, N, len(leaves)))
        if len(set(l.taxon for l in leaves)) != N or any(l.taxon is None for l in leaves): note(name, "taxa not distinct", seed)
        if not wf_bif(t1): note(name, "not bifurcating", (seed, t1.as_string("newick").strip()))
        rd = list(rootdists(t1).values())
        if max(rd) - min(rd) > 1e-9 * max(1.0, max(rd)): note(name, "tips not equidistant", (seed, N, d, max(rd) - min(rd)))
    # pure birth
    try:
        t = with_tripwire(lambda: birthdeath.uniform_pure_birth_tree(TaxonNamespace(["t%d" % i for i in range(N)]), rng=random.Random(seed)))
        if len(t.leaf_nodes()) != N or not wf_bif(t): note("uniform_pure_birth_tree", "shape", seed)
    except AssertionError: note("uniform_pure_birth_tree", "global rng used", seed)
    except Exception as e: note("uniform_pure_birth_tree", "EXC " + type(e).__name__ + str(e)[:40], seed)
    # kingman
    tns = TaxonNamespace(["t%d" % i for i in range(N)])
    try:
        k1 = with_tripwire(lambda: coalescent.pure_kingman_tree(tns, pop_size=[1, 10, 0.5][seed % 3], rng=random.Random(seed)))
        k2 = with_tripwire(lambda: coalescent.pure_kingman_tree(tns, pop_size=[1, 10, 0.5][seed % 3], rng=random.Random(seed)))
        if k1.as_string("newick") != k2.as_string("newick"): note("pure_kingman_tree", "not reproducible", seed)
        if sorted(l.taxon.label for l in k1.leaf_node_iter()) != sorted(x.label for x in tns): note("pure_kingman_tree", "leaves != taxa", seed)
        if not wf_bif(k1): note("pure_kingman_tree", "not bifurcating", seed)
        rd = list(rootdists(k1).values())
        if max(rd) - min(rd) > 1e-9 * max(1.0, max(rd)): note("pure_kingman_tree", "not ultrametric", seed)
    except AssertionError: note("pure_kingman_tree", "global rng used", seed)
    # contained coalescent
    try:
        sp = with_tripwire(lambda: birthdeath.birth_death_tree(1.0, 0.0, num_extant_tips=3 + seed % 3, rng=random.Random(seed)))
        gmap = dendropy.TaxonNamespaceMapping.create_contained_taxon_mapping(sp.taxon_namespace, num_contained=1 + seed % 3)
        g1 = with_tripwire(lambda: coalescent.contained_coalescent_tree(sp, gmap, rng=random.Random(seed)))
        g2 = with_tripwire(lambda: coalescent.contained_coalescent_tree(sp, gmap, rng=random.Random(seed)))
        if g1.as_string("newick") != g2.as_string("newick"): note("contained_coalescent_tree", "not reproducible (same process)", seed)
        # no early join: for gene leaves a,b from different species, coalescence age >= species divergence age
        sp.calc_node_ages(); g1.calc_node_ages(ultrametricity_precision=1e-6)
        spd = sp.phylogenetic_distance_matrix(); gd = g1.phylogenetic_distance_matrix()
        gl = [l.taxon for l in g1.leaf_node_iter()]
        for i in range(len(gl)):
            for j in range(i + 1, len(gl)):
                sa, sb = gmap[gl[i]], gmap[gl[j]]
                if sa is sb: continue
                if gd.mrca(gl[i], gl[j]).age < spd.mrca(sa, sb).age - 1e-9: note("contained_coalescent_tree", "join before divergence", seed); break
    except AssertionError: note("contained_coalescent_tree", "global rng used", seed)
    except Exception as e: note("contained_coalescent_tree", "EXC " + type(e).__name__ + ": " + str(e)[:60], seed)
for (op, msg), exs in sorted(issues.items()):
    print(op, "|", msg, "|", len(exs), "| e.g.", str(exs[0])[:220])
print("done")
