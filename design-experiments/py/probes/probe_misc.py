import sys, random, warnings, itertools, copy, signal
sys.path.insert(0, "/repo/src")
warnings.simplefilter("ignore")
import dendropy
from dendropy import Tree, TaxonNamespace, Node, Taxon, TreeList
from dendropy.utility import error
from dendropy.model import parsimony
rng = random.Random(99)
issues = {}
def note(op, msg, ex): issues.setdefault((op, msg), []).append(ex)

# ---------- C10 namespace histories
for trial in range(1500):
    cs = rng.random() < 0.5
    ns = TaxonNamespace(is_case_sensitive=cs)
    bits = {}
    hist = []
    for step in range(rng.randint(1, 25)):
        op = rng.choice(["new", "add", "require", "remove_label", "discard", "sort", "reverse", "relabel", "remove", "clear", "get", "findall", "copyctor", "deepcopy"])
        lab = rng.choice(["a", "A", "b", "B", "c", "ab", "a"])
        hist.append((op, lab))
        try:
            if op == "new": ns.new_taxon(lab)
            elif op == "add": ns.add_taxon(Taxon(lab))
            elif op == "require":
                n0 = len(ns); t = ns.require_taxon(lab)
                match = [x for x in list(ns)[:n0] if (x.label == lab if cs else x.label.lower() == lab.lower())]
                if match and t is not match[0]: note("C10 require", "not first match", hist[:])
                if not match and len(ns) != n0 + 1: note("C10 require", "did not create exactly one", hist[:])
            elif op == "remove_label":
                try: ns.remove_taxon_label(lab)
                except LookupError: pass
            elif op == "discard": ns.discard_taxon_label(lab)
            elif op == "sort": ns.sort()
            elif op == "reverse": ns.reverse()
            elif op == "relabel" and len(ns): rng.choice(list(ns)).label = lab
            elif op == "remove" and len(ns): ns.remove_taxon(rng.choice(list(ns)))
            elif op == "clear" and rng.random() < 0.2: ns.clear()
            elif op == "get":
                t = ns.get_taxon(lab)
                match = [x for x in ns if (x.label == lab if cs else x.label.lower() == lab.lower())]
                if (t is None) != (not match) or (match and t is not match[0]): note("C10 get_taxon", "wrong", hist[:])
            elif op == "findall":
                got = ns.findall(lab); match = [x for x in ns if (x.label == lab if cs else x.label.lower() == lab.lower())]
                if [id(x) for x in got] != [id(x) for x in match]: note("C10 findall", "wrong", hist[:])
            elif op == "copyctor":
                n2 = TaxonNamespace(ns)
                if [n2.taxon_bitmask(t) for t in n2] != [ns.taxon_bitmask(t) for t in ns]: note("C10 copy ctor", "bits differ", hist[:])
            elif op == "deepcopy":
                n2 = copy.deepcopy(ns)
                if [n2.taxon_bitmask(t) for t in n2] != [ns.taxon_bitmask(t) for t in ns]: note("C10 deepcopy", "bits differ", hist[:])
        except Exception as e:
            note("C10 " + op, "EXC " + type(e).__name__ + str(e)[:40], hist[:]); break
        cur = {id(t): ns.taxon_bitmask(t) for t in ns}
        for k, v in cur.items():
            if k in bits and bits[k] != v: note("C10", "bit changed", hist[:])
            if bin(v).count("1") != 1: note("C10", "not single bit", hist[:])
        if len(set(cur.values())) != len(cur): note("C10", "bit shared", hist[:])
        bits = {k: v for k, v in {**bits, **cur}.items() if k in cur}   # forget removed taxa (re-adding gets a new bit)
        sub = [t for t in ns if rng.random() < 0.5]
        m = ns.taxa_bitmask(taxa=sub)
        try:
            back = ns.bitmask_taxa_list(m)
            if set(map(id, back)) != set(map(id, sub)): note("C10", "mask roundtrip wrong", hist[:])
        except Exception as e: note("C10 bitmask_taxa_list", "EXC " + type(e).__name__, hist[:])

# ---------- C16 brute force minimality
from itertools import product
def brute(tree, leafsets, nstates):
    internals = [nd for nd in tree.preorder_node_iter() if nd._child_nodes]
    leaves = [nd for nd in tree.leaf_node_iter()]
    best = None
    for assign in product(range(nstates), repeat=len(internals)):
        st = dict(zip(map(id, internals), assign))
        for lv in product(*[sorted(leafsets[l.taxon.label]) for l in leaves]):
            st2 = dict(st); st2.update(zip(map(id, leaves), lv))
            c = sum(1 for nd in tree.preorder_node_iter() if nd._parent_node is not None and st2[id(nd)] != st2[id(nd._parent_node)])
            if best is None or c < best: best = c
    return best
for trial in range(120):
    n = rng.randint(2, 5)
    tns = TaxonNamespace(["t%d" % i for i in range(n)])
    items = [Node(taxon=t) for t in tns]
    while len(items) > 1:
        a = items.pop(rng.randrange(len(items))); b = items.pop(rng.randrange(len(items)))
        p = Node(); p.add_child(a); p.add_child(b); items.append(p)
    tree = Tree(taxon_namespace=tns, seed_node=items[0])
    nchar = rng.randint(1, 3)
    seqs = {t.label: "".join(rng.choice("ACGTRYN-") for _ in range(nchar)) for t in tns}
    m = dendropy.DnaCharacterMatrix.from_dict(seqs, taxon_namespace=tns)
    sc = parsimony.parsimony_score(Tree(tree), m, gaps_as_missing=True)
    amb = {"A":{0},"C":{1},"G":{2},"T":{3},"R":{0,2},"Y":{1,3},"N":{0,1,2,3},"-":{0,1,2,3}}
    tot = 0
    for ci in range(nchar):
        tot += brute(tree, {l: amb[seqs[l][ci]] for l in seqs}, 4)
    if sc != tot: note("C16", "score != brute-force minimum", (tree._as_newick_string(), seqs, sc, tot))

# ---------- C19 matrix ops (with alarm)
class TO(Exception): pass
def h(*a): raise TO()
signal.signal(signal.SIGALRM, h)
for trial in range(600):
    tns = TaxonNamespace(["a", "b", "c", "d"])
    def mk(label=None, taxa=None, n=None):
        taxa = taxa or list(tns); n = n or rng.randint(1, 5)
        m = dendropy.DnaCharacterMatrix.from_dict({t.label: "".join(rng.choice("ACGT") for _ in range(n)) for t in taxa}, taxon_namespace=tns); m.label = label; return m
    def cont(m): return {t.label: m[t].symbols_as_string() for t in m}
    ms = [mk(rng.choice([None, "x", "y"])) for _ in range(rng.randint(1, 3))]
    before = [cont(m) for m in ms]
    signal.setitimer(signal.ITIMER_REAL, 2.0)
    try:
        c = dendropy.DnaCharacterMatrix.concatenate(ms)
        signal.setitimer(signal.ITIMER_REAL, 0)
        exp = {t.label: "".join(b[t.label] for b in before) for t in tns}
        if cont(c) != exp: note("C19 concatenate", "rows wrong", None)
        subs = list(c.character_subsets.values())
        if len(subs) != len(ms): note("C19 concatenate", "subset count", (len(subs), len(ms)))
        pos = 0
        for s_, b in zip(subs, before):
            L = len(next(iter(b.values())))
            if list(s_.character_indices) != list(range(pos, pos + L)): note("C19 concatenate", "subset indices", None)
            pos += L
    except TO: note("C19 concatenate", "TIMEOUT", [m.label for m in ms])
    except Exception as e: note("C19 concatenate", "EXC " + type(e).__name__ + str(e)[:40], [m.label for m in ms])
    finally: signal.setitimer(signal.ITIMER_REAL, 0)
    if [cont(m) for m in ms] != before: note("C19 concatenate", "arguments changed", None)
    m = mk(n=6); ref = cont(m)
    idx = sorted(set(rng.sample(range(6), rng.randint(0, 6))))
    e = m.export_character_indices(idx)
    if cont(e) != {k: "".join(v[i] for i in idx) for k, v in ref.items()}: note("C19 export", "wrong", (idx,))
    if cont(m) != ref: note("C19 export", "source changed", None)
    # row algebra
    A = mk(taxa=rng.sample(list(tns), rng.randint(1, 4))); B = mk(taxa=rng.sample(list(tns), rng.randint(1, 4)))
    a0, b0 = cont(A), cont(B)
    for opn in ["add_sequences", "replace_sequences", "update_sequences", "extend_sequences"]:
        X = dendropy.DnaCharacterMatrix(A); getattr(X, opn)(B); x = cont(X)
        if opn == "add_sequences": exp = {**b0, **a0}
        elif opn == "replace_sequences": exp = {k: (b0[k] if k in b0 else v) for k, v in a0.items()}
        elif opn == "update_sequences": exp = {**a0, **b0}
        else: exp = {k: v + b0.get(k, "") for k, v in a0.items()}
        if x != exp: note("C19 " + opn, "wrong", (a0, b0, x))
        if cont(B) != b0: note("C19 " + opn, "argument changed", None)
for (op, msg), exs in sorted(issues.items()):
    print(op, "|", msg, "|", len(exs), "| e.g.", str(exs[0])[:220])
print("done")
