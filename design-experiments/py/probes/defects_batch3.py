import dendropy, warnings, signal, sys, traceback, random
warnings.simplefilter("ignore")
from dendropy import Tree, TaxonNamespace, TreeList, TreeArray, DataSet
class TO(Exception): pass
def h(*a): raise TO()
signal.signal(signal.SIGALRM, h)
def run(name, f, t=5):
    signal.alarm(t)
    try:
        r = f()
        print(name, "->", r)
    except TO:
        print(name, "-> TIMEOUT/HANG")
    except BaseException as e:
        print(name, "-> EXC", type(e).__name__, str(e)[:120])
    finally:
        signal.alarm(0)
def c03():
    out=[]
    for s in ["((A,B),(C,D));", "(((A,B),C),(D,E));", "((A,B),C,D);", "(A,(B,(C,D)));"]:
        t0 = Tree.get(data=s, schema="newick")
        n0 = len(t0.nodes())
        for i in range(n0):
            for ub in (False, True):
                t = Tree.get(data=s, schema="newick")
                nd = t.nodes()[i]
                if nd.parent_node is None: continue
                try:
                    t.to_outgroup_position(nd, update_bipartitions=ub)
                    t._debug_tree_is_valid()
                except Exception as e:
                    out.append((s, i, ub, type(e).__name__, str(e)[:50]))
    return out
run("C03 outgroup sweep", c03)
def c05():
    tns = TaxonNamespace(["A","B","C","D"])
    tl = TreeList.get(data="[&W 3] ((A,B),(C,D));[&W 1] ((A,C),(B,D));", schema="newick", taxon_namespace=tns, store_tree_weights=True)
    ta = TreeArray(taxon_namespace=tns, use_tree_weights=False); ta.add_trees(tl)
    sd = ta.split_distribution
    return sorted(sd.split_frequencies.items()), ta._tree_weights
run("C05 weights off", c05)
def c09():
    t1 = TaxonNamespace(["A","B"], label="x"); t2 = TaxonNamespace(["C","D","E"], label="y")
    ds = DataSet()
    ds.add(TreeList.get(data="(A,B);", schema="newick", taxon_namespace=t1))
    ds.add(TreeList.get(data="(C,D,E);", schema="newick", taxon_namespace=t2))
    res=[]
    for opt in (None, False, True):
        s = ds.as_string("nexus", suppress_block_titles=opt) if opt is not None else ds.as_string("nexus")
        try:
            d2 = DataSet.get(data=s, schema="nexus")
            res.append((opt, [[t.label for t in tl.taxon_namespace] for tl in d2.tree_lists]))
        except Exception as e:
            res.append((opt, type(e).__name__))
    return res
run("C09 block titles", c09)
def c18():
    from dendropy.model import coalescent
    r=[]
    for i in range(2):
        rng = random.Random(5)
        r.append(coalescent.discrete_time_to_coalescence(5, pop_size=0.5, rng=rng))
    return r
run("C18 discrete ttc", c18)
def c20():
    r=[]
    for doc in ["3 4\na ACGT\nb AC\nc ACGT\n", "3 4\na ACGTAA\nb ACGT\nc ACGT\n", "3 4\na ACGT\nb ACGT\n"]:
        try:
            m = dendropy.DnaCharacterMatrix.get(data=doc, schema="phylip")
            r.append([len(m[t]) for t in m.taxon_namespace])
        except Exception as e:
            r.append(type(e).__name__)
    return r
run("C20 phylip dims", c20)
def c14():
    t = Tree.get(data="((A:1,B:2):3,(C:4,D:5):6);", schema="newick", rooting="force-rooted")
    tn=t.taxon_namespace
    m1 = t.mrca(taxon_labels=["A","B"])
    # modify: prune then mrca with stale encoding
    t.prune_taxa_with_labels(["B"])
    try:
        m2 = t.mrca(taxon_labels=["A","C"])
        r2 = m2 is t.seed_node
    except Exception as e: r2 = type(e).__name__
    return r2
run("C14 mrca stale", c14)
def c17():
    t = Tree.get(data="((A:1,B:1):1,(C:1.5,D:1.5):0.5);", schema="newick")
    t.calc_node_ages()
    r = [t.num_lineages_at(x) for x in (0, 0.25, 0.5, 1.0, 1.5, 2.0)]
    return r
run("C17 lineages", c17)
def c12():
    s = "("*300 + "A" + ",B)"*300 + ";"
    sys.setrecursionlimit(100000)
    t = Tree.get(data=s, schema="newick")
    sys.setrecursionlimit(1000)
    import copy
    copy.deepcopy(t)
    return "ok"
run("C12 deep copy", c12, 20)
def c13():
    doc = "#NEXUS\nBEGIN TAXA; DIMENSIONS NTAX=3; TAXLABELS A B C; END;\nBEGIN TREES; TRANSLATE 1 A, 2 B, 3 C; TREE a = [&R] (1,(2,3)); TREE b = [&U] ((1,2),3); END;\nBEGIN TREES; TREE c = (A,B,C); END;\n"
    import io
    tl = TreeList.get(data=doc, schema="nexus")
    y = list(Tree.yield_from_files([io.StringIO(doc)], schema="nexus"))
    ds = DataSet.get(data=doc, schema="nexus")
    return [str(t) for t in tl], [str(t) for t in y], [[str(t) for t in l] for l in ds.tree_lists], [t.label for t in tl],[t.label for t in y]
run("C13 routes", c13)
