import sys, random, warnings, itertools
sys.path.insert(0, "/repo/src")
warnings.simplefilter("ignore")
import dendropy
from dendropy import Tree, TaxonNamespace, Node
rng = random.Random(15)
issues = {}
def note(op, msg, ex): issues.setdefault((op, msg), []).append(ex)

def rand_shape(maxn):
    n = rng.randint(1, maxn)
    nodes = [Node(label="n0")]
    for i in range(1, n):
        p = rng.choice(nodes) if rng.random() < 0.7 else nodes[-1]
        c = Node(label="n%d" % i); p.add_child(c); nodes.append(c)
    return nodes

def pre(n): 
    out = [n]
    for c in n._child_nodes: out += pre(c)
    return out
def post(n):
    out = []
    for c in n._child_nodes: out += post(c)
    return out + [n]
def level(n):
    out = []; q = [n]
    while q:
        x = q.pop(0); out.append(x); q += x._child_nodes
    return out
def brackets(n):
    if not n._child_nodes: return [("leaf", n.label)]
    out = [("before", n.label)]
    for c in n._child_nodes: out += brackets(c)
    return out + [("after", n.label)]
def inorder(n):
    if not n._child_nodes: return [n]
    return inorder(n._child_nodes[0]) + [n] + inorder(n._child_nodes[1])

for trial in range(3000):
    nodes = rand_shape(9)
    t = Tree(seed_node=nodes[0])
    desc = t._as_newick_string()
    for start in nodes:
        fset = set(rng.sample(range(len(nodes)), rng.randint(0, len(nodes))))
        f = rng.choice([None, lambda x: int(x.label[1:]) in fset])
        def flt(seq): return [x for x in seq if f is None or f(x)]
        L = lambda seq: [x.label for x in seq]
        checks = [
            ("preorder_iter", L(start.preorder_iter(f)), L(flt(pre(start)))),
            ("postorder_iter", L(start.postorder_iter(f)), L(flt(post(start)))),
            ("levelorder_iter", L(start.levelorder_iter(f)), L(flt(level(start)))),
            ("leaf_iter", L(start.leaf_iter(f)), L(flt([x for x in post(start) if not x._child_nodes]))),
            ("preorder_internal", L(start.preorder_internal_node_iter(f)), L(flt([x for x in pre(start) if x._child_nodes]))),
            ("postorder_internal", L(start.postorder_internal_node_iter(f)), L(flt([x for x in post(start) if x._child_nodes]))),
            ("preorder_internal_noseed", L(start.preorder_internal_node_iter(f, exclude_seed_node=True)), L(flt([x for x in pre(start) if x._child_nodes and x._parent_node is not None]))),
            ("ancestor_iter", L(start.ancestor_iter(f)), None),
        ]
        for name, got, exp in checks:
            if exp is not None and got != exp: note(name, "order/content differs", (desc, start.label, got, exp)); 
        tr = []
        start.apply(before_fn=lambda n: tr.append(("before", n.label)), after_fn=lambda n: tr.append(("after", n.label)), leaf_fn=lambda n: tr.append(("leaf", n.label)))
        if tr != brackets(start): note("apply", "not bracket-matching" + (" (start is root)" if start is nodes[0] else ""), (desc, start.label))
        binary = all(len(x._child_nodes) in (0, 2) for x in pre(start))
        try:
            got = L(start.inorder_iter(f))
            if not binary: note("inorder", "no TypeError on non-binary", (desc, start.label))
            elif got != L(flt(inorder(start))): note("inorder", "differs", (desc, start.label))
        except TypeError:
            if binary: note("inorder", "TypeError on binary", (desc, start.label))
    # tree level edge iterators
    E = lambda seq: [e.head_node.label for e in seq]
    if E(t.preorder_edge_iter()) != [x.label for x in pre(nodes[0])]: note("preorder_edge_iter", "differs", desc)
    if E(t.postorder_edge_iter()) != [x.label for x in post(nodes[0])]: note("postorder_edge_iter", "differs", desc)
    if E(t.levelorder_edge_iter()) != [x.label for x in level(nodes[0])]: note("levelorder_edge_iter", "differs", desc)
    if E(t.leaf_edge_iter()) != [x.label for x in post(nodes[0]) if not x._child_nodes]: note("leaf_edge_iter", "differs", desc)
    if E(t.preorder_internal_edge_iter()) != [x.label for x in pre(nodes[0]) if x._child_nodes]: note("preorder_internal_edge_iter", "differs", desc)
    if E(t.postorder_internal_edge_iter(exclude_seed_edge=True)) != [x.label for x in post(nodes[0]) if x._child_nodes and x._parent_node is not None]: note("postorder_internal_edge_iter", "differs", desc)
    if len(t) != len([x for x in pre(nodes[0]) if not x._child_nodes]): note("len", "differs", desc)
for (op, msg), exs in sorted(issues.items()):
    print(op, "|", msg, "|", len(exs), "| e.g.", str(exs[0])[:200])
print("done")
