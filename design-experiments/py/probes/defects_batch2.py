import dendropy, warnings, signal, sys, traceback
warnings.simplefilter("ignore")
from dendropy import Tree, TaxonNamespace, TreeList, TreeArray
from dendropy.calculate import treecompare
class TO(Exception): pass
def h(*a): raise TO()
signal.signal(signal.SIGALRM, h)
def run(name, f, t=5):
    signal.alarm(t)
    try:
        r = f()
        print(name, "->", r)
    except TO:
        print(name, "-> TIMEOUT/HANG")
    except BaseException as e:
        print(name, "-> EXC", type(e).__name__, str(e)[:100])
    finally:
        signal.alarm(0)

# C03
def c03():
    t = Tree.get(data="((A,B),(C,D));", schema="newick")  # unrooted
    n = t.find_node_with_taxon_label("A")
    t.to_outgroup_position(n)
    return str(t)
run("C03 to_outgroup", c03)
def c03b():
    t = Tree.get(data="((A,B),(C,D));", schema="newick")
    t.collapse_unweighted_edges()
    return str(t)
run("C03 collapse_unweighted no lengths", c03b)
# C04
def c04():
    tns = TaxonNamespace()
    t1 = Tree.get(data="((A:1,B:1):1,(C:1,D:1):1);", schema="newick", taxon_namespace=tns)
    t2 = Tree.get(data="((A,B),(C,D));", schema="newick", taxon_namespace=tns)
    r=[]
    for a,b in ((t1,t2),(t2,t1)):
        try: r.append(treecompare.weighted_robinson_foulds_distance(a,b))
        except Exception as e: r.append(type(e).__name__)
    return r
run("C04 asym", c04)
# C06
def c06():
    tns = TaxonNamespace(["A","B","C","D"])
    tl = TreeList.get(data="((A,B),(C,D));((A,C),(B,D));", schema="newick", taxon_namespace=tns)
    a = TreeArray(taxon_namespace=tns); a.add_trees(tl)
    b = TreeArray(taxon_namespace=tns); b.add_trees(tl)
    a += b
    return a.calculate_log_product_of_split_supports()
run("C06 extend leafsets", c06)
def c06b():
    tns = TaxonNamespace(["A","B","C","D"])
    tl = TreeList.get(data="((A,B),(C,D));((A,C),(B,D));", schema="newick", taxon_namespace=tns)
    m = TreeArray(taxon_namespace=tns)
    a = TreeArray(taxon_namespace=tns); a.add_trees(tl)
    e = TreeArray(taxon_namespace=tns)
    m.update(a); m.update(e)
    return len(m)
run("C06 update empty after nonempty", c06b)
# C07
def c07():
    t = Tree.get(data="((A:1,B:1):1,(C:1,D:1):1);", schema="newick")
    t.reroot_at_midpoint()
    s1 = str(t)
    t = Tree.get(data="(A:1,B:1,C:1);", schema="newick")
    t.reroot_at_midpoint()
    return s1, str(t)
run("C07 midpoint", c07)
# C08
def c08():
    t = Tree.get(data="((A:1,B:1):1,(C:1,D:1):1);", schema="newick")
    taxa = [x for x in t.taxon_namespace if x.label in "ACD"]
    return str(t.extract_tree_with_taxa(taxa, suppress_unifurcations=False))
run("C08 extract no-suppress", c08)
# C09
def c09():
    m = dendropy.DnaCharacterMatrix.from_dict({"a":"ACGT","b":"AAAA","c":"CCCC"})
    s = m.as_string("nexml")
    m2 = dendropy.DnaCharacterMatrix.get(data=s, schema="nexml")
    return [(t.label, m2[t].symbols_as_string()) for t in m2.taxon_namespace]
run("C09 nexml", c09)
# C10
def c10():
    tns = TaxonNamespace(["A","B","C","D"])
    tns.remove_taxon_label("A")
    bm = tns.taxa_bitmask(labels=["B"])
    return tns.bitmask_as_newick_string(bm), [t.label for t in tns.bitmask_taxa_list(bm)]
run("C10", c10)
# C16
def c16():
    from dendropy.model import parsimony
    tns = TaxonNamespace(["a","b","c","d"])
    t = Tree.get(data="((a,b),(c,d));", schema="newick", taxon_namespace=tns)
    m1 = dendropy.DnaCharacterMatrix.from_dict({"a":"A","b":"A","c":"A","d":"A"}, taxon_namespace=tns)
    m2 = dendropy.DnaCharacterMatrix.from_dict({"a":"A","b":"C","c":"G","d":"T"}, taxon_namespace=tns)
    def sc(t,m):
        tsm = m.taxon_state_sets_map(gaps_as_missing=True)
        return parsimony.parsimony_score(t, m)
    return sc(t,m1), sc(t,m2), sc(Tree(t),m2)
run("C16", c16)
# C19
def c19():
    tns = TaxonNamespace(["a","b"])
    m1 = dendropy.DnaCharacterMatrix.from_dict({"a":"AC","b":"AA"}, taxon_namespace=tns); m1.label="x"
    m2 = dendropy.DnaCharacterMatrix.from_dict({"a":"GG","b":"TT"}, taxon_namespace=tns); m2.label="x"
    m = dendropy.DnaCharacterMatrix.concatenate([m1,m2])
    return [(t.label, m[t].symbols_as_string()) for t in tns]
run("C19 concat same label", c19)
# C20
doc = "#NEXUS\nBEGIN TAXA;\n DIMENSIONS NTAX=3;\n TAXLABELS A B C;\nEND;\nBEGIN TREES;\n TREE t1 = ((A,B),C);\nEND;\n"
def c20(k):
    def f():
        return len(dendropy.DataSet.get(data=doc[:k], schema="nexus").tree_lists)
    return f
for k in (0, 8, 20, 30, 45, 60, 70, 95, 105, 112):
    run("C20 trunc %d %r" % (k, doc[:k][-12:]), c20(k), 3)
def c20b():
    return Tree.get(data="("*3000 + "A" + ")"*3000 + ";", schema="newick")
run("C20 deep", c20b)
def c20c():
    return dendropy.DataSet.get(data="#NEXUS\nBEGIN TREES;\nLINK FOO = bar;\nTREE t = (A,B);\nEND;\n", schema="nexus")
run("C20 link", c20c, 3)
