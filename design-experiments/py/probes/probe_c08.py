import sys, random, warnings, itertools
sys.path.insert(0, "/repo/src")
warnings.simplefilter("ignore")
import dendropy
from dendropy import Tree, TaxonNamespace, Node
from fractions import Fraction as F
exec(open("/tmp/probe_c07.py").read().split("issues = {}")[0].split("rng = random.Random(7)")[1])
rng = random.Random(8)
issues = {}
def note(op, msg, ex): issues.setdefault((op, msg), []).append(ex)

def canon(nd):
    # canonical nested form with lengths; children sorted
    lab = nd.taxon.label if nd.taxon is not None else ""
    L = None if nd.edge.length is None else F(nd.edge.length)
    if not nd._child_nodes: return (lab, L, ())
    return (lab, L, tuple(sorted((canon(c) for c in nd._child_nodes), key=repr)))

def induced(nd, K):
    """spec: induced subtree on taxon labels K with unifurcation suppression and length merging; returns canon or None"""
    if not nd._child_nodes:
        if nd.taxon is not None and nd.taxon.label in K:
            return ("L", nd.taxon.label, None if nd.edge.length is None else F(nd.edge.length), [])
        return None
    kids = [x for x in (induced(c, K) for c in nd._child_nodes) if x is not None]
    if not kids: return None
    L = None if nd.edge.length is None else F(nd.edge.length)
    if len(kids) == 1:
        k = kids[0]
        kl = k[2]
        if L is not None: kl = L if kl is None else kl + L
        return (k[0], k[1], kl, k[3])
    return ("I", "", L, kids)
def canon_spec(x):
    if x[0] == "L": return (x[1], x[2], ())
    return ("", x[2], tuple(sorted((canon_spec(k) for k in x[3]), key=repr)))

for trial in range(3000):
    n = rng.randint(3, 7)
    t = rand_tree(n, rng.random() < 0.5)
    t0 = t.as_string("newick").strip()
    labels = [tx.label for tx in t.taxon_namespace]
    k = rng.randint(1, n)
    K = set(rng.sample(labels, k))
    spec = induced(t.seed_node, K)
    spec_c = canon_spec(spec)
    # root edge length: spec accumulates onto root; implementations may differ -> ignore root edge length
    def strip_root(c): return (c[0], None, c[2])
    results = {}
    for variant in ["prune_taxa", "prune_labels", "retain_taxa", "retain_labels", "extract_with", "extract_without", "extract_with_labels", "extract_without_labels", "filter_leaf"]:
        tt = Tree(t)  # namespace-scoped copy
        tn = tt.taxon_namespace
        keep = [x for x in tn if x.label in K]; drop = [x for x in tn if x.label not in K]
        try:
            if variant == "prune_taxa": tt.prune_taxa(drop); r = tt
            elif variant == "prune_labels": tt.prune_taxa_with_labels([x.label for x in drop]); r = tt
            elif variant == "retain_taxa": tt.retain_taxa(keep); r = tt
            elif variant == "retain_labels": tt.retain_taxa_with_labels([x.label for x in keep]); r = tt
            elif variant == "extract_with": r = tt.extract_tree_with_taxa(keep)
            elif variant == "extract_without": r = tt.extract_tree_without_taxa(drop)
            elif variant == "extract_with_labels": r = tt.extract_tree_with_taxa_labels([x.label for x in keep])
            elif variant == "extract_without_labels": r = tt.extract_tree_without_taxa_labels([x.label for x in drop])
            elif variant == "filter_leaf": tt.filter_leaf_nodes(lambda nd: nd.taxon.label in K); r = tt
            r._debug_tree_is_valid()
            c = canon(r.seed_node)
        except Exception as e:
            note(variant, "EXC " + type(e).__name__ + ": " + str(e)[:40], (t0, sorted(K))); continue
        if strip_root(c) != strip_root(spec_c):
            note(variant, "differs from induced subtree", (t0, sorted(K), r.as_string("newick").strip()))
        elif c[1] != spec_c[1]:
            note(variant, "root edge length differs (spec accumulates)", (t0, sorted(K), r.as_string("newick").strip()))
for (op, msg), exs in sorted(issues.items()):
    print(op, "|", msg, "|", len(exs), "| e.g.", exs[0])
