import sys, random, warnings, itertools
sys.path.insert(0, "/repo/src")
warnings.simplefilter("ignore")
import dendropy
from dendropy import Tree, TaxonNamespace, Node
from dendropy.utility import error
exec(open("/tmp/probe_c07.py").read().split("issues = {}")[0].split("rng = random.Random(7)")[1])
rng = random.Random(3)
issues = {}
def note(op, msg, ex): issues.setdefault((op, msg), []).append(ex)

def literal_wf(t, seen_nodes):
    seed = t.seed_node
    if seed is None: return "no seed"
    if seed._parent_node is not None: return "seed has parent"
    seen = set(); stack = [seed]; order = []
    while stack:
        nd = stack.pop()
        if id(nd) in seen: return "node reachable twice"
        seen.add(id(nd)); order.append(nd)
        if nd._edge is None or nd._edge._head_node is not nd: return "edge head mismatch"
        if nd._edge.tail_node is not nd._parent_node: return "edge tail mismatch"
        ids = [id(c) for c in nd._child_nodes]
        if len(ids) != len(set(ids)): return "duplicate child"
        for c in nd._child_nodes:
            if c._parent_node is not nd: return "child parent mismatch"
            stack.append(c)
    # traversals visit exactly reachable set
    for it in (t.preorder_node_iter, t.postorder_node_iter, t.levelorder_node_iter):
        v = [id(x) for x in it()]
        if len(v) != len(set(v)) or set(v) != seen: return "traversal != reachable (%s)" % it.__name__
    if set(id(x) for x in t.leaf_node_iter()) != set(id(x) for x in order if not x._child_nodes): return "leaf iter mismatch"
    return None

def taxa(t): return sorted(nd.taxon.label for nd in t.preorder_node_iter() if nd.taxon is not None)

OPS = ["reseed", "reroot_node", "reroot_edge", "midpoint", "outgroup", "prune_taxa", "retain_taxa", "filter", "prune_subtree",
       "collapse_edge", "collapse_clade", "collapse_unweighted", "resolve", "resolve_rng", "suppress", "deroot", "ladderize",
       "reorder", "rotate", "reorient", "shuffle", "encode", "update_bip", "add_child", "insert_child", "remove_child", "collapse_basal", "polytomize"]
DOC = (ValueError, error.SeedNodeDeletionException, TypeError)
for trial in range(4000):
    t = rand_tree(rng.randint(2, 6), rng.random() < 0.5)
    if rng.random() < 0.2:
        for nd in t.preorder_node_iter(): nd.edge.length = None
    hist = [t.as_string("newick").strip()]
    for step in range(rng.randint(1, 6)):
        op = rng.choice(OPS); ub = rng.random() < 0.5
        nodes = t.nodes(); nonroot = [n for n in nodes if n._parent_node is not None]
        internal = [n for n in nonroot if n._child_nodes]
        leaves = t.leaf_nodes()
        before_taxa = taxa(t); expect_removed = set()
        hist.append((op, ub))
        try:
            if op == "reseed" and internal: t.reseed_at(rng.choice(internal), update_bipartitions=ub)
            elif op == "reroot_node" and internal: t.reroot_at_node(rng.choice(internal), update_bipartitions=ub)
            elif op == "reroot_edge" and nonroot:
                n = rng.choice(nonroot); L = n.edge.length
                t.reroot_at_edge(n.edge, length1=None if L is None else L/2, length2=None if L is None else L/2, update_bipartitions=ub)
            elif op == "midpoint" and len(leaves) >= 2: t.reroot_at_midpoint(update_bipartitions=ub)
            elif op == "outgroup" and nonroot: t.to_outgroup_position(rng.choice(nonroot), update_bipartitions=ub)
            elif op == "prune_taxa" and len(leaves) >= 2:
                k = rng.sample([l.taxon for l in leaves if l.taxon], rng.randint(1, max(1, len(leaves) - 1)))
                if len(k) < len([l for l in leaves if l.taxon]):
                    expect_removed = set(x.label for x in k); t.prune_taxa(k, update_bipartitions=ub)
            elif op == "retain_taxa" and len(leaves) >= 2:
                k = rng.sample([l.taxon for l in leaves if l.taxon], rng.randint(1, len(leaves)))
                expect_removed = set(before_taxa) - set(x.label for x in k); t.retain_taxa(k, update_bipartitions=ub)
            elif op == "filter" and len(leaves) >= 2:
                keep = set(rng.sample([id(l) for l in leaves], rng.randint(1, len(leaves))))
                expect_removed = None
                t.filter_leaf_nodes(lambda nd: id(nd) in keep, recursive=False, update_bipartitions=ub)
            elif op == "prune_subtree" and nonroot:
                n = rng.choice(nonroot); expect_removed = set(x.taxon.label for x in n.preorder_iter() if x.taxon)
                if len(expect_removed) < len(before_taxa): t.prune_subtree(n, update_bipartitions=ub)
                else: expect_removed = set()
            elif op == "collapse_edge" and internal: rng.choice(internal).edge.collapse()
            elif op == "collapse_clade" and internal: rng.choice(internal).collapse_clade()
            elif op == "collapse_unweighted": t.collapse_unweighted_edges(update_bipartitions=ub)
            elif op == "resolve": t.resolve_polytomies(update_bipartitions=ub)
            elif op == "resolve_rng": t.resolve_polytomies(update_bipartitions=ub, rng=rng)
            elif op == "suppress": t.suppress_unifurcations(update_bipartitions=ub)
            elif op == "deroot": t.deroot()
            elif op == "ladderize": t.ladderize()
            elif op == "reorder": t.reorder()
            elif op == "rotate": t.randomly_rotate(rng=rng)
            elif op == "reorient": t.randomly_reorient(rng=rng, update_bipartitions=ub)
            elif op == "shuffle": t.shuffle_taxa(rng=rng)
            elif op == "encode": t.encode_bipartitions(suppress_unifurcations=rng.random() < 0.5, collapse_unrooted_basal_bifurcation=rng.random() < 0.5)
            elif op == "update_bip": t.update_bipartitions()
            elif op == "add_child": rng.choice(nodes).new_child(taxon=t.taxon_namespace.new_taxon("n%d_%d" % (trial, step)), edge_length=1.0); expect_removed = None
            elif op == "insert_child":
                p = rng.choice(nodes); p.insert_new_child(rng.randint(0, len(p._child_nodes)), taxon=t.taxon_namespace.new_taxon("m%d_%d" % (trial, step)), edge_length=1.0); expect_removed = None
            elif op == "remove_child" and nonroot:
                n = rng.choice(nonroot); expect_removed = None; n._parent_node.remove_child(n, suppress_unifurcations=rng.random() < 0.5)
            elif op == "collapse_basal": t.collapse_basal_bifurcation(set_as_unrooted_tree=False)
            elif op == "polytomize": t.polytomize_root(set_as_unrooted_tree=False)
        except DOC as e:
            note(op, "documented-class EXC " + type(e).__name__ + ": " + str(e)[:45], hist[:])
            w = literal_wf(t, None)
            if w: note(op, "ILL-FORMED after exception: " + w, hist[:])
            break
        except Exception as e:
            note(op, "EXC " + type(e).__name__ + ": " + str(e)[:50], hist[:]); break
        w = literal_wf(t, None)
        if w: note(op, "ILL-FORMED: " + w, hist[:]); break
        if expect_removed is not None:
            after = taxa(t)
            if op == "shuffle":
                if sorted(after) != sorted(before_taxa): note(op, "taxa multiset changed", hist[:])
            elif sorted(after) != sorted(x for x in before_taxa if x not in expect_removed):
                note(op, "taxa changed unexpectedly", (hist[:], before_taxa, after)); break
        if ub and op in ("reseed","reroot_node","reroot_edge","midpoint","outgroup","prune_taxa","retain_taxa","filter","prune_subtree","collapse_unweighted","resolve","resolve_rng","suppress","reorient"):
            got = sorted((b.leafset_bitmask, b.split_bitmask) for b in (t.bipartition_encoding or []))
            per_edge = sorted((e.bipartition.leafset_bitmask, e.bipartition.split_bitmask) for e in t.postorder_edge_iter())
            t2 = Tree(t); t2.encode_bipartitions(suppress_unifurcations=False, collapse_unrooted_basal_bifurcation=False)
            fresh = sorted((b.leafset_bitmask, b.split_bitmask) for b in t2.bipartition_encoding)
            if got != fresh or per_edge != fresh: note(op, "update_bipartitions != fresh encoding", hist[:]); break
for (op, msg), exs in sorted(issues.items()):
    print(op, "|", msg, "|", len(exs), "| e.g.", str(exs[0])[:170])
print("done")
