import sys, random, warnings
sys.path.insert(0, "/repo/src")
warnings.simplefilter("ignore")
import dendropy
from dendropy import Tree, TaxonNamespace, TreeList, DataSet
rng = random.Random(11)
issues = {}
def note(op, msg, ex): issues.setdefault((op, msg), []).append(ex)

def mk_tree(ns=None):
    labs = rng.sample(["A","B","C","D","E","a","b"], rng.randint(2,4))
    s = "(" + ",".join(labs) + ");"
    if ns is None: return Tree.get(data=s, schema="newick", case_sensitive_taxon_labels=False)
    return Tree.get(data=s, schema="newick", taxon_namespace=ns)

def closed(tl):
    for t in tl:
        if t.taxon_namespace is not tl.taxon_namespace: return "tree ns differs"
        for nd in t:
            if nd.taxon is not None and nd.taxon not in tl.taxon_namespace: return "taxon not member"
    return None
def labels_ok(t, before):
    after = sorted(nd.taxon.label for nd in t.leaf_node_iter())
    return after == before

for trial in range(1500):
    tl = TreeList()
    hist = []
    for step in range(rng.randint(1, 10)):
        op = rng.choice(["append", "append_add", "insert", "extend_list", "extend_tl", "iadd", "add", "setitem", "setslice", "new_tree", "read", "pop_check", "ctor"])
        hist.append(op)
        try:
            if op == "append": t = mk_tree(); b = sorted(n.taxon.label for n in t.leaf_node_iter()); tl.append(t); 
            elif op == "append_add": t = mk_tree(); tl.append(t, taxon_import_strategy="add")
            elif op == "insert": tl.insert(rng.randint(0, len(tl)), mk_tree())
            elif op == "extend_list": tl.extend([mk_tree(), mk_tree()])
            elif op == "extend_tl":
                o = TreeList(); o.append(mk_tree()); o.append(mk_tree(o.taxon_namespace)); tl.extend(o)
            elif op == "iadd":
                o = TreeList(); o.append(mk_tree()); tl += o
            elif op == "add":
                o = TreeList(); o.append(mk_tree()); tl = tl + o
            elif op == "setitem":
                if len(tl): tl[rng.randrange(len(tl))] = mk_tree()
            elif op == "setslice":
                if len(tl) >= 1:
                    if rng.random() < 0.5: tl[0:1] = [mk_tree(), mk_tree()]
                    else:
                        o = TreeList(); o.append(mk_tree()); tl[0:1] = o
            elif op == "new_tree": tl.new_tree()
            elif op == "read": tl.read(data="(A,B,(C,x));(B,A);", schema="newick")
            elif op == "ctor": tl = TreeList(tl)
            elif op == "pop_check":
                if len(tl):
                    t = tl.pop()
                    for nd in t:
                        if nd.taxon is not None and nd.taxon not in t.taxon_namespace: note(op, "popped tree inconsistent", hist[:])
        except Exception as e:
            note(op, "EXC " + type(e).__name__ + ": " + str(e)[:50], hist[:]); break
        c = closed(tl)
        if c: note(op, c, hist[:]); break
        # label uniqueness within namespace (case-insensitive ns): equal labels -> one taxon
        labs = [t.label.lower() for t in tl.taxon_namespace]
        if len(labs) != len(set(labs)): note(op, "duplicate labels in namespace", hist[:]); break
for (op, msg), exs in sorted(issues.items()):
    print(op, "|", msg, "|", len(exs), "| e.g.", exs[0])
print("done")
