import sys, random, warnings, itertools
sys.path.insert(0, "/repo/src")
warnings.simplefilter("ignore")
import dendropy
from dendropy import Tree, TaxonNamespace, Node
from fractions import Fraction as F

rng = random.Random(7)

def rand_tree(nleaves, unrooted, poly=0.3):
    tns = TaxonNamespace(["t%d" % i for i in range(nleaves)])
    items = []
    for tx in tns:
        n = Node(taxon=tx); n.edge.length = rng.choice([0.0, 0.5, 1.0, 1.0, 2.0, 1.5]); items.append(n)
    while len(items) > 1:
        k = 2 if rng.random() > poly else min(3, len(items))
        if len(items) <= 3 and unrooted and rng.random() < 0.5: k = len(items)
        grp = [items.pop(rng.randrange(len(items))) for _ in range(k)]
        p = Node(); p.edge.length = rng.choice([0.0, 0.5, 1.0, 1.0, 2.0])
        for g in grp: p.add_child(g)
        items.append(p)
    t = Tree(taxon_namespace=tns, seed_node=items[0])
    t.seed_node.edge.length = None
    t.is_rooted = not unrooted
    return t

def dist_matrix(t):
    # independent: path to root for each leaf
    paths = {}
    for lf in t.leaf_node_iter():
        p = []; nd = lf
        while nd._parent_node is not None:
            p.append((id(nd), F(nd.edge.length or 0))); nd = nd._parent_node
        paths[lf.taxon.label] = p
    # internal nodes with taxa (leaf that became root) -> treat as node at root
    d = {}
    for a, b in itertools.combinations(sorted(paths), 2):
        pa, pb = dict(paths[a]), dict(paths[b])
        common = set(pa) & set(pb)
        d[(a, b)] = sum(v for k, v in pa.items() if k not in common) + sum(v for k, v in pb.items() if k not in common)
    return d

def leafset(t): return sorted(l.taxon.label for l in t.leaf_node_iter())

issues = {}
def note(op, msg, t0s):
    issues.setdefault((op, msg), []).append(t0s)

for trial in range(3000):
    n = rng.randint(3, 7)
    unrooted = rng.random() < 0.5
    t = rand_tree(n, unrooted)
    t0s = t.as_string("newick").strip()
    d0 = dist_matrix(t); l0 = leafset(t); len0 = F(t.length())
    ops = ["reseed_at", "reroot_at_node", "reroot_at_edge", "reroot_at_midpoint", "to_outgroup_position", "ladderize", "reorder", "randomly_rotate", "randomly_reorient"]
    op = rng.choice(ops)
    internal = [nd for nd in t.preorder_node_iter() if nd._child_nodes and nd._parent_node is not None]
    nonroot = [nd for nd in t.preorder_node_iter() if nd._parent_node is not None]
    try:
        if op in ("reseed_at", "reroot_at_node"):
            if not internal: continue
            getattr(t, op)(rng.choice(internal), update_bipartitions=rng.random() < 0.5)
        elif op == "reroot_at_edge":
            nd = rng.choice(nonroot); L = nd.edge.length or 0.0
            t.reroot_at_edge(nd.edge, length1=L / 2, length2=L / 2, update_bipartitions=rng.random() < 0.5)
        elif op == "reroot_at_midpoint":
            t.reroot_at_midpoint(update_bipartitions=rng.random() < 0.5)
        elif op == "to_outgroup_position":
            t.to_outgroup_position(rng.choice(nonroot), update_bipartitions=rng.random() < 0.5)
        elif op == "ladderize": t.ladderize(ascending=rng.random() < 0.5)
        elif op == "reorder": t.reorder()
        elif op == "randomly_rotate": t.randomly_rotate(rng=rng)
        elif op == "randomly_reorient": t.randomly_reorient(rng=rng)
    except Exception as e:
        note(op, "EXC " + type(e).__name__ + " " + str(e)[:50], t0s); continue
    try:
        t._debug_tree_is_valid()
    except Exception as e:
        note(op, "INVALID", t0s); continue
    if leafset(t) != l0: note(op, "leafset changed", t0s); continue
    d1 = dist_matrix(t)
    if d1 != d0: note(op, "path lengths changed", t0s)
    if F(t.length()) != len0: note(op, "total length changed", t0s)
    if op == "reroot_at_midpoint":
        # some maximal pair equidistant from root?
        mx = max(d0.values())
        rd = {}
        for lf in t.leaf_node_iter():
            s = F(0); nd = lf
            while nd._parent_node is not None: s += F(nd.edge.length or 0); nd = nd._parent_node
            rd[lf.taxon.label] = s
        ok = any(v == mx and rd[a] == rd[b] == mx / 2 for (a, b), v in d0.items())
        if not ok: note(op, "midpoint not equidistant", t0s)

for (op, msg), exs in sorted(issues.items()):
    print(op, "|", msg, "|", len(exs), "| e.g.", exs[0])
