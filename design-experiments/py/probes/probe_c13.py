import sys, random, warnings, io, tempfile, os
sys.path.insert(0, "/repo/src")
warnings.simplefilter("ignore")
import dendropy
from dendropy import Tree, TaxonNamespace, TreeList, TreeArray, DataSet
rng = random.Random(13)
issues = {}
def note(op, msg, ex): issues.setdefault((op, msg), []).append(ex)

LABS = ["A", "B", "C", "D", "E", "F"]
def rand_newick(labs, translate=None):
    items = [ (translate[l] if translate else l) + (":%s" % rng.choice(["1", "0.5", "2e-1", "3.0"]) if rng.random() < 0.7 else "") for l in labs]
    rng.shuffle(items)
    while len(items) > 1:
        k = min(len(items), rng.choice([2, 2, 3]))
        grp = [items.pop(rng.randrange(len(items))) for _ in range(k)]
        s = "(" + ",".join(grp) + ")" + (rng.choice(["", "", "x1", "n2"])) + (":%s" % rng.choice(["1", "0.25"]) if rng.random() < 0.5 else "")
        if rng.random() < 0.15: s += "[&support=0.9]"
        items.append(s)
    pre = rng.choice(["", "[&R] ", "[&U] ", "[&W 0.5] ", "[a comment] ", "[&R] [&W 2] "])
    return pre + items[0] + ";"

def rec(t):
    def f(nd):
        return (nd.taxon.label if nd.taxon else None, nd.label, nd.edge.length, tuple(f(c) for c in nd._child_nodes),
                tuple(sorted((a.name, str(a.value)) for a in nd.annotations)), tuple(nd.comments))
    return (t.label, t.is_rooted, t.weight, tuple(t.comments), tuple(sorted((a.name, str(a.value)) for a in t.annotations)), f(t.seed_node))

for trial in range(400):
    fmt = rng.choice(["newick", "nexus"])
    nblocks = 1 if fmt == "newick" else rng.randint(1, 3)
    labs = LABS[:rng.randint(3, 6)]
    if fmt == "newick":
        doc = "\n".join(rand_newick(labs) for _ in range(rng.randint(1, 5)))
        blocks = None
    else:
        doc = "#NEXUS\nBEGIN TAXA;\n DIMENSIONS NTAX=%d;\n TAXLABELS %s;\nEND;\n" % (len(labs), " ".join(labs))
        for b in range(nblocks):
            doc += "BEGIN TREES;\n"
            tr = None
            if rng.random() < 0.5:
                tr = {l: str(i + 1) for i, l in enumerate(labs)}
                doc += " TRANSLATE " + ", ".join("%s %s" % (v, k) for k, v in tr.items()) + ";\n"
            for k in range(rng.randint(1, 3)):
                doc += " TREE t%d_%d = %s\n" % (b, k, rand_newick(labs, tr))
            doc += "END;\n"
    kw = dict(schema=fmt, store_tree_weights=rng.random() < 0.5)
    if rng.random() < 0.5: kw["rooting"] = rng.choice(["default-rooted", "default-unrooted", "force-rooted"])
    try:
        ds = DataSet.get(data=doc, **kw)
        ref_blocks = [[rec(t) for t in tl] for tl in ds.tree_lists]
        flat = [r for b in ref_blocks for r in b]
        # whole list
        tl = TreeList.get(data=doc, **kw)
        if [rec(t) for t in tl] != flat: note("TreeList.get", "differs from DataSet", doc)
        # by offsets
        for ci, b in enumerate(ref_blocks):
            for ti, r in enumerate(b):
                t = Tree.get(data=doc, collection_offset=ci, tree_offset=ti, **kw)
                if rec(t) != r: note("Tree.get offsets", "differs", (doc, ci, ti, rec(t), r)); break
        # incremental read into existing
        tl2 = TreeList(); tl2.read(data=doc, **kw)
        if [rec(t) for t in tl2] != flat: note("TreeList.read", "differs", doc)
        # yielder (stream)
        y = [rec(t) for t in Tree.yield_from_files([io.StringIO(doc)], **kw)]
        if y != flat: note("yield_from_files", "differs", (doc, y, flat))
        # path vs data
        with tempfile.NamedTemporaryFile("w", suffix=".tre", delete=False) as fh: fh.write(doc); p = fh.name
        tl3 = TreeList.get(path=p, **kw); os.unlink(p)
        if [rec(t) for t in tl3] != flat: note("path", "differs", doc)
        tl4 = TreeList.get(file=io.StringIO(doc), **kw)
        if [rec(t) for t in tl4] != flat: note("file", "differs", doc)
        # tree array sees same number of trees / splits
        ta = TreeArray(); ta.read(data=doc, **{k: v for k, v in kw.items()})
        if len(ta) != len(flat): note("TreeArray.read", "count differs", (doc, len(ta), len(flat)))
    except Exception as ex:
        note("routes", "EXC " + type(ex).__name__ + ": " + str(ex)[:60], doc)
for (op, msg), exs in sorted(issues.items()):
    print(op, "|", msg, "|", len(exs), "| e.g.", str(exs[0])[:500])
print("done")
