import sys, random, warnings, itertools, math
sys.path.insert(0, "/repo/src")
warnings.simplefilter("ignore")
import dendropy
from dendropy import Tree, TaxonNamespace, Node
from dendropy.calculate import treemeasure
from fractions import Fraction as F
exec(open("/tmp/probe_c07.py").read().split("issues = {}")[0].split("rng = random.Random(7)")[1])
rng = random.Random(14)
issues = {}
def note(op, msg, ex): issues.setdefault((op, msg), []).append(ex)

def steps_matrix(t):
    paths = {}
    for lf in t.leaf_node_iter():
        p = []; nd = lf
        while nd._parent_node is not None: p.append(id(nd)); nd = nd._parent_node
        paths[lf.taxon.label] = p
    d = {}
    for a, b in itertools.combinations(sorted(paths), 2):
        d[(a, b)] = len(set(paths[a]) ^ set(paths[b]))
    return d

def deepest_common(t, labels):
    best = None
    for nd in t.preorder_node_iter():
        ls = set(l.taxon.label for l in nd.leaf_iter())
        if set(labels) <= ls: best = nd   # preorder: later = deeper along the unique chain
    return best

for trial in range(1500):
    n = rng.randint(2, 7)
    t = rand_tree(n, rng.random() < 0.5)
    # sprinkle None lengths
    for nd in t.preorder_node_iter():
        if rng.random() < 0.15: nd.edge.length = None
    t0 = t.as_string("newick").strip()
    try:
        pdm = t.phylogenetic_distance_matrix()
    except Exception as e:
        note("pdm", "EXC " + type(e).__name__ + str(e)[:40], t0); continue
    d = dist_matrix(t); st = steps_matrix(t)
    tn = {x.label: x for x in t.taxon_namespace}
    for (a, b), v in d.items():
        if F(pdm.patristic_distance(tn[a], tn[b])) != v or F(pdm.patristic_distance(tn[b], tn[a])) != v:
            note("pdm", "distance wrong", (t0, a, b)); break
        if pdm.path_edge_count(tn[a], tn[b]) != st[(a, b)]:
            note("pdm", "edge count wrong", (t0, a, b)); break
        if pdm.mrca(tn[a], tn[b]) is not deepest_common(t, [a, b]):
            note("pdm", "mrca wrong", (t0, a, b)); break
    # Tree.mrca for random subsets
    t.is_rooted = True
    labs = sorted(tn)
    for _ in range(3):
        S = rng.sample(labs, rng.randint(1, len(labs)))
        try:
            m = t.mrca(taxon_labels=S, is_bipartitions_updated=False)
        except Exception as e:
            note("mrca", "EXC " + type(e).__name__ + str(e)[:40], (t0, S)); continue
        exp = deepest_common(t, S)
        if m is not exp:
            note("mrca", "not deepest", (t0, S, m.taxon.label if m is not None and m.taxon else str(m)))
    # treemeasure.patristic_distance
    if len(labs) >= 2:
        a, b = rng.sample(labs, 2)
        try:
            v = treemeasure.patristic_distance(t, tn[a], tn[b])
            key = (a, b) if (a, b) in d else (b, a)
            if F(v) != d[key]: note("treemeasure.patristic_distance", "wrong", (t0, a, b, v))
        except Exception as e:
            note("treemeasure.patristic_distance", "EXC " + type(e).__name__ + str(e)[:40], (t0, a, b))
for (op, msg), exs in sorted(issues.items()):
    print(op, "|", msg, "|", len(exs), "| e.g.", exs[0])
print("done")
