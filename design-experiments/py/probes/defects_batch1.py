import dendropy, warnings
warnings.simplefilter("ignore")
from dendropy import Tree, TaxonNamespace
# C02: label with '='
for lab in ["a=b", "a\\b", "2", "x y", "x_y", "a'b"]:
    tns = TaxonNamespace([lab, "1", "zz"])
    t = Tree(taxon_namespace=tns)
    for tx in tns: t.seed_node.new_child(taxon=tx, edge_length=1.0)
    s = t.as_string("newick")
    try:
        t2 = Tree.get(data=s, schema="newick")
        print(repr(lab), s.strip(), [l.taxon.label for l in t2.leaf_nodes()])
    except Exception as e:
        print(repr(lab), s.strip(), "ERR", type(e).__name__, str(e)[:80])
# numeric labels via newick
t2 = Tree.get(data="(2,1,3);", schema="newick")
print([l.taxon.label for l in t2.leaf_nodes()])
# apply from non-root
t = Tree.get(data="((a,b)x,(c,d)y)r;", schema="newick")
y = t.find_node_with_label("y")
out=[]
y.apply(before_fn=lambda n: out.append("<"+str(n.label)), after_fn=lambda n: out.append(">"+str(n.label)), leaf_fn=lambda n: out.append(n.taxon.label))
print(out)
x = t.find_node_with_label("x")
out=[]
x.apply(before_fn=lambda n: out.append("<"+str(n.label)), after_fn=lambda n: out.append(">"+str(n.label)), leaf_fn=lambda n: out.append(n.taxon.label))
print(out)
