import sys, random, subprocess, warnings
sys.path.insert(0, "/repo/src")
warnings.simplefilter("ignore")
import dendropy
from dendropy import Tree, TaxonNamespace, Node
rng = random.Random(int(sys.argv[1]) if len(sys.argv) > 1 else 1)

def rand_par(nmax):
    n = rng.randint(2, nmax); par = [-1]
    for i in range(1, n):
        par.append(rng.randrange(0, i) if rng.random() < 0.7 else max(0, i - rng.randint(1, 2)))
    return par
cases = []
for k in range(5000):
    par = rand_par(11); n = len(par)
    lens = [rng.choice(["N", 0, 2, 4, 6, 8]) for _ in range(n)]
    if rng.random() < 0.3: lens = ["N"] * n
    kids = {i: [j for j in range(n) if par[j] == i] for i in range(n)}
    internal_only = rng.random() < 0.7
    cands = [i for i in range(n) if (kids[i] or not internal_only)]
    tgt = rng.choice(cands)
    cases.append((rng.random() < 0.5, rng.random() < 0.8, rng.random() < 0.8, tgt, par, lens))

def render(nd, ids):
    L = nd.edge.length
    return "(%d:%s%s)" % (ids[id(nd)], "N" if L is None else str(int(L)), "".join(" " + render(c, ids) for c in nd._child_nodes))

def impl(unrooted, collapse, suppress, tgt, par, lens):
    nodes = [Node() for _ in par]
    for i, L in enumerate(lens):
        nodes[i].edge.length = None if L == "N" else L
    for i, p in enumerate(par):
        if p >= 0: nodes[p].add_child(nodes[i])
    t = Tree(seed_node=nodes[0]); t.is_rooted = not unrooted
    ids = {id(nd): i for i, nd in enumerate(nodes)}
    t.reseed_at(nodes[tgt], update_bipartitions=False, collapse_unrooted_basal_bifurcation=collapse, suppress_unifurcations=suppress)
    t._debug_tree_is_valid()
    return render(t.seed_node, ids)

lines = ["reseed %d %d %d %d %d %s %s" % (u, c, s, tgt, len(par), " ".join(map(str, par)), " ".join(map(str, lens))) for u, c, s, tgt, par, lens in cases]
out = subprocess.run(["/tmp/lt/DV/.lake/build/bin/driver"], input="\n".join(lines) + "\n", capture_output=True, text=True).stdout.split("\n")
bad = 0
for c, mo in zip(cases, out):
    try: po = impl(*c)
    except Exception as e: po = "EXC " + type(e).__name__ + " " + str(e)[:40]
    if po != mo.strip():
        bad += 1
        if bad < 8: print("DIFF", c, "\n   impl:", po, "\n  model:", mo)
print("cases", len(cases), "disagreements", bad)
