import sys, random, subprocess, warnings
sys.path.insert(0, "/repo/src")
warnings.simplefilter("ignore")
import dendropy
from dendropy import Tree, TaxonNamespace

def render(nd, tns):
    if not nd._child_nodes:
        return str(tns.accession_index(nd.taxon))
    return "(" + ",".join(render(c, tns) for c in nd._child_nodes) + ")"

rng = random.Random(int(sys.argv[1]) if len(sys.argv) > 1 else 1)
cases = []
for k in range(3000):
    n = rng.randint(2, 7)
    rooted = rng.random() < 0.5
    m = rng.randint(0, 6)
    # mixture: random masks (often incompatible), plus masks from a random tree (compatible)
    splits = []
    if rng.random() < 0.5:
        # clades of a random tree
        items = [1 << i for i in range(n)]
        rng.shuffle(items)
        cl = []
        while len(items) > 1:
            kk = rng.randint(2, min(3, len(items)))
            grp = [items.pop(rng.randrange(len(items))) for _ in range(kk)]
            mm = 0
            for g in grp: mm |= g
            cl.append(mm); items.append(mm)
        rng.shuffle(cl)
        splits = cl[:m] + [rng.randrange(1 << n) for _ in range(rng.randint(0, 2))]
        rng.shuffle(splits)
    else:
        splits = [rng.randrange(1 << n) for _ in range(m)]
    cases.append((n, rooted, splits))

lines = ["build %d %d %s" % (n, 1 if r else 0, " ".join(map(str, s))) for n, r, s in cases]
out = subprocess.run(["/tmp/lt/DV/.lake/build/bin/driver"], input="\n".join(lines) + "\n", capture_output=True, text=True).stdout.split("\n")
bad = 0
for (n, r, s), mo in zip(cases, out):
    tns = TaxonNamespace(["t%d" % i for i in range(n)])
    t = Tree.from_split_bitmasks(s, tns, is_rooted=r)
    t._debug_tree_is_valid()
    po = render(t.seed_node, tns)
    if po != mo:
        bad += 1
        if bad < 6: print("DIFF", n, r, s, po, mo)
print("cases", len(cases), "disagreements", bad)
