import Mathlib.Tactic
/-! Prototype: token-level model of NewickWriter (apply callbacks) and NewickReader._parse_tree_node_description;
    round trip for trees whose leaves are labelled (C02 clause b, C13/C20 share the parser) -/
namespace Newick

inductive Tok where
  | lp | rp | comma | colon | semi
  | word (s : String)
deriving DecidableEq, Repr

inductive NT where
  | node (label : Option String) (len : Option String) (cs : List NT)
deriving Repr

def blank : NT := .node none none []

def lab : Option String → List Tok | none => [] | some s => [.word s]
def ln : Option String → List Tok | none => [] | some s => [.colon, .word s]

mutual
def wr : NT → List Tok
  | .node l e cs => (match cs with | [] => [] | c :: cs' => [.lp] ++ wrL (c :: cs') ++ [.rp]) ++ lab l ++ ln e
def wrL : List NT → List Tok
  | [] => []
  | [c] => wr c
  | c :: d :: cs => wr c ++ [.comma] ++ wrL (d :: cs)
end

/-- label / length loop at the end of `_parse_tree_node_description`; Bool = statement complete (';' seen) -/
def parseTail (cs : List NT) : Option String → Option String → List Tok → Option (NT × List Tok × Bool)
  | l, _, .colon :: .word w :: rest => parseTail cs l (some w) rest
  | _, _, .colon :: _ => none
  | l, e, .rp :: rest => some (.node l e cs, .rp :: rest, false)
  | l, e, .comma :: rest => some (.node l e cs, .comma :: rest, false)
  | l, e, .semi :: rest => some (.node l e cs, rest, true)
  | _, _, .lp :: _ => none
  | none, e, .word w :: rest => parseTail cs (some w) e rest
  | some _, _, .word _ :: _ => none
  | _, _, [] => none

def eatCommas : List Tok → List NT → List NT × List Tok
  | .comma :: rest, acc => eatCommas rest (acc ++ [blank])
  | toks, acc => (acc, toks)

mutual
def parseNode : Nat → List Tok → Option (NT × List Tok × Bool)
  | 0, _ => none
  | f+1, .lp :: rest =>
    match parseChildren f rest [] false 0 with
    | none => none
    | some (cs, rest') => parseTail cs none none rest'
  | _+1, toks => parseTail [] none none toks
def parseChildren : Nat → List Tok → List NT → Bool → Nat → Option (List NT × List Tok)
  | 0, _, _, _, _ => none
  | f+1, .comma :: rest, acc, created, count =>
    let acc1 := if created then acc else acc ++ [blank]
    let (acc2, rest2) := eatCommas rest acc1
    match rest2 with
    | .rp :: _ =>
      if created then parseChildren f rest2 acc2 created (count+1)
      else parseChildren f rest2 (acc2 ++ [blank]) true (count+1)
    | _ => parseChildren f rest2 acc2 created (count+1)
  | _+1, .rp :: rest, acc, _, count => some (if count = 0 then acc ++ [blank] else acc, rest)
  | f+1, toks, acc, _, count =>
    match parseNode f toks with
    | none => none
    | some (_, _, true) => none          -- ';' inside parentheses: unbalanced
    | some (c, rest', false) => parseChildren f rest' (acc ++ [c]) true (count+1)
end

def t1 : NT := .node none none [.node (some "A") (some "1.0") [], .node (some "x") none [.node (some "B") none [], .node (some "C") (some "2") []]]
#eval wr t1
#eval parseNode 20 (wr t1 ++ [.semi])
#eval parseNode 20 [.lp, .word "A", .comma, .rp, .semi]     -- (A,) : trailing blank dropped, as in the code
#eval parseNode 20 [.lp, .comma, .word "A", .rp, .semi]     -- (,A)


mutual
def LL : NT → Prop
  | .node l _ cs => (match cs with | [] => l.isSome = true | _ :: _ => True) ∧ LLL cs
def LLL : List NT → Prop
  | [] => True
  | c :: cs => LL c ∧ LLL cs
end

mutual
def need : NT → Nat
  | .node _ _ cs => 2 + needL cs
def needL : List NT → Nat
  | [] => 1
  | c :: cs => need c + 2 + needL cs
end

inductive Follow | rp | comma | semi
def Follow.tok : Follow → Tok | .rp => .rp | .comma => .comma | .semi => .semi
def Follow.after : Follow → List Tok → List Tok × Bool
  | .rp, rest => (.rp :: rest, false)
  | .comma, rest => (.comma :: rest, false)
  | .semi, rest => (rest, true)

theorem tail_spec (cs : List NT) (l e : Option String) (d : Follow) (rest : List Tok) :
    parseTail cs none none (lab l ++ ln e ++ d.tok :: rest) = some (.node l e cs, d.after rest) := by
  cases l <;> cases e <;> cases d <;> simp [lab, ln, parseTail, Follow.tok, Follow.after]

/-- first token of a written labelled tree is `(` or a word: never `,` or `)` -/
theorem wr_head (t : NT) (h : LL t) (tl : List Tok) :
    (∃ r, wr t ++ tl = .lp :: r) ∨ (∃ w r, wr t ++ tl = .word w :: r) := by
  cases t with
  | node l e cs =>
    cases cs with
    | nil =>
      simp only [LL] at h
      cases l with
      | none => simp at h
      | some w => right; exact ⟨w, ln e ++ tl, by simp [wr, lab]⟩
    | cons c cs' => left; exact ⟨_, by simp [wr]; rfl⟩


/-- continuation used by parseChildren after a child has been parsed -/
def contChild (f : Nat) (acc : List NT) (count : Nat) : Option (NT × List Tok × Bool) → Option (List NT × List Tok)
  | none => none
  | some (_, _, true) => none
  | some (c, rest', false) => parseChildren f rest' (acc ++ [c]) true (count+1)

theorem pc_lp (f : Nat) (r : List Tok) (acc : List NT) (cr : Bool) (cnt : Nat) :
    parseChildren (f+1) (.lp :: r) acc cr cnt = contChild f acc cnt (parseNode f (.lp :: r)) := by
  rw [parseChildren]
  · cases parseNode f (.lp :: r) with
    | none => rfl
    | some x => obtain ⟨c, r', b⟩ := x; cases b <;> rfl
  all_goals (intro _ h; cases h)

theorem pc_word (f : Nat) (w : String) (r : List Tok) (acc : List NT) (cr : Bool) (cnt : Nat) :
    parseChildren (f+1) (.word w :: r) acc cr cnt = contChild f acc cnt (parseNode f (.word w :: r)) := by
  rw [parseChildren]
  · cases parseNode f (.word w :: r) with
    | none => rfl
    | some x => obtain ⟨c, r', b⟩ := x; cases b <;> rfl
  all_goals (intro _ h; cases h)

theorem pc_child (f : Nat) (t : NT) (h : LL t) (tl : List Tok) (acc : List NT) (cr : Bool) (cnt : Nat) :
    parseChildren (f+1) (wr t ++ tl) acc cr cnt = contChild f acc cnt (parseNode f (wr t ++ tl)) := by
  rcases wr_head t h tl with ⟨r, hr⟩ | ⟨w, r, hr⟩
  · rw [hr]; exact pc_lp f r acc cr cnt
  · rw [hr]; exact pc_word f w r acc cr cnt

theorem pc_comma_child (f : Nat) (t : NT) (h : LL t) (tl : List Tok) (acc : List NT) (cnt : Nat) :
    parseChildren (f+1) (.comma :: (wr t ++ tl)) acc true cnt = parseChildren f (wr t ++ tl) acc true (cnt+1) := by
  rcases wr_head t h tl with ⟨r, hr⟩ | ⟨w, r, hr⟩
  · rw [hr]; simp [parseChildren, eatCommas]
  · rw [hr]; simp [parseChildren, eatCommas]

theorem wrL_cons_head (c d : NT) (ds : List NT) (tl : List Tok) :
    wrL (c :: d :: ds) ++ tl = wr c ++ (.comma :: (wrL (d :: ds) ++ tl)) := by
  simp [wrL]

theorem wrL_head (d : NT) (ds : List NT) (tl : List Tok) : ∃ tl', wrL (d :: ds) ++ tl = wr d ++ tl' := by
  cases ds with
  | nil => exact ⟨tl, by simp [wrL]⟩
  | cons e es => exact ⟨_, wrL_cons_head d e es tl⟩

mutual
theorem rt : ∀ (t : NT), LL t → ∀ f, need t ≤ f → ∀ (d : Follow) (rest : List Tok),
    parseNode f (wr t ++ d.tok :: rest) = some (t, d.after rest)
  | .node l e [], h, f, hf, d, rest => by
      simp only [LL] at h
      obtain ⟨f', rfl⟩ : ∃ f', f = f' + 1 := ⟨f - 1, by simp [need, needL] at hf; omega⟩
      cases l with
      | none => simp at h
      | some w =>
        have : wr (.node (some w) e []) ++ d.tok :: rest = .word w :: (ln e ++ d.tok :: rest) := by
          simp [wr, lab]
        rw [this, parseNode]
        · have := tail_spec [] (some w) e d rest
          simpa [lab] using this
        · intro _ h; cases h
  | .node l e (c :: cs), h, f, hf, d, rest => by
      simp only [LL] at h
      obtain ⟨f', rfl⟩ : ∃ f', f = f' + 1 := ⟨f - 1, by simp [need] at hf; omega⟩
      have hw : wr (.node l e (c :: cs)) ++ d.tok :: rest =
          .lp :: (wrL (c :: cs) ++ .rp :: (lab l ++ ln e ++ d.tok :: rest)) := by
        simp [wr]
      rw [hw, parseNode]
      have hL := rtL (c :: cs) (by simp) h.2 f' (by simp [need] at hf; omega) [] false 0
        (lab l ++ ln e ++ d.tok :: rest)
      rw [hL]
      simp only [List.nil_append]
      exact tail_spec (c :: cs) l e d rest
theorem rtL : ∀ (cs : List NT), cs ≠ [] → LLL cs → ∀ f, needL cs ≤ f →
    ∀ (acc : List NT) (created : Bool) (count : Nat) (rest : List Tok),
    parseChildren f (wrL cs ++ .rp :: rest) acc created count = some (acc ++ cs, rest)
  | [], hne, _, _, _, _, _, _, _ => absurd rfl hne
  | [c], _, h, f, hf, acc, created, count, rest => by
      simp only [LLL] at h
      simp only [needL] at hf
      obtain ⟨f', rfl⟩ : ∃ f', f = f' + 1 := ⟨f - 1, by omega⟩
      obtain ⟨f'', rfl⟩ : ∃ f'', f' = f'' + 1 := ⟨f' - 1, by omega⟩
      have hw : wrL [c] ++ .rp :: rest = wr c ++ .rp :: rest := by simp [wrL]
      rw [hw, pc_child (f''+1) c h.1]
      have := rt c h.1 (f''+1) (by omega) .rp rest
      simp only [Follow.tok, Follow.after] at this
      rw [this]
      simp [contChild, parseChildren]
  | c :: d :: ds, _, h, f, hf, acc, created, count, rest => by
      simp only [LLL] at h
      simp only [needL] at hf
      obtain ⟨f', rfl⟩ : ∃ f', f = f' + 1 := ⟨f - 1, by omega⟩
      obtain ⟨f'', rfl⟩ : ∃ f'', f' = f'' + 1 := ⟨f' - 1, by omega⟩
      rw [wrL_cons_head, pc_child (f''+1) c h.1]
      have := rt c h.1 (f''+1) (by omega) .comma (wrL (d :: ds) ++ .rp :: rest)
      simp only [Follow.tok, Follow.after] at this
      rw [this]
      simp only [contChild]
      rcases wrL_head d ds (.rp :: rest) with ⟨tl', htl⟩
      rw [htl, pc_comma_child f'' d h.2.1, ← htl]
      have := rtL (d :: ds) (by simp) ⟨h.2.1, h.2.2⟩ f'' (by simp [needL]; omega) (acc ++ [c]) true (count+1+1) rest
      rw [this]; simp
end

/-- whole-statement round trip: `write; ";"` parses back to the same tree with the statement complete -/
theorem newick_roundtrip (t : NT) (h : LL t) (rest : List Tok) :
    parseNode (need t) (wr t ++ .semi :: rest) = some (t, rest, true) :=
  rt t h (need t) (le_refl _) .semi rest

#print axioms newick_roundtrip
end Newick
