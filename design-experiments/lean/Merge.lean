import Mathlib.Tactic
import Mathlib.Data.List.Perm.Basic
/-! Prototype: TreeArray.update merge is partition- and order-independent (repaired rule: empty other is a no-op) -/
namespace Merge

structure Tree where
  splits : List Nat
  weight : Nat
  rooted : Bool

structure TA where
  rooting : Option Bool      -- None while undefined
  trees : List Tree

inductive Err | mixedRooting | incompatible

def addTree (a : TA) (t : Tree) : Except Err TA :=
  match a.rooting with
  | none => .ok { rooting := some t.rooted, trees := a.trees ++ [t] }
  | some r => if r = t.rooted then .ok { a with trees := a.trees ++ [t] } else .error .mixedRooting

/-- `TreeArray.update`, repaired: an empty `other` contributes nothing and is never rejected -/
def update (a b : TA) : Except Err TA :=
  if b.trees = [] then .ok a
  else if a.trees ≠ [] then
    (if a.rooting = b.rooting then .ok { a with trees := a.trees ++ b.trees } else .error .incompatible)
  else .ok { rooting := b.rooting, trees := a.trees ++ b.trees }

def count (s : Nat) : List Tree → Nat
  | [] => 0
  | t :: ts => (if s ∈ t.splits then t.weight else 0) + count s ts

theorem count_append (s : Nat) (a b : List Tree) : count s (a ++ b) = count s a + count s b := by
  induction a with
  | nil => simp [count]
  | cons t ts ih => simp only [List.cons_append, count, ih]; omega

theorem count_perm (s : Nat) {a b : List Tree} (h : a.Perm b) : count s a = count s b := by
  induction h with
  | nil => rfl
  | cons x _ ih => simp only [count, ih]
  | swap x y l => simp only [count]; omega
  | trans _ _ ih1 ih2 => exact ih1.trans ih2

/-- a sub-collection is *consistent with rooting r* if it is empty (any rooting flag) or tagged `some r` -/
def Consistent (r : Bool) (p : TA) : Prop := p.trees = [] ∨ p.rooting = some r

def mergeAll (m : TA) : List TA → Except Err TA
  | [] => .ok m
  | p :: ps => match update m p with
    | .ok m' => mergeAll m' ps
    | .error e => .error e

theorem merge_ok (r : Bool) : ∀ (ps : List TA) (m : TA), Consistent r m → (∀ p ∈ ps, Consistent r p) →
    ∃ m', mergeAll m ps = .ok m' ∧ Consistent r m' ∧ m'.trees = m.trees ++ (ps.map (·.trees)).flatten := by
  intro ps
  induction ps with
  | nil => intro m hm _; exact ⟨m, rfl, hm, by simp⟩
  | cons p ps ih =>
    intro m hm hps
    have hp := hps p (by simp)
    have hrest : ∀ q ∈ ps, Consistent r q := fun q hq => hps q (by simp [hq])
    simp only [mergeAll]
    by_cases hpe : p.trees = []
    · simp only [update, hpe, if_true]
      rcases ih m hm hrest with ⟨m', h1, h2, h3⟩
      exact ⟨m', h1, h2, by simp [h3, hpe]⟩
    · have hpr : p.rooting = some r := by rcases hp with h | h; exact absurd h hpe; exact h
      by_cases hme : m.trees = []
      · simp only [update, hpe, if_false, hme, ne_eq, not_true_eq_false]
        rcases ih { rooting := p.rooting, trees := [] ++ p.trees } (Or.inr hpr) hrest with ⟨m', h1, h2, h3⟩
        exact ⟨m', h1, h2, by simp [h3, hme]⟩
      · have hmr : m.rooting = some r := by rcases hm with h | h; exact absurd h hme; exact h
        simp only [update, hpe, if_false, ne_eq, hme, not_false_eq_true, if_true, hmr, hpr]
        rcases ih { rooting := some r, trees := m.trees ++ p.trees } (Or.inr rfl) hrest with ⟨m', h1, h2, h3⟩
        exact ⟨m', h1, h2, by simp [h3]⟩

/-- any arrival order of any partition (empty parts included) gives the same split counts as the serial run -/
theorem merge_any_order (r : Bool) (master : TA) (hm : master.trees = []) (parts parts' : List TA)
    (hperm : parts.Perm parts') (hc : ∀ p ∈ parts, Consistent r p) :
    ∃ m m', mergeAll master parts = .ok m ∧ mergeAll master parts' = .ok m' ∧
      ∀ s, count s m.trees = count s m'.trees := by
  have hc' : ∀ p ∈ parts', Consistent r p := fun p hp => hc p (hperm.symm.subset hp)
  rcases merge_ok r parts master (Or.inl hm) hc with ⟨m, h1, _, h3⟩
  rcases merge_ok r parts' master (Or.inl hm) hc' with ⟨m', h1', _, h3'⟩
  refine ⟨m, m', h1, h1', ?_⟩
  intro s
  rw [h3, h3', hm]
  apply count_perm
  simp only [List.nil_append]
  exact (hperm.map _).flatten

#print axioms merge_any_order
end Merge
