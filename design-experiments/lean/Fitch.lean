import Mathlib.Tactic
/-! Prototype: Fitch down-pass computes the minimum number of changes (one character, binary tree) -/
namespace Fitch

abbrev St := Nat   -- a state index

inductive B where
  | leaf (s : List St)          -- allowed states at the leaf (ambiguity = several)
  | node (l r : B)

def inter (a b : List St) : List St := a.filter (fun x => b.contains x)
def union (a b : List St) : List St := a ++ b.filter (fun x => !a.contains x)

/-- (state set, score) as in `fitch_down_pass` -/
def fitch : B → List St × Nat
  | .leaf s => (s, 0)
  | .node l r =>
    let (A, a) := fitch l
    let (Bs, b) := fitch r
    let i := inter A Bs
    if i.isEmpty then (union A Bs, a + b + 1) else (i, a + b)

/-- a full assignment of states to all nodes -/
inductive A where
  | leaf (s : St)
  | node (s : St) (l r : A)

def A.root : A → St
  | .leaf s => s
  | .node s _ _ => s

def Valid : B → A → Prop
  | .leaf ss, .leaf s => s ∈ ss
  | .node l r, .node _ al ar => Valid l al ∧ Valid r ar
  | _, _ => False

def d (x y : St) : Nat := if x = y then 0 else 1

def changes : A → Nat
  | .leaf _ => 0
  | .node s l r => changes l + changes r + d l.root s + d r.root s

def NonEmptyLeaves : B → Prop
  | .leaf ss => ss ≠ []
  | .node l r => NonEmptyLeaves l ∧ NonEmptyLeaves r

theorem mem_inter {a b : List St} {x : St} : x ∈ inter a b ↔ x ∈ a ∧ x ∈ b := by
  simp [inter, List.mem_filter]
theorem mem_union {a b : List St} {x : St} : x ∈ union a b ↔ x ∈ a ∨ x ∈ b := by
  simp [union, List.mem_filter]; tauto

def pen (F : List St) (s : St) : Nat := if s ∈ F then 0 else 1

theorem fitch_nonempty : ∀ t, NonEmptyLeaves t → (fitch t).1 ≠ []
  | .leaf ss, h => by simpa [fitch, NonEmptyLeaves] using h
  | .node l r, h => by
    have hl := fitch_nonempty l h.1
    have hr := fitch_nonempty r h.2
    simp only [fitch]
    split
    · rename_i hi
      intro hu
      simp only at hu
      apply hl
      cases hA : (fitch l).1 with
      | nil => rfl
      | cons x xs =>
        exfalso
        have : x ∈ union (fitch l).1 (fitch r).1 := mem_union.mpr (Or.inl (by simp [hA]))
        rw [hu] at this; cases this
    · rename_i hi
      intro hu; simp only at hu; apply hi; simp [hu]

@[simp] theorem root_node (s : St) (l r : A) : (A.node s l r).root = s := rfl

theorem key (F : List St) (x s : St) (h : s ∉ F) : pen F x + d x s ≥ 1 := by
  unfold pen d
  by_cases hx : x = s
  · subst hx; simp [h]
  · simp [hx]

theorem fitch_lower (t : B) : ∀ (a : A), Valid t a → changes a ≥ (fitch t).2 + pen (fitch t).1 a.root := by
  induction t with
  | leaf ss =>
    intro a h
    cases a with
    | leaf s => simp only [Valid] at h; simp [fitch, changes, pen, A.root, h]
    | node s al ar => simp [Valid] at h
  | node l r ihl ihr =>
    intro a h
    cases a with
    | leaf s => simp [Valid] at h
    | node s al ar =>
      simp only [Valid] at h
      have hl := ihl al h.1
      have hr := ihr ar h.2
      simp only [fitch, changes, root_node]
      by_cases hi : (inter (fitch l).1 (fitch r).1).isEmpty = true
      · have hdis : ∀ x, x ∈ (fitch l).1 → x ∈ (fitch r).1 → False := by
          intro x h1 h2
          have : x ∈ inter (fitch l).1 (fitch r).1 := mem_inter.mpr ⟨h1, h2⟩
          rw [List.isEmpty_iff] at hi; rw [hi] at this; cases this
        simp only [hi, if_true]
        by_cases hA : s ∈ (fitch l).1
        · have hB : s ∉ (fitch r).1 := fun hB => hdis s hA hB
          have k := key _ ar.root s hB
          have : pen (union (fitch l).1 (fitch r).1) s = 0 := by simp [pen, mem_union, hA]
          omega
        · by_cases hB : s ∈ (fitch r).1
          · have k := key _ al.root s hA
            have : pen (union (fitch l).1 (fitch r).1) s = 0 := by simp [pen, mem_union, hB]
            omega
          · have k1 := key _ al.root s hA
            have k2 := key _ ar.root s hB
            have : pen (union (fitch l).1 (fitch r).1) s = 1 := by simp [pen, mem_union, hA, hB]
            omega
      · simp only [hi]
        by_cases hA : s ∈ (fitch l).1
        · by_cases hB : s ∈ (fitch r).1
          · have : pen (inter (fitch l).1 (fitch r).1) s = 0 := by simp [pen, mem_inter, hA, hB]
            simp only [Bool.false_eq_true, if_false] ; omega
          · have k := key _ ar.root s hB
            have : pen (inter (fitch l).1 (fitch r).1) s ≤ 1 := by unfold pen; split <;> omega
            simp only [Bool.false_eq_true, if_false] ; omega
        · have k := key _ al.root s hA
          have : pen (inter (fitch l).1 (fitch r).1) s ≤ 1 := by unfold pen; split <;> omega
          simp only [Bool.false_eq_true, if_false] ; omega


theorem exists_mem_of_ne_nil {l : List St} (h : l ≠ []) : ∃ x, x ∈ l := by
  cases l with
  | nil => exact absurd rfl h
  | cons x xs => exact ⟨x, by simp⟩

theorem fitch_upper (t : B) : NonEmptyLeaves t → ∀ s ∈ (fitch t).1, ∃ a : A, Valid t a ∧ a.root = s ∧ changes a = (fitch t).2 := by
  induction t with
  | leaf ss =>
    intro _ s hs
    exact ⟨.leaf s, by simpa [Valid, fitch] using hs, rfl, by simp [changes, fitch]⟩
  | node l r ihl ihr =>
    intro hne s hs
    simp only [NonEmptyLeaves] at hne
    simp only [fitch] at hs ⊢
    by_cases hi : (inter (fitch l).1 (fitch r).1).isEmpty = true
    · simp only [hi, if_true] at hs ⊢
      rcases mem_union.mp hs with hA | hB
      · -- s in the left set: left subtree rooted at s, right subtree rooted at any optimal state, one change
        obtain ⟨al, hvl, hrl, hcl⟩ := ihl hne.1 s hA
        obtain ⟨y, hy⟩ := exists_mem_of_ne_nil (fitch_nonempty r hne.2)
        obtain ⟨ar, hvr, hrr, hcr⟩ := ihr hne.2 y hy
        have hys : y ≠ s := by
          intro e; subst e
          have : y ∈ inter (fitch l).1 (fitch r).1 := mem_inter.mpr ⟨hA, hy⟩
          rw [List.isEmpty_iff] at hi; rw [hi] at this; cases this
        refine ⟨.node s al ar, ⟨hvl, hvr⟩, rfl, ?_⟩
        simp [changes, hcl, hcr, hrl, hrr, d, hys]
      · obtain ⟨ar, hvr, hrr, hcr⟩ := ihr hne.2 s hB
        obtain ⟨x, hx⟩ := exists_mem_of_ne_nil (fitch_nonempty l hne.1)
        obtain ⟨al, hvl, hrl, hcl⟩ := ihl hne.1 x hx
        have hxs : x ≠ s := by
          intro e; subst e
          have : x ∈ inter (fitch l).1 (fitch r).1 := mem_inter.mpr ⟨hx, hB⟩
          rw [List.isEmpty_iff] at hi; rw [hi] at this; cases this
        refine ⟨.node s al ar, ⟨hvl, hvr⟩, rfl, ?_⟩
        simp [changes, hcl, hcr, hrl, hrr, d, hxs]
    · simp only [hi, Bool.false_eq_true, if_false] at hs ⊢
      obtain ⟨hA, hB⟩ := mem_inter.mp hs
      obtain ⟨al, hvl, hrl, hcl⟩ := ihl hne.1 s hA
      obtain ⟨ar, hvr, hrr, hcr⟩ := ihr hne.2 s hB
      refine ⟨.node s al ar, ⟨hvl, hvr⟩, rfl, ?_⟩
      simp [changes, hcl, hcr, hrl, hrr, d]

/-- Fitch's score is the minimum number of changes over all assignments of states to nodes -/
theorem fitch_minimal (t : B) (h : NonEmptyLeaves t) :
    (∀ a, Valid t a → (fitch t).2 ≤ changes a) ∧ (∃ a, Valid t a ∧ changes a = (fitch t).2) := by
  constructor
  · intro a ha; have := fitch_lower t a ha; omega
  · obtain ⟨s, hs⟩ := exists_mem_of_ne_nil (fitch_nonempty t h)
    obtain ⟨a, hv, _, hc⟩ := fitch_upper t h s hs
    exact ⟨a, hv, hc⟩

#print axioms fitch_minimal
end Fitch
