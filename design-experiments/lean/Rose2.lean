namespace Rose

inductive T where
  | node (id : Nat) (children : List T)
deriving Repr

def T.children : T → List T | .node _ cs => cs

mutual
def post : T → List T
  | .node i cs => postL cs ++ [.node i cs]
def postL : List T → List T
  | [] => []
  | c :: cs => post c ++ postL cs
end

mutual
def size : T → Nat
  | .node _ cs => 1 + sizeL cs
def sizeL : List T → Nat
  | [] => 0
  | c :: cs => size c + sizeL cs
end

/-- Python: stack = [(self, False)]; pop from END; extend with reversed children.
 We model the stack with head = top. `reversed(children)` pushed so that the first child is on top. -/
def todo : List (T × Bool) → List T
  | [] => []
  | (n, true) :: rest => n :: todo rest
  | (n, false) :: rest => post n ++ todo rest

def weight : List (T × Bool) → Nat
  | [] => 0
  | (_, true) :: rest => 1 + weight rest
  | (n, false) :: rest => 2 * size n + weight rest

def run : Nat → List (T × Bool) → List T
  | 0, _ => []
  | _+1, [] => []
  | f+1, (n, true) :: rest => n :: run f rest
  | f+1, (.node i cs, false) :: rest =>
      run f (cs.map (fun c => (c, false)) ++ ((.node i cs, true) :: rest))

theorem todo_append_false (cs : List T) (rest : List (T × Bool)) :
    todo (cs.map (fun c => (c, false)) ++ rest) = postL cs ++ todo rest := by
  induction cs with
  | nil => simp [todo, postL]
  | cons c cs ih => simp [todo, postL, ih]

theorem weight_append_false (cs : List T) (rest : List (T × Bool)) :
    weight (cs.map (fun c => (c, false)) ++ rest) = 2 * sizeL cs + weight rest := by
  induction cs with
  | nil => simp [weight, sizeL]
  | cons c cs ih => simp [weight, sizeL, ih]; omega

theorem run_eq (f : Nat) : ∀ (st : List (T × Bool)), weight st ≤ f → run f st = todo st := by
  induction f with
  | zero =>
    intro st h
    match st with
    | [] => simp [run, todo]
    | (n, true) :: rest => simp [weight] at h
    | (.node i cs, false) :: rest => simp [weight, size] at h; omega
  | succ f ih =>
    intro st h
    match st with
    | [] => simp [run, todo]
    | (n, true) :: rest =>
      simp [weight] at h
      simp [run, todo, ih rest (by omega)]
    | (.node i cs, false) :: rest =>
      simp [weight, size] at h
      have := ih (cs.map (fun c => (c, false)) ++ ((.node i cs, true) :: rest))
        (by rw [weight_append_false]; simp [weight]; omega)
      simp [run, this, todo_append_false, todo, post]

theorem postorder_iter_correct (t : T) : run (2 * size t) [(t, false)] = post t := by
  rw [run_eq]
  · simp [todo]
  · simp [weight]

#print axioms postorder_iter_correct
end Rose
