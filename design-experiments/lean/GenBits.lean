import Mathlib.Data.Int.Bitwise
namespace PyBits
def pand (a b : Int) : Int := Int.land a b
def por (a b : Int) : Int := Int.lor a b
def pxor (a b : Int) : Int := Int.xor a b
def pnot (a : Int) : Int := Int.lnot a

def normalize_bitmask (bitmask fill_bitmask lowest_relevant_bit : Int) : Int :=
  if (decide ((pand bitmask lowest_relevant_bit) ≠ 0)) then
    (pand (pnot bitmask) fill_bitmask)
  else
    (pand bitmask fill_bitmask)

def is_trivial_bitmask (bitmask fill_bitmask : Int) : Bool :=
  let masked_split := (pand bitmask fill_bitmask)
  if ((decide (bitmask = (0 : Int))) || (decide (bitmask = fill_bitmask))) then
    true
  else
    if (decide ((pand (masked_split - (1 : Int)) masked_split) = (0 : Int))) then
      true
    else
      let cm := (pand (pnot bitmask) fill_bitmask)
      if (decide ((pand (cm - (1 : Int)) cm) = (0 : Int))) then
        true
      else
        false

def is_compatible_bitmasks (m1 m2 fill_bitmask : Int) : Bool :=
  let m1 := if (decide (fill_bitmask ≠ (0 : Int))) then (pand fill_bitmask m1) else m1
  let m2 := if (decide (fill_bitmask ≠ (0 : Int))) then (pand fill_bitmask m2) else m2
  if (decide ((0 : Int) = (pand m1 m2))) then
    true
  else
    let c2 := (pxor m1 m2)
    if (decide ((0 : Int) = (pand m1 c2))) then
      true
    else
      let c1 := (pxor fill_bitmask m1)
      if (decide ((0 : Int) = (pand c1 m2))) then
        true
      else
        if (decide ((0 : Int) = (pand c1 c2))) then
          true
        else
          false

def least_significant_set_bit (n : Int) : Int :=
  let m := (pand n (n - (1 : Int)))
  (pxor m n)

def protectDefault : List Char := [Char.ofNat 0, Char.ofNat 9, Char.ofNat 10, Char.ofNat 34, Char.ofNat 39, Char.ofNat 40, Char.ofNat 41, Char.ofNat 42, Char.ofNat 43, Char.ofNat 44, Char.ofNat 45, Char.ofNat 47, Char.ofNat 58, Char.ofNat 59, Char.ofNat 60, Char.ofNat 61, Char.ofNat 62, Char.ofNat 91, Char.ofNat 92, Char.ofNat 93, Char.ofNat 96, Char.ofNat 123, Char.ofNat 125]
def protectNewick : List Char := [Char.ofNat 0, Char.ofNat 9, Char.ofNat 10, Char.ofNat 34, Char.ofNat 39, Char.ofNat 40, Char.ofNat 41, Char.ofNat 44, Char.ofNat 58, Char.ofNat 59, Char.ofNat 91, Char.ofNat 93, Char.ofNat 123, Char.ofNat 125]
def tokUncaptured : List Char := [Char.ofNat 9, Char.ofNat 10, Char.ofNat 13, Char.ofNat 32]
def tokCaptured : List Char := [Char.ofNat 34, Char.ofNat 40, Char.ofNat 41, Char.ofNat 44, Char.ofNat 58, Char.ofNat 59, Char.ofNat 61, Char.ofNat 92, Char.ofNat 123, Char.ofNat 125]
def tokQuote : List Char := [Char.ofNat 39]
def tokCommentBegin : List Char := [Char.ofNat 91]
#eval normalize_bitmask 5 15 1
#eval is_trivial_bitmask 3 15
#eval is_compatible_bitmasks 3 6 15
#eval least_significant_set_bit 40
#eval tokCaptured.filter (fun c => !protectNewick.contains c)
end PyBits
