/-! Prototype: Node.apply (repaired: the climb stops at the start node) as a stack machine with
    "closer" lists, proved to emit exactly the bracket sequence of the start subtree (C15) -/
namespace Apply

inductive T where
  | node (id : Nat) (cs : List T)

inductive Ev where
  | before (i : Nat) | after (i : Nat) | leaf (i : Nat)
deriving Repr, DecidableEq

mutual
def br : T → List Ev
  | .node i [] => [.leaf i]
  | .node i (c :: cs) => [.before i] ++ brL (c :: cs) ++ [.after i]
def brL : List T → List Ev
  | [] => []
  | c :: cs => br c ++ brL cs
end

mutual
def size : T → Nat
  | .node _ cs => 1 + sizeL cs
def sizeL : List T → Nat
  | [] => 0
  | c :: cs => size c + sizeL cs
end

/-- children pushed with their closer lists: only the last child inherits `i :: cl` -/
def pushKids (i : Nat) (cl : List Nat) : List T → List (T × List Nat)
  | [] => []
  | [c] => [(c, i :: cl)]
  | c :: d :: cs => (c, []) :: pushKids i cl (d :: cs)

def run : Nat → List (T × List Nat) → List Ev
  | 0, _ => []
  | _+1, [] => []
  | f+1, (.node i [], cl) :: rest => (.leaf i :: cl.map .after) ++ run f rest
  | f+1, (.node i (c :: cs), cl) :: rest => .before i :: run f (pushKids i cl (c :: cs) ++ rest)

def out : List (T × List Nat) → List Ev
  | [] => []
  | (t, cl) :: rest => br t ++ cl.map .after ++ out rest

def weight : List (T × List Nat) → Nat
  | [] => 0
  | (t, _) :: rest => size t + weight rest

theorem out_append (a b : List (T × List Nat)) : out (a ++ b) = out a ++ out b := by
  induction a with
  | nil => simp [out]
  | cons x xs ih => obtain ⟨t, cl⟩ := x; simp [out, ih]

theorem weight_append (a b : List (T × List Nat)) : weight (a ++ b) = weight a + weight b := by
  induction a with
  | nil => simp [weight]
  | cons x xs ih => obtain ⟨t, cl⟩ := x; simp [weight, ih]; omega

theorem out_pushKids (i : Nat) (cl : List Nat) : ∀ (cs : List T), cs ≠ [] →
    out (pushKids i cl cs) = brL cs ++ (.after i :: cl.map .after)
  | [], h => absurd rfl h
  | [c], _ => by simp [pushKids, out, brL]
  | c :: d :: cs, _ => by
      have := out_pushKids i cl (d :: cs) (by simp)
      simp [pushKids, out, brL, this]

theorem weight_pushKids (i : Nat) (cl : List Nat) : ∀ (cs : List T), weight (pushKids i cl cs) = sizeL cs
  | [] => by simp [pushKids, weight, sizeL]
  | [c] => by simp [pushKids, weight, sizeL]
  | c :: d :: cs => by
      have := weight_pushKids i cl (d :: cs)
      simp [pushKids, weight, sizeL, this] at *

theorem run_eq : ∀ (f : Nat) (st : List (T × List Nat)), weight st ≤ f → run f st = out st := by
  intro f
  induction f with
  | zero =>
    intro st h
    match st with
    | [] => simp [run, out]
    | (.node i cs, cl) :: rest => simp [weight, size] at h
  | succ f ih =>
    intro st h
    match st with
    | [] => simp [run, out]
    | (.node i [], cl) :: rest =>
      simp [weight, size, sizeL] at h
      simp [run, out, br, ih rest (by omega)]
    | (.node i (c :: cs), cl) :: rest =>
      simp only [weight, size] at h
      have hw : weight (pushKids i cl (c :: cs) ++ rest) ≤ f := by
        rw [weight_append, weight_pushKids]; omega
      simp only [run]
      rw [ih _ hw, out_append, out_pushKids i cl (c :: cs) (by simp)]
      simp [out, br]

/-- apply started at any node emits exactly the bracket sequence of that subtree -/
theorem apply_spec (t : T) : run (size t) [(t, [])] = br t := by
  rw [run_eq _ _ (by simp [weight])]
  simp [out]

#print axioms apply_spec
end Apply
