import Mathlib.Tactic
/-! Prototype: pointer-level `remove_child` refines tree-level removal (C03 layer 1) -/
namespace Heap

structure H where
  par : Nat → Option Nat
  ch  : Nat → List Nat

inductive IT where
  | node (id : Nat) (cs : List IT)

def IT.id : IT → Nat | .node i _ => i

mutual
def ids : IT → List Nat
  | .node i cs => i :: idsL cs
def idsL : List IT → List Nat
  | [] => []
  | c :: cs => ids c ++ idsL cs
end

mutual
def Repr (h : H) : Option Nat → IT → Prop
  | p, .node i cs => h.par i = p ∧ h.ch i = cs.map IT.id ∧ ReprL h (some i) cs
def ReprL (h : H) : Option Nat → List IT → Prop
  | _, [] => True
  | p, c :: cs => Repr h p c ∧ ReprL h p cs
end

/-- Node.remove_child at pointer level -/
def removeChild (h : H) (p c : Nat) : H :=
  { par := fun x => if x = c then none else h.par x
    ch := fun x => if x = p then (h.ch p).erase c else h.ch x }

mutual
def rm (c : Nat) : IT → IT
  | .node i cs => .node i (rmL c cs)
def rmL (c : Nat) : List IT → List IT
  | [] => []
  | x :: xs => if x.id = c then xs else rm c x :: rmL c xs
end

theorem id_mem_ids : ∀ t : IT, t.id ∈ ids t
  | .node i cs => by simp [IT.id, ids]

theorem rm_id (c : Nat) : ∀ t : IT, (rm c t).id = t.id
  | .node i cs => by simp [rm, IT.id]

mutual
theorem rm_notin (c : Nat) : ∀ t : IT, c ∉ ids t → rm c t = t
  | .node i cs, h => by
      simp only [ids, List.mem_cons, not_or] at h
      simp [rm, rmL_notin c cs h.2]
theorem rmL_notin (c : Nat) : ∀ cs : List IT, c ∉ idsL cs → rmL c cs = cs
  | [], _ => by simp [rmL]
  | x :: xs, h => by
      simp only [idsL, List.mem_append, not_or] at h
      have hx : x.id ≠ c := fun e => h.1 (e ▸ id_mem_ids x)
      simp [rmL, hx, rm_notin c x h.1, rmL_notin c xs h.2]
end

-- frame: a subtree mentioning neither c nor p is unaffected
mutual
theorem frame (h : H) (p c : Nat) : ∀ (q : Option Nat) (t : IT), c ∉ ids t → p ∉ ids t →
    Repr h q t → Repr (removeChild h p c) q t
  | q, .node i cs, hc, hp, hr => by
      simp only [ids, List.mem_cons, not_or] at hc hp
      simp only [Repr] at hr ⊢
      refine ⟨?_, ?_, frameL h p c (some i) cs hc.2 hp.2 hr.2.2⟩
      · simp [removeChild, Ne.symm hc.1, hr.1]
      · simp [removeChild, Ne.symm hp.1, hr.2.1]
theorem frameL (h : H) (p c : Nat) : ∀ (q : Option Nat) (cs : List IT), c ∉ idsL cs → p ∉ idsL cs →
    ReprL h q cs → ReprL (removeChild h p c) q cs
  | _, [], _, _, _ => by simp [ReprL]
  | q, x :: xs, hc, hp, hr => by
      simp only [idsL, List.mem_append, not_or] at hc hp
      simp only [ReprL] at hr ⊢
      exact ⟨frame h p c q x hc.1 hp.1 hr.1, frameL h p c q xs hc.2 hp.2 hr.2⟩
end


mutual
theorem parent_in (h : H) (c p : Nat) : ∀ (q : Option Nat) (t : IT), Repr h q t → c ∈ ids t → c ≠ t.id →
    h.par c = some p → p ∈ ids t
  | q, .node i cs, hr, hc, hne, hp => by
      simp only [ids, List.mem_cons] at hc ⊢
      simp only [IT.id] at hne
      rcases hc with rfl | hc
      · exact absurd rfl hne
      · simp only [Repr] at hr
        exact parent_inL h c p i cs hr.2.2 hc hp
theorem parent_inL (h : H) (c p : Nat) : ∀ (i : Nat) (cs : List IT), ReprL h (some i) cs → c ∈ idsL cs →
    h.par c = some p → p = i ∨ p ∈ idsL cs
  | _, [], _, hc, _ => by simp [idsL] at hc
  | i, x :: xs, hr, hc, hp => by
      simp only [idsL, List.mem_append] at hc ⊢
      simp only [ReprL] at hr
      rcases hc with hc | hc
      · by_cases hcx : c = x.id
        · left
          cases x with
          | node j js =>
            simp only [IT.id] at hcx; subst hcx
            have := hr.1; simp only [Repr] at this
            rw [this.1] at hp; exact (Option.some.inj hp).symm
        · right; left; exact parent_in h c p (some i) x hr.1 hc hcx hp
      · rcases parent_inL h c p i xs hr.2 hc hp with h1 | h1
        · exact Or.inl h1
        · exact Or.inr (Or.inr h1)
end

theorem map_id_sub_idsL : ∀ cs : List IT, ∀ j ∈ cs.map IT.id, j ∈ idsL cs
  | [], j, hj => by simp at hj
  | x :: xs, j, hj => by
      simp only [List.map_cons, List.mem_cons] at hj
      simp only [idsL, List.mem_append]
      rcases hj with rfl | hj
      · exact Or.inl (id_mem_ids x)
      · exact Or.inr (map_id_sub_idsL xs j hj)

-- main refinement, list level: the sibling list `cs` hangs under node `i`
mutual
theorem rm_repr (h : H) (p c : Nat) : ∀ (q : Option Nat) (t : IT), Repr h q t → (ids t).Nodup →
    c ∈ ids t → c ≠ t.id → h.par c = some p → Repr (removeChild h p c) q (rm c t)
  | q, .node i cs, hr, hnd, hc, hne, hp => by
      simp only [ids, List.nodup_cons] at hnd
      simp only [ids, List.mem_cons] at hc
      simp only [IT.id] at hne
      have hcL : c ∈ idsL cs := by rcases hc with rfl | hc; exact absurd rfl hne; exact hc
      simp only [Repr] at hr
      simp only [rm, Repr]
      have hic : i ≠ c := fun e => hnd.1 (e ▸ hcL)
      have ⟨hch, hrl⟩ := rmL_repr h p c i cs hr.2.2 hnd.1 hnd.2 hcL hp
      refine ⟨by simp [removeChild, hic, hr.1], ?_, hrl⟩
      by_cases hpi : p = i
      · subst hpi
        simp only [removeChild, if_true]
        rw [hr.2.1]; exact (hch.1 rfl).symm
      · simp only [removeChild, Ne.symm hpi, if_false]
        rw [hr.2.1]; exact (hch.2 hpi).symm
theorem rmL_repr (h : H) (p c : Nat) : ∀ (i : Nat) (cs : List IT), ReprL h (some i) cs →
    i ∉ idsL cs → (idsL cs).Nodup → c ∈ idsL cs → h.par c = some p →
    ((p = i → (rmL c cs).map IT.id = (cs.map IT.id).erase c) ∧
     (p ≠ i → (rmL c cs).map IT.id = cs.map IT.id)) ∧
    ReprL (removeChild h p c) (some i) (rmL c cs)
  | _, [], _, _, _, hc, _ => by simp [idsL] at hc
  | i, x :: xs, hr, hi, hnd, hc, hp => by
      simp only [idsL, List.mem_append, not_or] at hi hc
      simp only [idsL] at hnd
      have hndx := (List.nodup_append.mp hnd).1
      have hndxs := (List.nodup_append.mp hnd).2.1
      have hdisj : ∀ a ∈ ids x, ∀ b ∈ idsL xs, a ≠ b := (List.nodup_append.mp hnd).2.2
      simp only [ReprL] at hr
      by_cases hxc : x.id = c
      · -- direct child, found at the head
        have hpi : p = i := by
          cases x with
          | node j js =>
            simp only [IT.id] at hxc; subst hxc
            have := hr.1; simp only [Repr] at this
            rw [this.1] at hp; exact (Option.some.inj hp).symm
        subst hpi
        have hcx : c ∈ ids x := hxc ▸ id_mem_ids x
        have hcxs : c ∉ idsL xs := fun hh => hdisj c hcx c hh rfl
        simp only [rmL, hxc, if_true, List.map_cons, List.erase_cons_head]
        refine ⟨⟨by simp, by intro hh; exact absurd rfl hh⟩, ?_⟩
        exact frameL h p c (some p) xs hcxs hi.2 hr.2
      · simp only [rmL, hxc, if_false, List.map_cons, ReprL, rm_id]
        rcases hc with hcx | hcxs
        · -- c strictly inside x
          have hcne : c ≠ x.id := fun e => hxc e.symm
          have hpx : p ∈ ids x := parent_in h c p (some i) x hr.1 hcx hcne hp
          have hcxs : c ∉ idsL xs := fun hh => hdisj c hcx c hh rfl
          have hpxs : p ∉ idsL xs := fun hh => hdisj p hpx p hh rfl
          have hpi : p ≠ i := fun e => hi.1 (e ▸ hpx)
          have hrest : rmL c xs = xs := rmL_notin c xs hcxs
          rw [hrest]
          refine ⟨⟨fun e => absurd e hpi, fun _ => rfl⟩, ?_, frameL h p c (some i) xs hcxs hpxs hr.2⟩
          exact rm_repr h p c (some i) x hr.1 hndx hcx hcne hp
        · -- c in the tail
          have hcx : c ∉ ids x := fun hh => hdisj c hh c hcxs rfl
          have ⟨hm, hrl⟩ := rmL_repr h p c i xs hr.2 hi.2 hndxs hcxs hp
          have hpx : p ∉ ids x := by
            intro hh
            rcases parent_inL h c p i xs hr.2 hcxs hp with e | e
            · exact hi.1 (e ▸ hh)
            · exact hdisj p hh p e rfl
          rw [rm_notin c x hcx]
          refine ⟨⟨?_, ?_⟩, frame h p c (some i) x hcx hpx hr.1, hrl⟩
          · intro e; rw [hm.1 e]
            have : x.id ≠ c := hxc
            rw [List.erase_cons_tail (by simpa using this)]
          · intro e; rw [hm.2 e]
end

#print axioms rm_repr
end Heap
