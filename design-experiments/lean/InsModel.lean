/-! Mathlib-free copy of the `ins` model for the driver experiment -/
namespace InsModel

inductive T where
  | leaf (i : Nat)
  | node (cs : List T)

mutual
def mask : T → Nat
  | .leaf i => 1 <<< i
  | .node cs => maskL cs
def maskL : List T → Nat
  | [] => 0
  | c :: cs => mask c ||| maskL cs
end

mutual
def ins (S : Nat) : T → T
  | .leaf i => .leaf i
  | .node cs =>
      if cs.any (fun c => S &&& mask c == S) then .node (insL S cs)
      else if maskL cs == S then .node cs
      else
        let inn := cs.filter (fun c => mask c &&& S != 0)
        let out := cs.filter (fun c => mask c &&& S == 0)
        if maskL inn == S then .node (out ++ [.node inn]) else .node cs
def insL (S : Nat) : List T → List T
  | [] => []
  | c :: cs => if S &&& mask c == S then ins S c :: cs else c :: insL S cs
end

/-- head filter of from_split_bitmasks: mask with all-taxa, drop full and singleton/empty, unrooted "denormalise" on bit 0 -/
def prep (all : Nat) (rooted : Bool) (s : Nat) : Option Nat :=
  let m := s &&& all
  if m != all && ((m - 1) &&& m) != 0 then
    if rooted then some m else (if 1 &&& m != 0 then some ((all ^^^ m) &&& all) else some m)
  else none

def star (n : Nat) : T := .node ((List.range n).map .leaf)

def build (n : Nat) (rooted : Bool) (splits : List Nat) : T :=
  let all := (1 <<< n) - 1
  splits.foldl (fun t s => match prep all rooted s with | some m => ins m t | none => t) (star n)

mutual
def render : T → String
  | .leaf i => toString i
  | .node cs => "(" ++ renderL cs ++ ")"
def renderL : List T → String
  | [] => ""
  | [c] => render c
  | c :: cs => render c ++ "," ++ renderL cs
end

end InsModel
