/-! Mathlib-free prototype model of Tree.reseed_at (update_bipartitions=False) for a differential run -/
namespace ReseedModel

inductive T where
  | node (id : Nat) (len : Option Int) (cs : List T)

def T.id : T → Nat | .node i _ _ => i
def T.len : T → Option Int | .node _ l _ => l
def T.cs : T → List T | .node _ _ cs => cs
def T.setLen (t : T) (l : Option Int) : T := .node t.id l t.cs

def build (fuel : Nat) (par : Array Int) (lens : Array (Option Int)) (i : Nat) : T :=
  match fuel with
  | 0 => .node i none []
  | f+1 =>
    let kids := (List.range par.size).filter (fun j => par[j]! == (i : Int))
    .node i lens[i]! (kids.map (build f par lens))

mutual
def contains (x : Nat) : T → Bool
  | .node i _ cs => i == x || containsL x cs
def containsL (x : Nat) : List T → Bool
  | [] => false
  | c :: cs => contains x c || containsL x cs
end

def addLen (a b : Option Int) : Option Int :=   -- child.len += parent.len with None handling of suppress_unifurcations
  match b with
  | none => a
  | some y => match a with | none => some y | some x => some (x + y)

-- suppress_unifurcations: post-order; unary node replaced by its child, child.len absorbs node.len
mutual
def sup : T → T
  | .node i l cs => match supL cs with
    | [c] => c.setLen (addLen c.len l)
    | cs' => .node i l cs'
def supL : List T → List T
  | [] => []
  | c :: cs => sup c :: supL cs
end

/-- collapse_basal_bifurcation: to_keep.len += to_del.len inside try (None on either side: unchanged) -/
def tryAdd (a b : Option Int) : Option Int :=
  match a, b with
  | some x, some y => some (x + y)
  | _, _ => a

def collapseBasal : T → T
  | .node i l [a, b] =>
    if b.cs.length ≥ 2 then .node i l (a.setLen (tryAdd a.len b.len) :: b.cs)
    else if a.cs.length ≥ 2 then .node i l (a.cs ++ [b.setLen (tryAdd b.len a.len)])
    else .node i l [a, b]
  | t => t

/-- invert edges along the path from the current root down to `target` -/
def invertTo (fuel : Nat) (target : Nat) (t : T) : T :=
  match fuel with
  | 0 => t
  | f+1 =>
    if t.id == target then t else
    match t.cs.find? (contains target) with
    | none => t
    | some x =>
      let rest := t.cs.filter (fun c => c.id != x.id)
      let oldRoot := T.node t.id x.len rest          -- old tail gets old head's length
      let newX := T.node x.id t.len (x.cs ++ [oldRoot])   -- old head gets old tail's length, old tail appended last
      invertTo f target newX

def isLeafIn (target : Nat) (t : T) : Bool :=
  let rec go (fuel : Nat) (t : T) : Option Bool :=
    match fuel with
    | 0 => none
    | f+1 => if t.id == target then some t.cs.isEmpty else
        (t.cs.filterMap (go f)).head?
  (go 1000 t).getD false

def reseed (unrooted collapse suppress : Bool) (target : Nat) (t : T) : T :=
  let wasLeaf := isLeafIn target t
  let moved := t.id != target
  let t1 := invertTo 1000 target t
  let t2 := if moved && wasLeaf && suppress then
      match t1.cs with
      | [c] => T.node t1.id t1.len c.cs
      | _ => t1
    else t1
  let t3 := if collapse && unrooted && t2.cs.length == 2 then collapseBasal t2 else t2
  if suppress then sup t3 else t3

def showLen : Option Int → String | none => "N" | some x => toString x
mutual
def render : T → String
  | .node i l cs => "(" ++ toString i ++ ":" ++ showLen l ++ renderL cs ++ ")"
def renderL : List T → String
  | [] => ""
  | c :: cs => " " ++ render c ++ renderL cs
end

end ReseedModel
