/-! Mathlib-free prototype model of Tree.encode_bipartitions (default flags) for a differential run -/
namespace EncModel

inductive T where
  | node (id : Nat) (taxon : Option Nat) (cs : List T)

def T.id : T → Nat | .node i _ _ => i
def T.cs : T → List T | .node _ _ cs => cs

/-- build a tree from a parent array: children of `i` are the `j` with `par[j] = i`, in index order -/
def build (fuel : Nat) (par : Array Int) (tax : Array Int) (i : Nat) : T :=
  match fuel with
  | 0 => .node i none []
  | f+1 =>
    let kids := (List.range par.size).filter (fun j => par[j]! == (i : Int))
    let tx := if tax[i]! < 0 then none else some (tax[i]!).toNat
    .node i tx (kids.map (build f par tax))

-- suppress unifurcations bottom-up (as the post-order pass does)
mutual
def sup : T → T
  | .node i tx cs => match supL cs with
    | [c] => c
    | cs' => .node i tx cs'
def supL : List T → List T
  | [] => []
  | c :: cs => sup c :: supL cs
end

/-- collapse_basal_bifurcation: seed with exactly two children; delete child 1 if it has ≥ 2 children,
    else child 0 if it has ≥ 2 children; the deleted node's children take its place -/
def collapseBasal : T → T
  | .node i tx [a, b] =>
    if b.cs.length ≥ 2 then .node i tx (a :: b.cs)
    else if a.cs.length ≥ 2 then .node i tx (a.cs ++ [b])
    else .node i tx [a, b]
  | t => t

mutual
def mask : T → Nat
  | .node _ tx [] => match tx with | some k => 1 <<< k | none => 0
  | .node _ _ (c :: cs) => maskL (c :: cs)
def maskL : List T → Nat
  | [] => 0
  | c :: cs => mask c ||| maskL cs
end

mutual
def masks : T → List Nat
  | .node i tx cs => masksL cs ++ [mask (.node i tx cs)]
def masksL : List T → List Nat
  | [] => []
  | c :: cs => masks c ++ masksL cs
end

def lsb (n : Nat) : Nat := (n &&& (n - 1)) ^^^ n

def normalize (L m : Nat) : Nat :=
  if m &&& lsb L != 0 then (L ^^^ (L &&& m)) else m &&& L

/-- (leafset, split) for every edge kept, default flags -/
def encode (rooted : Bool) (t : T) : List (Nat × Nat) :=
  let t1 := if !rooted && t.cs.length == 2 then collapseBasal t else t
  let t2 := sup t1
  let L := mask t2
  (masks t2).map (fun m => (m, if rooted then m else normalize L m))

def insertSorted (x : Nat × Nat) : List (Nat × Nat) → List (Nat × Nat)
  | [] => [x]
  | y :: ys => if x.1 < y.1 || (x.1 == y.1 && x.2 ≤ y.2) then x :: y :: ys else y :: insertSorted x ys
def sortPairs (l : List (Nat × Nat)) : List (Nat × Nat) := l.foldr insertSorted []

end EncModel
