import DV.InsModel
import DV.TokDrv
open InsModel
def handle (line : String) : String :=
  match (line.trimAscii.toString.splitOn " ") with
  | "build" :: n :: r :: ss =>
    match n.toNat?, (ss.mapM String.toNat?) with
    | some n, some ss => InsModel.render (build n (r == "1") ss)
    | _, _ => "bad-op"
  | ["tokens", pu, h] => " ".intercalate (TokDrv.allTokens (pu == "1") (TokDrv.unhex h.toList) [])
  | ["tokens", pu] => " ".intercalate (TokDrv.allTokens (pu == "1") [] [])
  | _ => "bad-op"
partial def loop (h : IO.FS.Stream) : IO Unit := do
  let line ← h.getLine
  if line.isEmpty then return ()
  IO.println (handle line)
  loop h
def main : IO Unit := do loop (← IO.getStdin)
