import DV.InsModel
import DV.TokDrv
import DV.EncModel
import DV.ReseedModel
open InsModel
def handle (line : String) : String :=
  match (line.trimAscii.toString.splitOn " ") with
  | "build" :: n :: r :: ss =>
    match n.toNat?, (ss.mapM String.toNat?) with
    | some n, some ss => InsModel.render (build n (r == "1") ss)
    | _, _ => "bad-op"
  | "encode" :: r :: n :: rest =>
    match n.toNat?, rest.mapM String.toInt? with
    | some n, some xs =>
      let par := (xs.take n).toArray
      let tax := (xs.drop n).toArray
      let root := ((List.range n).find? (fun j => par[j]! == -1)).getD 0
      let t := EncModel.build (n+1) par tax root
      " ".intercalate ((EncModel.sortPairs (EncModel.encode (r == "1") t)).map (fun p => s!"{p.1}:{p.2}"))
    | _, _ => "bad-op"
  | "reseed" :: u :: c :: sp :: tgt :: n :: rest =>
    match n.toNat?, tgt.toNat? with
    | some n, some tgt =>
      let par := ((rest.take n).map (fun x => x.toInt?.getD 0)).toArray
      let lens := ((rest.drop n).map (fun x => if x == "N" then none else x.toInt?)).toArray
      let root := ((List.range n).find? (fun j => par[j]! == -1)).getD 0
      let t := ReseedModel.build (n+1) par lens root
      ReseedModel.render (ReseedModel.reseed (u == "1") (c == "1") (sp == "1") tgt t)
    | _, _ => "bad-op"
  | ["tokens", pu, h] => " ".intercalate (TokDrv.allTokens (pu == "1") (TokDrv.unhex h.toList) [])
  | ["tokens", pu] => " ".intercalate (TokDrv.allTokens (pu == "1") [] [])
  | _ => "bad-op"
partial def loop (h : IO.FS.Stream) : IO Unit := do
  let line ← h.getLine
  if line.isEmpty then return ()
  IO.println (handle line)
  loop h
def main : IO Unit := do loop (← IO.getStdin)
