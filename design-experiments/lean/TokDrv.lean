import DV.Tok
open Tok
namespace TokDrv

def hexVal (c : Char) : Nat :=
  if c.isDigit then c.toNat - '0'.toNat else if 'a' ≤ c ∧ c ≤ 'f' then c.toNat - 'a'.toNat + 10 else 0

def unhex : List Char → List Char
  | a :: b :: rest => Char.ofNat (hexVal a * 16 + hexVal b) :: unhex rest
  | _ => []

def hex (cs : List Char) : String :=
  String.join (cs.map (fun c => let n := c.toNat; String.ofList [Nat.digitChar (n / 16), Nat.digitChar (n % 16)]))

/-- all tokens of an input, as the reader would see them by calling next repeatedly -/
partial def allTokens (pu : Bool) (inp : List Char) (acc : List String) : List String :=
  match next pu (inp.length + 2) inp with
  | .eof => acc ++ ["EOF"]
  | .err => acc ++ ["ERR"]
  | .tok t q rest => allTokens pu rest (acc ++ [(if q then "Q:" else "P:") ++ hex t])

end TokDrv
