import Mathlib.Data.Int.Bitwise
import Mathlib.Data.Nat.Bitwise
namespace PyBitsHand

def pand (a b : Int) : Int := Int.land a b
def pxor (a b : Int) : Int := Int.xor a b
def pnot (a : Int) : Int := Int.lnot a

def normalize_bitmask (bitmask fill lrb : Int) : Int :=
  if pand bitmask lrb != 0 then pand (pnot bitmask) fill else pand bitmask fill

theorem pand_not_nat (b f : Nat) : pand (pnot (b:Int)) (f:Int) = ((Nat.ldiff f b : Nat) : Int) := by
  simp [pand, pnot, Int.land, Int.lnot]

theorem pand_nat (b f : Nat) : pand (b:Int) (f:Int) = ((b &&& f : Nat) : Int) := by
  simp [pand, Int.land]

theorem normalize_nat (b f l : Nat) :
    normalize_bitmask b f l = (((if (b &&& l) != 0 then Nat.ldiff f b else b &&& f) : Nat) : Int) := by
  unfold normalize_bitmask
  rw [pand_nat, pand_not_nat, pand_nat]
  by_cases h : (b &&& l) = 0 <;> simp [h]

#print axioms normalize_nat
end PyBitsHand
