/-! Prototype: NexusTokenizer + escape_nexus_token round trip (List Char level) -/
namespace Tok

def uncaptured : List Char := [' ', '\t', '\n', '\r']
def captured : List Char := ['{', '}', '(', ')', ',', ';', ':', '=', '\\', '"']
def quoteC : Char := '\''
def commentBegin : Char := '['
def commentEnd : Char := ']'
-- NewickWriter protect_regex r'''[()[\]{},;:'"\0\t\n]'''  (current source; lacks '=' and '\\')
def protectNewick : List Char := ['(', ')', '[', ']', '{', '}', ',', ';', ':', '\'', '"', '\x00', '\t', '\n']
-- after fix
def protectFixed : List Char := protectNewick ++ ['=', '\\']

def special (c : Char) : Bool := uncaptured.contains c || captured.contains c || c == quoteC || c == commentBegin

/-- read a quoted token body; input is positioned just after the opening quote.
    returns (token, rest) or none on unterminated quote -/
def readQuoted : List Char → List Char → Option (List Char × List Char)
  | [], _ => none
  | c :: cs, acc =>
    if c == quoteC then
      match cs with
      | c2 :: cs2 => if c2 == quoteC then readQuoted cs2 (acc ++ [quoteC]) else some (acc, cs)
      | [] => some (acc, [])
    else readQuoted cs (acc ++ [c])

/-- skip comment: positioned at '[' ; returns rest after matching ']' (or [] at EOF) -/
def skipComment : List Char → Nat → List Char
  | [], _ => []
  | c :: cs, nesting =>
    if c == commentEnd then (if nesting ≤ 1 then cs else skipComment cs (nesting - 1))
    else if c == commentBegin then skipComment cs (nesting + 1)
    else skipComment cs nesting

theorem skipComment_len : ∀ (l : List Char) (n : Nat), (skipComment l n).length ≤ l.length
  | [], _ => by simp [skipComment]
  | c :: cs, n => by
    simp only [skipComment]
    split
    · split
      · simp
      · have := skipComment_len cs (n-1); simp; omega
    · split
      · have := skipComment_len cs (n+1); simp; omega
      · have := skipComment_len cs n; simp; omega

/-- read a plain token -/
def readPlain (pu : Bool) : List Char → List Char → List Char × List Char
  | [], acc => (acc, [])
  | c :: cs, acc =>
    if uncaptured.contains c then (acc, cs)
    else if captured.contains c then (acc, c :: cs)
    else if c == commentBegin then
      readPlain pu (skipComment cs 1) acc
    else
      readPlain pu cs (acc ++ [if c == '_' && !pu then ' ' else c])
termination_by l => l.length
decreasing_by
  · have := skipComment_len cs 1
    simp; omega
  · simp

def skipWs : List Char → List Char
  | [] => []
  | c :: cs => if uncaptured.contains c then skipWs cs else c :: cs

theorem skipWs_len : ∀ l, (skipWs l).length ≤ l.length
  | [] => by simp [skipWs]
  | c :: cs => by
    simp only [skipWs]; split
    · have := skipWs_len cs; simp; omega
    · simp

inductive Res where
  | eof
  | err
  | tok (text : List Char) (quoted : Bool) (rest : List Char)
deriving Repr

/-- one call of Tokenizer.__next__ -/
def next (pu : Bool) (fuel : Nat) (inp : List Char) : Res :=
  match fuel with
  | 0 => .err
  | fuel+1 =>
  match skipWs inp with
  | [] => .eof
  | c :: cs =>
    if captured.contains c then .tok [c] false cs
    else if c == quoteC then
      match readQuoted cs [] with
      | none => .err
      | some (t, rest) => .tok t true rest
    else
      let (t, rest) := readPlain pu (c :: cs) []
      if t.isEmpty then (if rest.isEmpty then .eof else next pu fuel rest) else .tok t false rest

def escape (label : List Char) (preserveSpaces quoteUnderscores : Bool) (protect : List Char) : List Char :=
  let hasProt := label.any (fun c => protect.contains c)
  if !preserveSpaces && !label.contains '_' && !hasProt then
    label.map (fun c => if c == ' ' || c == '\t' then '_' else c)
  else if hasProt || label.contains ' ' || (quoteUnderscores && label.contains '_') then
    [quoteC] ++ (label.flatMap (fun c => if c == quoteC then [quoteC, quoteC] else [c])) ++ [quoteC]
  else label

#eval String.ofList (escape "a b".toList false true protectNewick)
#eval String.ofList (escape "a_b".toList false true protectNewick)
#eval String.ofList (escape "a'b".toList false true protectNewick)
#eval String.ofList (escape "a=b".toList false true protectNewick)
#eval next false 10 ((escape "a=b".toList false true protectNewick) ++ ":1.0,".toList)
#eval next false 10 ((escape "a=b".toList false true protectFixed) ++ ":1.0,".toList)
#eval next false 10 ((escape "a'b c".toList false true protectFixed) ++ ":1.0,".toList)
#eval next false 10 "[&R] (a,b)".toList


def dbl (l : List Char) : List Char := l.flatMap (fun c => if c == quoteC then [quoteC, quoteC] else [c])

theorem dbl_cons_q (cs : List Char) : dbl (quoteC :: cs) = quoteC :: quoteC :: dbl cs := by simp [dbl]
theorem dbl_cons_nq (c : Char) (cs : List Char) (h : c ≠ quoteC) : dbl (c :: cs) = c :: dbl cs := by simp [dbl, h]

theorem readQuoted_dbl (l : List Char) : ∀ (acc rest : List Char) (d : Char), d ≠ quoteC →
    readQuoted (dbl l ++ quoteC :: d :: rest) acc = some (acc ++ l, d :: rest) := by
  induction l with
  | nil =>
    intro acc rest d hd
    simp [dbl, readQuoted, hd]
  | cons c cs ih =>
    intro acc rest d hd
    by_cases hc : c = quoteC
    · subst hc
      rw [dbl_cons_q]
      show readQuoted (quoteC :: quoteC :: (dbl cs ++ quoteC :: d :: rest)) acc = _
      rw [readQuoted.eq_def]
      simp only [beq_self_eq_true, if_true]
      rw [ih _ _ _ hd]; simp
    · rw [dbl_cons_nq c cs hc]
      show readQuoted (c :: (dbl cs ++ quoteC :: d :: rest)) acc = _
      rw [readQuoted.eq_def]
      have hc' : (c == quoteC) = false := by simpa using hc
      simp only [hc', Bool.false_eq_true, if_false]
      rw [ih _ _ _ hd]; simp

def conv (pu : Bool) (c : Char) : Char := if c == '_' && !pu then ' ' else c

theorem readPlain_plain (pu : Bool) (l : List Char) : ∀ (acc rest : List Char) (d : Char),
    (∀ c ∈ l, special c = false) → d ∈ captured → d ∉ uncaptured →
    readPlain pu (l ++ d :: rest) acc = (acc ++ l.map (conv pu), d :: rest) := by
  induction l with
  | nil =>
    intro acc rest d _ hd hu
    simp [readPlain, hd, hu]
  | cons c cs ih =>
    intro acc rest d hl hd hu
    have hc := hl c (by simp)
    simp only [special, Bool.or_eq_false_iff] at hc
    obtain ⟨⟨⟨h1, h2⟩, _h3⟩, h4⟩ := hc
    simp only [List.cons_append]
    rw [readPlain]
    simp only [h1, h2, h4, Bool.false_eq_true, if_false]
    rw [ih _ _ _ (fun c' hc' => hl c' (by simp [hc'])) hd hu]
    simp [conv]

theorem captured_not_uncaptured : ∀ d ∈ captured, d ∉ uncaptured := by decide

#print axioms readPlain_plain
#print axioms readQuoted_dbl
end Tok
