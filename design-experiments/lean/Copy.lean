import Mathlib.Tactic
/-! Prototype: memo-driven deep copy allocates only fresh objects and never writes to old ones (C12) -/
namespace Copy

inductive Val where
  | atom (a : Nat)
  | ref (i : Nat)
deriving DecidableEq

structure Heap where
  obj : Nat → Option (List Val)
  next : Nat

abbrev Memo := List (Nat × Nat)

def Heap.set (h : Heap) (j : Nat) (fs : List Val) : Heap :=
  { h with obj := fun x => if x = j then some fs else h.obj x }

def Heap.alloc (h : Heap) : Heap × Nat :=
  ({ obj := fun x => if x = h.next then some [] else h.obj x, next := h.next + 1 }, h.next)

mutual
def cpVal : Nat → Heap → Memo → Val → Option (Heap × Memo × Val)
  | _, h, m, .atom a => some (h, m, .atom a)
  | fuel, h, m, .ref i =>
    match m.lookup i with
    | some j => some (h, m, .ref j)
    | none =>
      match fuel with
      | 0 => none
      | fuel+1 =>
        match h.obj i with
        | none => none
        | some fs =>
          let (h1, j) := h.alloc
          match cpFields fuel h1 ((i, j) :: m) fs with
          | none => none
          | some (h2, m2, fs') => some (h2.set j fs', m2, .ref j)
def cpFields : Nat → Heap → Memo → List Val → Option (Heap × Memo × List Val)
  | _, h, m, [] => some (h, m, [])
  | fuel, h, m, v :: vs =>
    match cpVal fuel h m v with
    | none => none
    | some (h1, m1, v') =>
      match cpFields fuel h1 m1 vs with
      | none => none
      | some (h2, m2, vs') => some (h2, m2, v' :: vs')
end

-- a 3-object cyclic graph: 0 -> [ref 1, ref 2], 1 -> [ref 0], 2 -> [atom 7, ref 2]; object 2 pre-seeded (shared)
def h0 : Heap := { obj := fun x => if x = 0 then some [.ref 1, .ref 2] else if x = 1 then some [.ref 0]
                                   else if x = 2 then some [.atom 7, .ref 2] else none, next := 3 }
#eval (cpVal 10 h0 [(2,2)] (.ref 0)).map (fun r => (r.2.1, r.1.next, (List.range r.1.next).map (fun i => (r.1.obj i).map (·.map (fun v => match v with | .atom a => (0,a) | .ref i => (1,i))))))

/-- what the copy guarantees about allocation and writes -/
structure Ok (n0 : Nat) (h : Heap) (m : Memo) (h' : Heap) (m' : Memo) : Prop where
  next_le : h.next ≤ h'.next
  old_same : ∀ x, x < h.next → h'.obj x = h.obj x                 -- never writes to an existing object
  memo_ext : ∀ p ∈ m, p ∈ m'
  new_fresh : ∀ p ∈ m', p ∈ m ∨ (h.next ≤ p.2 ∧ p.2 < h'.next)     -- every new target is freshly allocated

theorem Ok.refl (n0 : Nat) (h : Heap) (m : Memo) : Ok n0 h m h m :=
  ⟨le_refl _, fun _ _ => rfl, fun _ hp => hp, fun _ hp => Or.inl hp⟩

theorem Ok.trans {n0 : Nat} {h1 h2 h3 : Heap} {m1 m2 m3 : Memo}
    (a : Ok n0 h1 m1 h2 m2) (b : Ok n0 h2 m2 h3 m3) : Ok n0 h1 m1 h3 m3 where
  next_le := le_trans a.next_le b.next_le
  old_same := fun x hx => by rw [b.old_same x (lt_of_lt_of_le hx a.next_le), a.old_same x hx]
  memo_ext := fun p hp => b.memo_ext p (a.memo_ext p hp)
  new_fresh := fun p hp => by
    rcases b.new_fresh p hp with h | ⟨h, h'⟩
    · rcases a.new_fresh p h with h | ⟨h, h'⟩
      · exact Or.inl h
      · exact Or.inr ⟨h, lt_of_lt_of_le h' b.next_le⟩
    · exact Or.inr ⟨le_trans a.next_le h, h'⟩


def P (f : Nat) : Prop := ∀ h m v r, cpVal f h m v = some r → Ok 0 h m r.1 r.2.1
def Q (f : Nat) : Prop := ∀ h m vs r, cpFields f h m vs = some r → Ok 0 h m r.1 r.2.1

theorem Q_of_P (f : Nat) (hP : P f) : Q f := by
  intro h m vs
  induction vs generalizing h m with
  | nil => intro r hr; simp [cpFields] at hr; subst hr; exact Ok.refl _ _ _
  | cons v vs ih =>
    intro r hr
    rw [cpFields] at hr
    cases h1 : cpVal f h m v with
    | none => simp [h1] at hr
    | some r1 =>
      obtain ⟨ha, ma, va⟩ := r1
      simp only [h1] at hr
      cases h2 : cpFields f ha ma vs with
      | none => simp [h2] at hr
      | some r2 =>
        obtain ⟨hb, mb, vb⟩ := r2
        simp only [h2, Option.some.injEq] at hr
        subst hr
        exact (hP h m v _ h1).trans (ih ha ma (hb, mb, vb) h2)

theorem P_zero : P 0 := by
  intro h m v r hr
  cases v with
  | atom a => simp [cpVal] at hr; subst hr; exact Ok.refl _ _ _
  | ref i =>
    rw [cpVal] at hr
    cases hl : m.lookup i with
    | some j => simp [hl] at hr; subst hr; exact Ok.refl _ _ _
    | none => simp [hl] at hr

theorem P_succ (f : Nat) (hQ : Q f) : P (f+1) := by
  intro h m v r hr
  cases v with
  | atom a => simp [cpVal] at hr; subst hr; exact Ok.refl _ _ _
  | ref i =>
    rw [cpVal] at hr
    cases hl : m.lookup i with
    | some j => simp [hl] at hr; subst hr; exact Ok.refl _ _ _
    | none =>
      simp only [hl] at hr
      cases ho : h.obj i with
      | none => simp [ho] at hr
      | some fs =>
        simp only [ho, Heap.alloc] at hr
        cases hc : cpFields f { obj := fun x => if x = h.next then some [] else h.obj x, next := h.next + 1 }
            ((i, h.next) :: m) fs with
        | none => simp [hc] at hr
        | some r2 =>
          obtain ⟨h2, m2, fs'⟩ := r2
          simp only [hc, Option.some.injEq] at hr
          subst hr
          have ok2 := hQ _ _ _ _ hc
          -- alloc step then fields then final set at the fresh id
          refine ⟨?_, ?_, ?_, ?_⟩
          · have := ok2.next_le; simp only [Heap.set] at *; omega
          · intro x hx
            have h1 := ok2.old_same x (by simp; omega)
            simp only [Heap.set]
            have hne : x ≠ h.next := by omega
            simp only [hne, if_false] at h1 ⊢
            exact h1
          · intro p hp; exact ok2.memo_ext p (by simp [hp])
          · intro p hp
            rcases ok2.new_fresh p hp with hh | ⟨hh, hh'⟩
            · rcases List.mem_cons.mp hh with rfl | hh
              · right; simp only [Heap.set]; have := ok2.next_le; simp at this ⊢; omega
              · exact Or.inl hh
            · right; simp only [Heap.set] at *; simp at hh; omega

theorem copy_ok : ∀ f, P f ∧ Q f
  | 0 => ⟨P_zero, Q_of_P 0 P_zero⟩
  | f+1 => have hp := P_succ f (copy_ok f).2; ⟨hp, Q_of_P (f+1) hp⟩

/-- deep copy never writes to an existing object and maps every non-preseeded object to a fresh id -/
theorem deepcopy_fresh (f : Nat) (h : Heap) (pre : Memo) (v : Val) (h' : Heap) (m' : Memo) (v' : Val)
    (hr : cpVal f h pre v = some (h', m', v')) :
    (∀ x, x < h.next → h'.obj x = h.obj x) ∧
    (∀ p ∈ m', p ∈ pre ∨ h.next ≤ p.2) :=
  let ok := (copy_ok f).1 h pre v _ hr
  ⟨ok.old_same, fun p hp => (ok.new_fresh p hp).imp id (fun x => x.1)⟩

#print axioms deepcopy_fresh
end Copy
