import DV.Tok
/-! Prototype: the tokenizer's `next` as a total function by well-founded recursion (no fuel),
    and a reader-style loop (`skip_to_semicolon`, a TAXLABELS-like loop) defined on top of it:
    Lean accepting these definitions is the termination proof (C20 a). -/
namespace Tok

theorem readPlain_len_le (pu : Bool) : ∀ (l acc : List Char), (readPlain pu l acc).2.length ≤ l.length := by
  intro l
  induction l using List.rec with
  | nil => intro acc; simp [readPlain]
  | cons c cs ih =>
    -- strong induction is needed for the comment case; redo with length induction
    intro acc
    exact (by
      have key : ∀ (n : Nat) (l : List Char), l.length ≤ n → ∀ acc, (readPlain pu l acc).2.length ≤ l.length := by
        intro n
        induction n with
        | zero => intro l hl acc; have : l = [] := by cases l <;> simp_all
                  subst this; simp [readPlain]
        | succ n ihn =>
          intro l hl acc
          cases l with
          | nil => simp [readPlain]
          | cons d ds =>
            rw [readPlain]
            split
            · simp
            · split
              · simp
              · split
                · have h1 := skipComment_len ds 1
                  have h2 := ihn (skipComment ds 1) (by simp at hl; omega) acc
                  simp; omega
                · have h2 := ihn ds (by simp at hl; omega)
                  simp; exact Nat.le_succ_of_le (h2 _)
      exact key (c :: cs).length (c :: cs) (Nat.le_refl _) acc)

theorem readQuoted_len : ∀ (l acc : List Char) (t rest : List Char),
    readQuoted l acc = some (t, rest) → rest.length ≤ l.length := by
  intro l
  induction l using List.rec with
  | nil => intro acc t rest h; simp [readQuoted] at h
  | cons c cs ih =>
    intro acc t rest h
    exact (by
      have key : ∀ (n : Nat) (l acc t rest : List Char), l.length ≤ n → readQuoted l acc = some (t, rest) → rest.length ≤ l.length := by
        intro n
        induction n with
        | zero => intro l acc t rest hl h; have : l = [] := by cases l <;> simp_all
                  subst this; simp [readQuoted] at h
        | succ n ihn =>
          intro l acc t rest hl h
          cases l with
          | nil => simp [readQuoted] at h
          | cons d ds =>
            rw [readQuoted.eq_def] at h
            simp only at h
            split at h
            · cases ds with
              | nil => simp at h; rw [← h.2]; simp
              | cons e es =>
                simp only at h
                split at h
                · have := ihn es _ t rest (by simp at hl; omega) h; simp; omega
                · simp at h; rw [← h.2]; simp
            · have := ihn ds _ t rest (by simp at hl; omega) h; simp; omega
      exact key (c :: cs).length (c :: cs) acc t rest (Nat.le_refl _) h)

/-- `Tokenizer.__next__` as a total function: no fuel -/
def nextT (pu : Bool) (inp : List Char) : Res :=
  match h : skipWs inp with
  | [] => .eof
  | c :: cs =>
    if captured.contains c then .tok [c] false cs
    else if c == quoteC then
      match readQuoted cs [] with
      | none => .err
      | some (t, rest) => .tok t true rest
    else
      if uncaptured.contains c then .err   -- unreachable: skipWs removed leading whitespace
      else
      let r := readPlain pu (c :: cs) []
      if r.1.isEmpty then (if r.2.isEmpty then .eof else
        if r.2.length < inp.length then nextT pu r.2 else .err) else .tok r.1 false r.2
termination_by inp.length


theorem readPlain_first (pu : Bool) (c : Char) (cs : List Char)
    (h1 : uncaptured.contains c = false) (h2 : captured.contains c = false) :
    (readPlain pu (c :: cs) []).2.length ≤ cs.length := by
  rw [readPlain]
  simp only [h1, h2, Bool.false_eq_true, if_false]
  split
  · exact Nat.le_trans (readPlain_len_le pu _ _) (skipComment_len cs 1)
  · exact readPlain_len_le pu cs _

theorem nextT_shorter (pu : Bool) : ∀ (n : Nat) (inp : List Char), inp.length ≤ n →
    ∀ t q rest, nextT pu inp = .tok t q rest → rest.length < inp.length := by
  intro n
  induction n with
  | zero =>
    intro inp hl t q rest h
    have : inp = [] := by cases inp <;> simp_all
    subst this
    rw [nextT] at h; simp [skipWs] at h
  | succ n ih =>
    intro inp hl t q rest h
    rw [nextT] at h
    have hws := skipWs_len inp
    split at h
    · cases h
    · rename_i c cs hsk
      rw [hsk] at hws
      simp only [List.length_cons] at hws
      split at h
      · cases h; omega
      · split at h
        · split at h
          · cases h
          · rename_i t' rest' hq
            cases h
            have := readQuoted_len cs [] _ _ hq; omega
        · split at h
          · cases h
          · rename_i hcap _ hunc
            have hfirst := readPlain_first pu c cs (by simpa using hunc) (by simpa using hcap)
            simp only at h
            split at h
            · split at h
              · cases h
              · split at h
                · rename_i hlt
                  have := ih _ (by omega) t q rest h
                  omega
                · cases h
            · cases h; omega

/-- `NexusTokenizer.skip_to_semicolon`, end of stream made explicit: remaining input after the next
    unquoted ';', or `none` at end of stream / tokenizer error.  Accepted without fuel. -/
def skipToSemi (pu : Bool) (inp : List Char) : Option (List Char) :=
  match h : nextT pu inp with
  | .eof => none
  | .err => none
  | .tok t q rest => if t == [';'] && !q then some rest else skipToSemi pu rest
termination_by inp.length
decreasing_by exact nextT_shorter pu inp.length inp (Nat.le_refl _) t q rest h

/-- a TAXLABELS-style statement loop (repaired control flow): collect tokens up to ';',
    `none` = UnexpectedEndOfStream.  Terminates on every input by construction. -/
def collectToSemi (pu : Bool) (inp : List Char) (acc : List (List Char)) : Option (List (List Char) × List Char) :=
  match h : nextT pu inp with
  | .eof => none
  | .err => none
  | .tok t q rest => if t == [';'] && !q then some (acc, rest) else collectToSemi pu rest (acc ++ [t])
termination_by inp.length
decreasing_by exact nextT_shorter pu inp.length inp (Nat.le_refl _) t q rest h

#eval (collectToSemi false "A 'B c' D_e [x] ; rest".toList []).map (fun r => (r.1.map String.ofList, String.ofList r.2))
#eval (collectToSemi false "A B".toList []).map (fun r => (r.1.map String.ofList, String.ofList r.2))   -- truncated: none
#print axioms skipToSemi
end Tok
